"""Interpreter for usim.py (SimPy layer) scenarios: generator processes that log what they see."""
import gc
import sys
import math

from . import bind_repo
from .seam import Seam, HarnessAbort
from . import world as W

usim = bind_repo()
from usim.py import Environment, Interrupt as SimInterrupt  # noqa: E402
from usim.py.resources.container import Container  # noqa: E402
from usim.py.resources.store import Store, PriorityStore, FilterStore, PriorityItem  # noqa: E402
from usim.py.resources.resource import Resource, PriorityResource, PreemptiveResource, \
    Preempted  # noqa: E402


class _Done(Exception):
    pass


class SimProgError(Exception):
    def __init__(self, serial):
        super().__init__(serial)
        self.serial = serial


def make_filter(spec):
    if spec is None:
        return None
    if "eq" in spec:
        value = spec["eq"]
        return lambda item: item == value
    if "mod" in spec:
        mod, rem = spec["mod"], spec["rem"]
        return lambda item: item % mod == rem
    if "ge" in spec:
        low = spec["ge"]
        return lambda item: item >= low
    if "type" in spec:
        name = spec["type"]
        return lambda item: type(item).__name__ == name
    raise ValueError(spec)


class SimWorld:
    def __init__(self, case):
        self.case = case
        self.scenario = case["scenario"]
        self.config = case.get("config") or {}
        self.trace = []
        self.res = {}
        self.res_name = {}
        self.requests = {}       # request id -> event (pinned: programs keep their requests)
        self.request_id = {}     # id(event) -> request id
        self.proc_name = {}      # id(Process) -> name
        self.procs = {}
        self.seam = Seam(plan=case.get("plan") or (), inject=None,
                         same_time_cap=self.config.get("same_time_cap"),
                         total_cap=self.config.get("total_cap"))
        self.env = None
        self.monitor_violations = []
        self.notes = {}
        self.on_event = None     # f(kind, res_name, request id, now, data) for model-driven checks
        self.release_of = {}     # id(request) -> Release event created for it
        self.batching = False    # several reports describe one instant: compare after the last
        self.events = {}         # manual events by name (C18)
        self.labels = {}         # id(event) -> member label (events pinned in self.pinned)
        self.pinned = []

    def log(self, actor, ev, *data):
        seam = self.seam
        self.trace.append((seam.tick, seam.n_act, self.env.now, actor, ev) + data)

    # ---- resources -------------------------------------------------------------------
    def make_resources(self):
        env = self.env
        for name, spec in self.scenario.get("resources", {}).items():
            kind = spec["type"]
            cap = spec.get("capacity")
            cap = math.inf if cap in (None, "inf") else cap
            if kind == "container":
                obj = Container(env, capacity=cap, init=spec.get("init", 0))
            elif kind == "store":
                obj = Store(env, capacity=cap)
            elif kind == "pstore":
                obj = PriorityStore(env, capacity=cap)
            elif kind == "fstore":
                obj = FilterStore(env, capacity=cap)
            elif kind == "resource":
                obj = Resource(env, capacity=cap)
            elif kind == "presource":
                obj = PriorityResource(env, capacity=cap)
            elif kind == "preemptive":
                # capacity defaults to 1 as for every other resource (documented signature)
                obj = PreemptiveResource(env, capacity=cap) if cap != 1 \
                    else PreemptiveResource(env)
            else:
                raise ValueError(kind)
            self.res[name] = obj
            self.res_name[id(obj)] = name
            if hasattr(obj, "release"):
                self._capture_releases(obj)

    def _capture_releases(self, resource):
        """Remember the Release event Request.__exit__ creates and drops (public method only)."""
        original = resource.release

        def release(request):
            event = original(request)
            self.release_of[id(request)] = event
            return event
        resource.release = release

    def state(self, name):
        """Observable state of a resource through its public attributes."""
        obj = self.res[name]
        kind = self.scenario["resources"][name]["type"]
        rid = self.request_id
        if kind == "container":
            return {"level": obj.level,
                    "putq": [rid.get(id(e)) for e in obj.put_queue],
                    "getq": [rid.get(id(e)) for e in obj.get_queue]}
        if kind in ("store", "pstore", "fstore"):
            items = [i.item if isinstance(i, PriorityItem) else i for i in obj.items]
            return {"items": items,
                    "putq": [rid.get(id(e)) for e in obj.put_queue],
                    "getq": [rid.get(id(e)) for e in obj.get_queue]}
        return {"users": sorted(rid.get(id(e)) for e in obj.users), "count": obj.count,
                "queue": [rid.get(id(e)) for e in obj.queue]}

    def track(self, event, rid, res, kind, actor, data=None):
        self.requests[rid] = event
        self.request_id[id(event)] = rid
        event.callbacks.append(lambda ev, rid=rid, res=res, kind=kind:
                               self._processed(rid, res, kind, ev))
        self.log(actor, kind + ".issue", res, rid, data, bool(event.triggered))
        if self.on_event:
            self.on_event("issue", res, rid, kind, actor, data)

    def _processed(self, rid, res, kind, event):
        self.log("~" + rid, "processed", res, rid, kind)
        if self.on_event:
            self.on_event("processed", res, rid, kind, None, None)

    # ---- processes -------------------------------------------------------------------
    def process(self, spec):
        name = spec["name"]
        self.log(name, "start")
        if self.scenario.get("mode") == "events":
            return (yield from self.event_process(spec))
        try:
            for op in spec.get("ops", ()):
                yield from self.step(name, op)
        except SimInterrupt as err:
            self.log(name, "interrupted", self.cause(err.cause))
        except BaseException as err:
            self.log(name, "exc", type(err).__name__)
            raise
        self.log(name, "end")
        return spec.get("ret")

    # ---- C18: events, conditions, sub-processes, interrupts --------------------------------
    def label(self, event, text):
        self.labels[id(event)] = text
        self.pinned.append(event)
        event.callbacks.append(lambda ev, text=text: self.log("~cb", "callback", text))
        return event

    def label_process(self, proc, name):
        """A Process is an event: its callbacks run once, when it has ended (C18 scenarios)."""
        if self.scenario.get("process_callbacks"):
            proc.callbacks.append(lambda ev, name=name: self.log("~cb", "callback", "proc:" + name))

    def make_events(self):
        for name in self.scenario.get("events", ()):
            self.events[name] = self.label(self.env.event(), "ev:" + name)
        for head, tail in self.scenario.get("chains", ()):
            # the chaining idiom: the tail inherits value or failure when the head is processed
            self.events[head].callbacks.append(self.events[tail].trigger)
        for name in self.scenario.get("defusers", ()):
            # a callback that handles a failure of the event (SimPy: sets `defused`)
            self.events[name].callbacks.append(lambda ev: setattr(ev, "defused", True))

    def member(self, spec):
        env = self.env
        if "t" in spec:
            return self.label(env.timeout(spec["t"], spec.get("v")), "t:%r" % spec["t"])
        if "ev" in spec:
            return self.events[spec["ev"]]
        if "proc" in spec:
            return self.procs[spec["proc"]]
        return self.condition(spec["cond"])

    def condition(self, spec):
        members = [self.member(m) for m in spec["of"]]
        if spec["kind"] == "all":
            return self.env.all_of(members)
        return self.env.any_of(members)

    def event_process(self, spec):
        name = spec["name"]
        for op in spec.get("ops", ()):
            try:
                yield from self.event_step(name, op)
            except SimInterrupt as err:
                self.log(name, "interrupted", err.cause)
        self.log(name, "end")
        return spec.get("ret")

    def event_step(self, name, op):
        env = self.env
        kind = op["op"]
        if kind == "timeout":
            value = yield self.label(env.timeout(op["d"], op.get("value")), "t:%r" % op["d"])
            self.log(name, "timeout-", op["d"], value)
        elif kind == "native":
            if "value" in op or "raises" in op:
                # a native coroutine (not a notification) yielded by the process
                try:
                    value = yield self._native_activity(op)
                except (SimProgError, usim.Concurrent) as err:
                    self.log(name, "native!", op["d"], getattr(self._leaf(err), "serial", repr(err)))
                else:
                    self.log(name, "native-", op["d"], value)
            else:
                value = yield (usim.time + op["d"])
                self.log(name, "native-", op["d"], value)
        elif kind == "wait":
            try:
                value = yield self.events[op["ev"]]
            except SimProgError as err:
                self.log(name, "wait!", op["ev"], err.serial)
            else:
                self.log(name, "wait-", op["ev"], value)
        elif kind in ("succeed", "fail"):
            event = self.events[op["ev"]]
            try:
                if kind == "succeed":
                    event.succeed(op.get("value"))
                else:
                    event.fail(SimProgError(op["serial"]))
            except RuntimeError as err:
                if "already been triggered" not in str(err):
                    raise
                self.log(name, "retrigger-error", op["ev"])
        elif kind == "cond":
            try:
                result = yield self.condition(op)
            except SimProgError as err:
                self.log(name, "cond!", op["id"], err.serial)
            else:
                pairs = [(self.labels.get(id(ev), self._proc_label(ev)), value)
                         for ev, value in result.items()]
                self.log(name, "cond-", op["id"], tuple(pairs))
        elif kind == "spawn":
            spec = op["proc"]
            proc = env.process(self.process(spec))
            self.procs[spec["name"]] = proc
            self.proc_name[id(proc)] = spec["name"]
            self.label_process(proc, spec["name"])
        elif kind == "join":
            try:
                value = yield self.procs[op["proc"]]
            except SimProgError as err:
                self.log(name, "join!", op["proc"], err.serial)
            else:
                self.log(name, "join-", op["proc"], value)
        elif kind == "interrupt":
            target = self.procs.get(op["proc"])
            if target is not None:
                target.interrupt(op.get("cause"))
        elif kind == "raise":
            self.log(name, "raise", op["serial"])
            raise SimProgError(op["serial"])
        else:
            raise ValueError(kind)

    # ---- native usim activities next to the processes (embedded mode) ----------------------
    async def native(self, spec):
        name = spec["name"]
        self.log(name, "start")
        for op in spec.get("ops", ()):
            await self.native_step(name, op)
        self.log(name, "end")
        return spec.get("ret")

    async def native_step(self, name, op):
        kind = op["op"]
        if kind in ("native", "timeout"):
            if "value" in op or "raises" in op:
                try:
                    value = await self._native_activity(op)
                except (SimProgError, usim.Concurrent) as err:
                    self.log(name, "native!", op["d"], getattr(self._leaf(err), "serial", repr(err)))
                else:
                    self.log(name, "native-", op["d"], value)
            else:
                await (usim.time + op["d"])
                self.log(name, kind + "-", op["d"], None)
        elif kind == "wait":
            try:
                value = await self.events[op["ev"]]
            except SimProgError as err:
                self.log(name, "wait!", op["ev"], err.serial)
            else:
                self.log(name, "wait-", op["ev"], value)
        elif kind == "join":
            try:
                value = await self.procs[op["proc"]]
            except SimProgError as err:
                self.log(name, "join!", op["proc"], err.serial)
            else:
                self.log(name, "join-", op["proc"], value)
        elif kind == "cond":
            try:
                result = await self.condition(op)
            except SimProgError as err:
                self.log(name, "cond!", op["id"], err.serial)
            else:
                pairs = [(self.labels.get(id(ev), self._proc_label(ev)), value)
                         for ev, value in result.items()]
                self.log(name, "cond-", op["id"], tuple(pairs))
        elif kind in ("succeed", "fail", "spawn", "interrupt"):
            for _ in self.event_step(name, op):      # these never yield
                raise RuntimeError("instantaneous op yielded")
        else:
            raise ValueError(kind)

    async def embedded_main(self, setup):
        from usim import Scope
        scenario = self.scenario
        self.env = Environment(initial_time=scenario.get("initial_time", 0))
        self.make_resources()
        self.make_events()
        if setup is not None:
            setup(self)
        async with Scope() as outer:
            if scenario.get("enter_late") is not None:
                await (usim.time + scenario["enter_late"])      # the native clock moves on first
            async with self.env as entered:
                if entered is not self.env:
                    self.monitor_violations.append((
                        "environment-context", "`async with env as e` bound %r, not the "
                        "environment" % (entered,)))
                for spec in scenario.get("processes", ()):
                    if spec.get("native"):
                        task = outer.do(self.native(spec))
                        self.procs[spec["name"]] = task
                    else:
                        proc = self.env.process(self.process(spec))
                        self.procs[spec["name"]] = proc
                        self.proc_name[id(proc)] = spec["name"]
                        self.label_process(proc, spec["name"])

    async def _native_activity(self, op):
        if op.get("scoped"):
            # the activity does its work in a child of its own scope: a failure leaves it as
            # Concurrent (a BaseException), a value comes from the child task
            async with usim.Scope() as scope:
                task = scope.do(self._native_activity(dict(op, scoped=False)))
            return await task
        await (usim.time + op["d"])
        if "raises" in op:
            raise SimProgError(op["raises"])
        return op.get("value")

    @staticmethod
    def _leaf(err):
        """The program's exception inside a (nested) Concurrent, or the exception itself."""
        while isinstance(err, usim.Concurrent) and len(err.children) == 1:
            err = err.children[0]
        return err

    def _proc_label(self, event):
        name = self.proc_name.get(id(event))
        return "proc:%s" % name if name is not None else "?"

    def cause(self, cause):
        if isinstance(cause, Preempted):
            return ("preempted", self.proc_name.get(id(cause.by)), cause.usage_since,
                    self.res_name.get(id(cause.resource)))
        return cause

    def _await(self, name, event, rid, patience):
        """Wait for a request, optionally giving up after `patience`; returns granted?"""
        env = self.env
        if patience is None:
            value = yield event
            return True, value
        result = yield event | env.timeout(patience)
        if event in result:
            return True, result[event]
        if event.triggered:
            return True, event.value
        res = self.res_name.get(id(event.resource))
        event.cancel()
        self.log(name, "cancel", res, rid, bool(event.triggered))
        if self.on_event:
            self.on_event("cancel", res, rid, None, name, None)
        return False, None

    def step(self, name, op):
        env = self.env
        kind = op["op"]
        if kind == "timeout":
            yield env.timeout(op["d"])
            self.log(name, "timeout-", op["d"])
        elif kind in ("put", "get"):
            res = self.res[op["res"]]
            rtype = self.scenario["resources"][op["res"]]["type"]
            if kind == "put":
                if rtype == "container":
                    event, data = res.put(op["amount"]), op["amount"]
                elif rtype == "pstore" and op.get("wrap"):
                    event, data = res.put(PriorityItem(op["item"], op["item"])), op["item"]
                else:
                    event, data = res.put(op["item"]), op["item"]
            else:
                if rtype == "container":
                    event, data = res.get(op["amount"]), op["amount"]
                elif rtype == "fstore":
                    flt = make_filter(op.get("filter"))
                    event = res.get(flt) if flt is not None else res.get()
                    data = op.get("filter")
                else:
                    event, data = res.get(), None
            self.track(event, op["id"], op["res"], kind, name, data)
            if op.get("wait", True):
                try:
                    granted, value = yield from self._await(name, event, op["id"],
                                                            op.get("patience"))
                except SimInterrupt as err:
                    self.log(name, "interrupted", self.cause(err.cause))
                    if not event.triggered:
                        event.cancel()
                        self.log(name, "cancel", op["res"], op["id"], False)
                        if self.on_event:
                            self.on_event("cancel", op["res"], op["id"], None, name, None)
                    return
                if granted:
                    if isinstance(value, PriorityItem):
                        value = value.item
                    self.log(name, kind + ".done", op["res"], op["id"], value)
        elif kind == "request":
            res = self.res[op["res"]]
            rtype = self.scenario["resources"][op["res"]]["type"]
            if rtype == "resource":
                request = res.request()
            elif rtype == "presource":
                request = res.request(priority=op.get("priority", 0))
            else:
                # the documented SimPy call: request(priority, preempt)
                request = res.request(priority=op.get("priority", 0),
                                      preempt=op.get("preempt", True))
            data = (op.get("priority", 0), op.get("preempt", True))
            self.track(request, op["id"], op["res"], "request", name, data)
            if op.get("nested"):
                yield from self._request_nested(name, op, res, request)
                return
            if op.get("ctx"):
                yield from self._request_ctx(name, op, res, request)
                return
            granted = False
            try:
                granted, _ = yield from self._await(name, request, op["id"], op.get("patience"))
                if granted:
                    self.log(name, "request.done", op["res"], op["id"])
                    if op.get("hold"):
                        yield env.timeout(op["hold"])
                        self.log(name, "hold-", op["res"], op["id"])
            except SimInterrupt as err:
                self.log(name, "interrupted", self.cause(err.cause), op["id"])
                if not request.triggered:
                    request.cancel()
                    self.log(name, "cancel", op["res"], op["id"], False)
                    if self.on_event:
                        self.on_event("cancel", op["res"], op["id"], None, name, None)
                    return
                if not op.get("release_after_preempt", True):
                    return
            if request.triggered and op.get("release", True):
                release = res.release(request)
                self.track(release, op["id"] + ".rel", op["res"], "release", name, op["id"])
                yield release
                self.log(name, "release.done", op["res"], op["id"])
                if op.get("release_twice") is not None:
                    # releasing is idempotent: a second release of the same request, given a
                    # while later, takes nobody else's slot
                    yield env.timeout(op["release_twice"])
                    again = res.release(request)
                    self.track(again, op["id"] + ".rel2", op["res"], "release", name, op["id"])
                    yield again
                    self.log(name, "release.done", op["res"], op["id"])
        else:
            raise ValueError(kind)

    def _request_ctx(self, name, op, res, request):
        """`with resource.request() as req:` - release / cancel happens in Request.__exit__."""
        with request:
            try:
                granted, _ = yield from self._await(name, request, op["id"], op.get("patience"))
                if granted:
                    self.log(name, "request.done", op["res"], op["id"])
                    if op.get("hold"):
                        yield self.env.timeout(op["hold"])
                        self.log(name, "hold-", op["res"], op["id"])
            except SimInterrupt as err:
                self.log(name, "interrupted", self.cause(err.cause), op["id"])
            pending = not request.triggered
        # __exit__ ran: a granted request was released, a pending one cancelled
        if pending and self.on_event:
            self.log(name, "cancel", op["res"], op["id"], bool(request.triggered))
            self.on_event("cancel", op["res"], op["id"], None, name, None)
        event = self.release_of.pop(id(request), None)
        if event is None and request.triggered:
            self.monitor_violations.append((
                "with-block-kept-slot", "%s left `with request` (%s) at t=%r with the request "
                "granted, but it was neither released nor cancelled" % (name, op["id"],
                                                                         self.env.now)))
        if event is not None:
            self.track(event, op["id"] + ".rel", op["res"], "release", name, op["id"])
            yield event
            self.log(name, "release.done", op["res"], op["id"])

    def _request_nested(self, name, op, res, request):
        """Two slots held by one process in nested `with` blocks; an Interrupt (being preempted off
        one of them) leaves both blocks before it is handled: each block gives its slot back."""
        inner = op["nested"]
        inner_request = None
        try:
            with request:
                yield request
                self.log(name, "request.done", op["res"], op["id"])
                inner_request = res.request(priority=inner.get("priority", 0),
                                            preempt=inner.get("preempt", True))
                self.track(inner_request, inner["id"], op["res"], "request", name,
                           (inner.get("priority", 0), inner.get("preempt", True)))
                with inner_request:
                    yield inner_request
                    self.log(name, "request.done", op["res"], inner["id"])
                    yield self.env.timeout(inner.get("hold", 1))
                    self.log(name, "hold-", op["res"], inner["id"])
        except SimInterrupt as err:
            self.log(name, "interrupted", self.cause(err.cause), op["id"])
        # both __exit__s have run by now (the inner one first): report what they did in that
        # order; the states are compared after the last report only
        reports = []
        for req, rid in ((inner_request, inner["id"]), (request, op["id"])):
            if req is None:
                continue
            if not req.triggered:
                reports.append(("cancel", req, rid, None))
                continue
            event = self.release_of.pop(id(req), None)
            if event is None:
                self.monitor_violations.append((
                    "with-block-kept-slot", "%s left `with request` (%s) at t=%r with the request "
                    "granted, but it was neither released nor cancelled" % (name, rid,
                                                                             self.env.now)))
            else:
                reports.append(("release", req, rid, event))
        for index, (what, req, rid, event) in enumerate(reports):
            self.batching = index < len(reports) - 1
            if what == "cancel":
                self.log(name, "cancel", op["res"], rid, False)
                if self.on_event:
                    self.on_event("cancel", op["res"], rid, None, name, None)
            else:
                self.track(event, rid + ".rel", op["res"], "release", name, rid)
        self.batching = False
        for what, req, rid, event in reports:
            if what == "release":
                yield event
                self.log(name, "release.done", op["res"], rid)

    @staticmethod
    def _preq(res, op):
        from usim.py.resources.resource import PriorityRequest
        return PriorityRequest(res, op.get("priority", 0), op.get("preempt", True))

    def start_processes(self):
        for spec in self.scenario.get("processes", ()):
            proc = self.env.process(self.process(spec))
            self.procs[spec["name"]] = proc
            self.proc_name[id(proc)] = spec["name"]
            self.label_process(proc, spec["name"])


def execute(case, setup=None):
    """Run a usim.py scenario standalone through Environment.run()."""
    world = SimWorld(case)
    record = W.Record()
    record.case = case
    unraisable = []
    sys.unraisablehook = W._unraisable_collector(unraisable)
    gc.disable()
    scenario = case["scenario"]
    raised = None
    with world.seam as seam:
        try:
            if scenario.get("embedded"):
                # the enclosing simulation starts no later than the environment's clock
                usim.run(world.embedded_main(setup), start=min(0, scenario.get("initial_time", 0)))
                raise _Done
            world.env = Environment(initial_time=scenario.get("initial_time", 0))
            world.make_resources()
            world.make_events()
            if setup is not None:
                setup(world)
            world.start_processes()
            until = scenario.get("until")
            if isinstance(until, dict):
                until = world.events[until["ev"]] if "ev" in until \
                    else world.procs[until["proc"]]
            value = world.env.run(until=until)
            outcome = ("ok",) if value is None else ("value", value)
            seam.finish()
        except _Done:
            outcome = ("ok",)
        except HarnessAbort as err:
            outcome = ("abort", type(err).__name__, str(err))
        except BaseException as err:
            if isinstance(err, KeyboardInterrupt):
                raise
            if isinstance(err, usim.Concurrent) and scenario.get("embedded"):
                # embedded: the failure leaves `async with env` wrapped by the scopes around
                # it; several abandoned conditions may report the same failed member
                leaves = []

                def flatten(exc):
                    if isinstance(exc, usim.Concurrent):
                        for child in exc.children:
                            flatten(child)
                    else:
                        leaves.append(exc)
                flatten(err)
                serials = {getattr(leaf, "serial", id(leaf)) for leaf in leaves}
                if leaves and len(serials) == 1:
                    err = leaves[0]
            if isinstance(err, SimProgError):
                outcome = ("raise", ("SimProgError", err.serial))
            else:
                outcome = ("raise", (type(err).__name__, str(err)[:80]))
            raised = err
    record.outcome = outcome
    record.raised = raised
    # where the environment's clock stands once run() is over (standalone runs only)
    record.env_now_after = None
    if not scenario.get("embedded") and world.env is not None and outcome[0] != "abort":
        try:
            record.env_now_after = world.env.now
        except Exception as err:                      # noqa
            record.env_now_after = ("error", type(err).__name__)
    record.trace = world.trace
    record.acts = seam.acts
    record.sched = seam.sched
    record.kernel_violations = seam.kernel_violations
    record.fired = seam.fired
    record.ticks = seam.tick
    record.n_act = seam.n_act
    record.time_steps = seam.time_steps
    record.start_time = scenario.get("initial_time", 0)
    record.end_time = seam.max_time if seam.max_time > -math.inf else record.start_time
    record.world = world
    record.unraisable = unraisable
    record.monitor_violations = world.monitor_violations
    record.notes = world.notes
    record.fault_log = []
    record.final_status = {}
    return record


def cleanup(record):
    world = record.world
    record.world = None
    record.raised = None
    if world is not None:
        world.seam.pins.clear()
        world.seam.models.clear()
        world.seam.revoked.clear()
        world.requests.clear()
        world.events.clear()
        world.pinned.clear()
        world.procs.clear()
        world.res.clear()
        world.env = None
    sys.unraisablehook = W._silent_hook
    del world
    W._CLEANUPS[0] += 1
    if W._CLEANUPS[0] % 16 == 0:
        gc.collect()
