"""mini-simpy: an independent event-list reference interpreter for C18 scenarios.

It executes the same scenario JSON as usimdst.simworld, but on a ~200 line event list written
from SimPy's documented semantics, and yields, per process, the (event, time, value) sequence
the scenario must produce. Programs are race-free by construction (all independent trigger
times are distinct), so only per-process sequences are compared, never cross-process order.
"""
import heapq
import itertools

PENDING = object()


def _always():
    return True


class Ev:
    """An event: pending, or triggered at a time with (ok, value)."""
    def __init__(self, label):
        self.label = label
        self.time = None
        self.ok = None
        self.value = None
        self.waiters = []         # callables(ev)
        self.members = None       # for conditions
        self.defused = False

    @property
    def triggered(self):
        return self.time is not None


class Proc(Ev):
    def __init__(self, spec):
        super().__init__("proc:" + spec["name"])
        self.spec = spec
        self.name = spec["name"]
        self.pc = 0
        self.interrupts = []
        self.waiting = None       # token of the wait in progress
        self.alive = True


class Failure(Exception):
    def __init__(self, serial):
        self.serial = serial


class Model:
    def __init__(self, scenario):
        self.scenario = scenario
        self.now = scenario.get("initial_time", 0)
        if scenario.get("enter_late") is not None:
            # embedded environment entered when the native clock (started at min(0, initial
            # time)) has passed its initial time: the environment lives on the native clock
            self.now = max(self.now, min(0, self.now) + scenario["enter_late"])
        self.queue = []
        self.counter = itertools.count()
        self.events = {name: Ev("ev:" + name) for name in scenario.get("events", ())}
        for name in scenario.get("defusers", ()):
            self.events[name].defused = True      # one of its callbacks handles a failure
        self.chains = {}
        for head, tail in scenario.get("chains", ()):
            self.chains.setdefault("ev:" + head, []).append(self.events[tail])
        self.procs = {}
        self.log = {}             # actor -> [(event, time, data...)]
        self.serial = 0
        self.callbacks = {}       # label -> [times]
        self.failure = None       # (time, serial) of an undefused failure ending the run
        self.stopped = None
        self.retriggers = 0

    # engine
    def at(self, when, func):
        heapq.heappush(self.queue, (when, next(self.counter), func))

    def emit(self, actor, *entry):
        self.log.setdefault(actor, []).append(entry)

    def trigger(self, ev, ok, value):
        if ev.triggered:
            return False
        ev.time, ev.ok, ev.value = self.now, ok, value
        self.callbacks.setdefault(ev.label, []).append(self.now)
        waiters, ev.waiters = [w for w in ev.waiters if getattr(w, "alive", _always)()], []
        if not ok and not waiters and not ev.defused:
            if self.failure is None:
                self.failure = (self.now, value)
        for waiter in waiters:
            waiter(ev)
        for tail in self.chains.get(ev.label, ()):
            # `head.callbacks.append(tail.trigger)`: runs when the head is processed
            self.at(self.now, lambda tail=tail: self.trigger(tail, ok, value))
        return True

    def subscribe(self, ev, func):
        if ev.triggered:
            func(ev)
        else:
            ev.waiters.append(func)

    def timeout(self, delay, value=None, label=None):
        ev = Ev(label or "t:%r" % delay)
        self.at(self.now + delay, lambda: self.trigger(ev, True, value))
        return ev

    # conditions
    def member(self, spec):
        if "t" in spec:
            return self.timeout(spec["t"], spec.get("v"), "t:%r" % spec["t"])
        if "ev" in spec:
            return self.events[spec["ev"]]
        if "proc" in spec:
            return self.procs[spec["proc"]]
        return self.condition(spec["cond"])

    def condition(self, spec):
        cond = Ev("cond")
        cond.members = [self.member(m) for m in spec["of"]]
        kind = spec["kind"]

        def leaves(ev, out):
            for m in ev.members:
                if m.members is not None:
                    leaves(m, out)
                elif m.triggered and m.ok:
                    out.append(m)
            return out

        def check(_=None):
            if cond.triggered:
                return
            for m in cond.members:
                if m.triggered and not m.ok:
                    m.defused = True
                    self.trigger(cond, False, m.value)
                    return
            done = [m for m in cond.members if m.triggered]
            if (kind == "all" and len(done) == len(cond.members)) or \
                    (kind == "any" and (done or not cond.members)):
                self.trigger(cond, True, [(m.label, m.value) for m in leaves(cond, [])])

        check.alive = lambda: not cond.triggered
        for m in cond.members:
            if not m.triggered:
                m.waiters.append(check)
        self.at(self.now, check)     # evaluated when the condition is processed, not created
        return cond

    # processes
    def spawn(self, spec):
        proc = Proc(spec)
        self.procs[spec["name"]] = proc
        self.at(self.now, lambda: self.start(proc))
        return proc

    def start(self, proc):
        self.emit(proc.name, "start", self.now)
        self.advance(proc)

    def advance(self, proc):
        """Run instantaneous ops until the process waits or ends."""
        ops = proc.spec.get("ops", ())
        while proc.alive:
            if proc.pc >= len(ops):
                proc.alive = False
                self.emit(proc.name, "end", self.now)
                self.trigger(proc, True, proc.spec.get("ret"))
                return
            op = ops[proc.pc]
            proc.pc += 1
            kind = op["op"]
            if kind == "succeed":
                if not self.trigger(self.events[op["ev"]], True, op.get("value")):
                    self.retriggers += 1
                    self.emit(proc.name, "retrigger-error", self.now, op["ev"])
            elif kind == "fail":
                if not self.trigger(self.events[op["ev"]], False, op["serial"]):
                    self.retriggers += 1
                    self.emit(proc.name, "retrigger-error", self.now, op["ev"])
            elif kind == "spawn":
                self.spawn(op["proc"])
            elif kind == "interrupt":
                target = self.procs.get(op["proc"])
                if target is not None and target.alive:
                    target.interrupts.append(op.get("cause"))
                    self.at(self.now, lambda t=target: self.deliver(t))
            elif kind == "raise":
                proc.alive = False
                self.emit(proc.name, "raise", self.now, op["serial"])
                self.trigger(proc, False, op["serial"])
                return
            else:
                self.wait(proc, op)
                return

    def wait(self, proc, op):
        kind = op["op"]
        token = object()
        proc.waiting = token
        if kind == "timeout":
            ev = self.timeout(op["d"], op.get("value"))
            done = ("timeout-", op["d"])
        elif kind == "native":
            ev = Ev("native:%r" % op["d"])
            ok, value = ("raises" not in op), op.get("raises", op.get("value"))
            ev.defused = True            # a yielded coroutine's failure goes to the process only
            self.at(self.now + op["d"], lambda: self.trigger(ev, ok, value))
            done = ("native-", op["d"])
        elif kind == "wait":
            ev = self.events[op["ev"]]
            done = ("wait-", op["ev"])
        elif kind == "join":
            ev = self.procs[op["proc"]]
            done = ("join-", op["proc"])
        elif kind == "cond":
            ev = self.condition(op)
            done = ("cond-", op["id"])
        else:
            raise ValueError(kind)

        def resume(ev, proc=proc, token=token, done=done):
            if proc.waiting is not token or not proc.alive:
                return
            ev.defused = True

            def go():
                if proc.waiting is not token or not proc.alive:
                    return
                proc.waiting = None
                if ev.ok:
                    value = ev.value
                    if done[0] == "cond-":
                        value = tuple(value)      # members in the order they were given
                    self.emit(proc.name, done[0], self.now, done[1], value)
                else:
                    self.emit(proc.name, done[0][:-1] + "!", self.now, done[1], ev.value)
                self.advance(proc)
            self.at(self.now, go)
        resume.alive = lambda: proc.waiting is token and proc.alive
        self.subscribe(ev, resume)

    def deliver(self, proc):
        if not proc.alive or not proc.interrupts:
            return
        if proc.waiting is None:
            # between two waits within this instant: try again once it waits
            self.at(self.now, lambda: self.deliver(proc))
            return
        cause = proc.interrupts.pop(0)
        proc.waiting = None
        self.emit(proc.name, "interrupted", self.now, cause)
        self.advance(proc)
        if proc.interrupts:
            self.at(self.now, lambda: self.deliver(proc))

    def run(self):
        scenario = self.scenario
        for spec in scenario.get("processes", ()):
            self.spawn(spec)
        until = scenario.get("until")
        limit = until if isinstance(until, (int, float)) else None
        target = None
        if isinstance(until, dict):
            target = self.events[until["ev"]] if "ev" in until else None
        steps = 0
        while self.queue:
            when, _, func = heapq.heappop(self.queue)
            if limit is not None and when > limit:
                break
            self.now = when
            func()
            steps += 1
            if steps > 20000:
                raise RuntimeError("mini-simpy: runaway scenario")
            if self.failure is not None:
                return ("raise", self.failure[1], self.failure[0])
            if isinstance(until, dict) and "proc" in until and target is None:
                target = self.procs.get(until["proc"])
            if target is not None and target.triggered:
                self.stopped = target.time
                if target.ok:
                    return ("value", target.value, target.time)
                return ("raise", target.value, target.time)
        if isinstance(until, dict):
            return ("never-triggered", None, self.now)
        return ("ok", None, limit if limit is not None else self.now)
