"""C15 run() ends at quiescence, reports failures and keeps simulations isolated."""
import sys
import copy
import random
import threading

from .. import bind_repo
from ..world import World, execute, cleanup, HarnessAbort, SHARED_CONDITIONS
from ..seam import Seam
from ..runner import Outcome, digest
from ..threads import Baton, line_tracer
from . import C01, C10

usim = bind_repo()

ID = "C15"
LEVEL = "exploration"
RULE = ("two seeded modes. history: sequences of 2-5 runs on one thread - completing timer "
        "programs with several root activities (start times incl. negative), runs whose root "
        "raises a tagged exception, runs whose root returns a value, runs with till, and runs "
        "nested inside an activity of another run - with time.now probed before, between and "
        "after. threads: 2-4 real threads each running a seeded program (timers or "
        "producer/consumer queues) plus one thread without simulation, under a baton scheduler "
        "that lets exactly one thread run and picks the next one with the seeded PRNG at every "
        "activation boundary and at every line of StateHandler.assign, Loop.run and usim.run. "
        "Non-trivial = a history with a failing / leaking / nested run, or a threaded trial with "
        ">= 20 baton switches; distinct = distinct (mode, per-run digests / switch sequence).")
BUDGET = {"quick": {"cases": 8000, "wall_s": 240, "chunk": 20},
          "thorough": {"cases": 120000, "wall_s": 1500, "chunk": 50}}
ASSUMPTIONS = ["pre-emption inside C code is not modelled (the GIL makes it atomic anyway)",
               "the thread scheduler is replaced by the baton: real threads, seeded choice of "
               "who runs at each switch point"]
STUBS = "OS thread scheduling is replaced by the baton scheduler (usimdst/threads.py); usim itself runs unmodified"
LEVEL_TEXT = ("Exploration: run histories are checked against the expected return / raise of "
              "every run (the root's own exception object, ActivityLeak for a returned value), "
              "root start order and time, quiescence at return (no live activation left in the "
              "kernel model), time.now raising outside of runs, an unchanged outer clock and "
              "outer trace around nested runs; threaded trials require every thread's trace "
              "digest to equal its solo digest and the simulation-free thread never to see a "
              "simulation.")
LEVEL_NOTE = ("Trusts the baton scheduler to serialise the threads (one runnable at a time) and "
              "sys.settrace line events as pre-emption points inside the three traced functions.")
TECHNIQUE = "deterministic simulation, seeded run histories; real threads under a seeded baton scheduler with line-level switch points"


# ---- generation ---------------------------------------------------------------------------
def _timer_program(rng):
    case = C01.generate(rng, "quick")
    case["scenario"]["roots"] = "direct"
    return case["scenario"]


def _simple_actor(rng, name, fail=False, ret=None, length=None):
    ops = []
    for _ in range(length if length is not None else rng.randint(0, 3)):
        ops.append({"op": "sleep", "d": rng.choice([0.25, 0.5, 1, 2])})
        ops.append({"op": "now"})
    if rng.random() < 0.15:
        ops.insert(rng.randint(0, len(ops)), {"op": "thread_probe", "ctx": rng.random() < 0.6})
    if fail:
        ops.append({"op": "raise", "type": rng.choice(["E", "A", "K", "Z"])})
    spec = {"name": name, "ops": ops}
    if ret is not None:
        spec["ret"] = ret
    return spec


def generate(rng, tier):
    if rng.random() < 0.45:
        return _generate_threads(rng)
    runs = []
    for _ in range(rng.randint(2, 5)):
        kind = rng.choice(["ok", "ok", "fail", "leak", "till", "nested"])
        start = rng.choice([0, 0, -2, 3.5])
        if kind == "ok":
            scenario = _timer_program(rng)
        elif kind == "fail" and rng.random() < 0.15:
            # the only failure of the run: a root that is still suspended when `till` is reached
            # and whose clean-up raises as the run closes it - that is the exception of the run
            actors = [_simple_actor(rng, "r%d" % i) for i in range(rng.randint(0, 2))]
            actors.insert(rng.randint(0, len(actors)), {"name": "rz", "ops": [{
                "op": "finally", "body": [{"op": "sleep", "d": 64}],
                "sync": [{"op": "raise", "type": rng.choice(["E", "K"])}]}]})
            scenario = {"start": start, "roots": "direct", "resources": {}, "actors": actors,
                        "till": start + rng.choice([8.25, 16.5])}
        elif kind == "fail":
            actors = [_simple_actor(rng, "r%d" % i, fail=rng.random() < 0.5)
                      for i in range(rng.randint(1, 4))]
            if not any(a["ops"] and a["ops"][-1]["op"] == "raise" for a in actors):
                actors[rng.randrange(len(actors))]["ops"].append({"op": "raise", "type": "E"})
            if rng.random() < 0.4:
                for actor in actors:
                    if actor["ops"] and actor["ops"][-1]["op"] == "raise":
                        actor["ops"][-1]["chained"] = True
            if rng.random() < 0.2:
                # the only failure of the run is a privileged one (an assertion of the model, a
                # sys.exit() or Ctrl-C inside an activity): run() raises exactly that object
                failing = [a for a in actors if a["ops"] and a["ops"][-1]["op"] == "raise"]
                for other in failing[1:]:
                    other["ops"].pop()
                failing[0]["ops"][-1]["type"] = rng.choice(
                    ["assert", "exit", "kbd", "assert_sub", "exit_sub", "kbd_sub", "assert_z"])
                # (with `till` the context of a privileged exception is replaced by the scope's
                # internal signal - cosmetic, DESIGN 7(f) - so no context is set up for these)
                failing[0]["ops"][-1].pop("chained", None)
            elif rng.random() < 0.3:
                # the failure escapes its root as a Concurrent: it is that of a child in a scope
                # of the root (run() has to re-raise the Concurrent, not its content)
                failing = [a for a in actors if a["ops"] and a["ops"][-1]["op"] == "raise"]
                actor = failing[0]
                for other in failing[1:]:        # the only failure of this run
                    other["ops"].pop()
                actor["ops"][-1].pop("chained", None)
                actor["ops"] = [{"op": "scope", "label": "SC", "body": [{"op": "sleep", "d": 64}],
                                 "children": [{"name": actor["name"] + "c", "ops": actor["ops"]}]}]
            if rng.random() < 0.3:
                # a sibling root that is still asleep inside a try/finally with a suspending
                # clean-up when the run fails: run() reports the failure itself, whatever
                # becomes of the abandoned activity
                bystander = {"name": "r%d" % len(actors), "ops": [{
                    "op": "finally", "handler": [{"op": "postpone", "k": 1}], "always": True,
                    "body": [{"op": "sleep", "d": rng.choice([0.25, 1, 64])},
                             {"op": "sleep", "d": 64}]}]}
                actors.insert(rng.randint(0, len(actors)), bystander)
            scenario = {"start": start, "roots": "direct", "resources": {}, "actors": actors}
            if rng.random() < 0.3:
                scenario["till"] = start + 50
        elif kind == "leak":
            actors = [_simple_actor(rng, "r%d" % i) for i in range(rng.randint(1, 3))]
            actors[rng.randrange(len(actors))]["ret"] = rng.choice([17, 17, 0, False, "", [], 0.0])
            scenario = {"start": start, "roots": "direct", "resources": {}, "actors": actors}
        elif kind == "till":
            actors = [_simple_actor(rng, "r%d" % i, length=rng.randint(1, 4))
                      for i in range(rng.randint(1, 3))]
            scenario = {"start": start, "till": start + rng.choice([0, 0.25, 0.75, 1, 2.5, 50, -1.5]),
                        "roots": "direct", "resources": {}, "actors": actors}
        else:
            actors = [_simple_actor(rng, "r%d" % i, length=rng.randint(1, 3))
                      for i in range(rng.randint(1, 3))]
            host = actors[rng.randrange(len(actors))]
            nested = {"op": "nested_run", "start": rng.choice([0, 5, -1]),
                      "roots": [{"delays": [rng.choice([0.5, 1, 3])
                                            for _ in range(rng.randint(0, 2))],
                                 "fail": rng.random() < 0.25}
                                for _ in range(rng.randint(1, 2))]}
            if rng.random() < 0.3:
                nested["till"] = nested["start"] + rng.choice([0.5, 1, 2])
            host["ops"].insert(rng.randint(0, len(host["ops"])), nested)
            scenario = {"start": start, "roots": "direct", "resources": {}, "actors": actors}
        runs.append({"kind": kind, "scenario": scenario})
    if rng.random() < 0.15:
        # two replications around module-level flags: the first leaves an until-block over a
        # connective of them that never held, the second sets one of the flags
        kind = rng.choice(["and", "or"])
        first = {"start": 0, "roots": "direct", "share_conditions": "history",
                 "resources": {"F1": {"kind": "flag"}, "F2": {"kind": "flag"}},
                 "actors": [{"name": "r0", "ops": [
                     {"op": "scope", "label": "U", "children": [],
                      "until": {"k": kind, "xs": [{"k": "flag", "n": "F1"}, {"k": "flag", "n": "F2"}]},
                      "body": [{"op": "sleep", "d": rng.choice([0.5, 1, 2])}]},
                     {"op": "now"}]}]}
        setter = "F1" if kind == "and" or rng.random() < 0.5 else "F2"
        second = {"start": 0, "roots": "direct", "share_conditions": "history",
                  "resources": {"F1": {"kind": "flag"}, "F2": {"kind": "flag"}},
                  "actors": [{"name": "r0", "ops": [
                      {"op": "sleep", "d": 1}, {"op": "flag_set", "on": setter, "to": True},
                      {"op": "sleep", "d": 1}, {"op": "now"},
                      {"op": "flag_set", "on": setter, "to": False}]}]}
        where = rng.randint(0, len(runs))
        runs.insert(where, {"kind": "flags", "scenario": first})
        runs.insert(rng.randint(where + 1, len(runs)), {"kind": "flags", "scenario": second})
    oks = [run for run in runs if run["kind"] == "ok"]
    if oks and rng.random() < 0.4:
        # replications: the same program again, with its time conditions being the very same
        # objects (a module-level `DEADLINE = time >= 10` used by every replication)
        again = rng.choice(oks)
        again["scenario"]["share_conditions"] = "history"
        runs.insert(rng.randint(runs.index(again) + 1, len(runs)),
                    {"kind": "ok", "scenario": copy.deepcopy(again["scenario"])})
    return {"property": ID, "mode": "history", "runs": runs, "scenario": {"actors": []},
            "plan": [], "config": {}}


def _generate_threads(rng):
    programs = []
    for _ in range(rng.randint(2, 4)):
        r = rng.random()
        if r < 0.4:
            scenario = C01.generate(rng, "quick")["scenario"]
            # the pool of shared condition objects is process-wide: sharing it between the
            # threads' simulations would be the harness's interference, not usim's
            scenario.pop("share_conditions", None)
        elif r < 0.6:
            scenario = C10.generate(rng, "quick")["scenario"]
        elif r < 0.75:
            # a run that fails, a run that is cut off by `till`, or the same program run twice
            # by its thread - next to the other threads' simulations
            actors = [_simple_actor(rng, "r%d" % i, length=rng.randint(1, 3))
                      for i in range(rng.randint(1, 3))]
            scenario = {"start": rng.choice([0, 2, -1]), "resources": {}, "actors": actors}
            r2 = rng.random()
            if r2 < 0.4:
                actors[rng.randrange(len(actors))]["ops"].append(
                    {"op": "raise", "type": rng.choice(["E", "K", "assert"])})
            elif r2 < 0.7:
                scenario["till"] = scenario["start"] + rng.choice([0.25, 0.75, 1, 2.5])
            if rng.random() < 0.5:
                scenario["twice"] = True
        else:
            # an activity that runs complete nested simulations in between its own steps
            actors = [_simple_actor(rng, "r%d" % i, length=rng.randint(1, 3))
                      for i in range(rng.randint(1, 2))]
            for _ in range(rng.randint(1, 2)):
                host = actors[rng.randrange(len(actors))]
                nested = {"op": "nested_run", "start": rng.choice([0, 5, -1]),
                          "roots": [{"delays": [rng.choice([0.5, 1, 3])
                                                for _ in range(rng.randint(0, 2))], "fail": False}
                                    for _ in range(rng.randint(1, 2))]}
                host["ops"].insert(rng.randint(0, len(host["ops"])), nested)
            scenario = {"start": rng.choice([0, 2]), "resources": {}, "actors": actors}
        programs.append(scenario)
    return {"property": ID, "mode": "threads", "programs": programs,
            "baton_seed": rng.randrange(10 ** 9), "scenario": {"actors": []},
            "plan": [], "config": {}}


# ---- history mode ---------------------------------------------------------------------------
def _outside():
    """time.now must raise outside of a simulation."""
    try:
        value = usim.time.now
    except RuntimeError:
        return None
    return value


def run_history(case):
    violations = []
    stats = {}
    digests = []

    def bad(rule, msg):
        if len(violations) < 5:
            violations.append({"rule": "C15/" + rule, "msg": msg})

    seen = _outside()
    if seen is not None:
        bad("simulation-visible-outside", "time.now == %r before any run" % (seen,))
    SHARED_CONDITIONS.clear()
    sim_time = 0.0
    ticks = 0
    for index, run in enumerate(case["runs"]):
        sub = {"property": ID, "scenario": run["scenario"], "plan": [], "config": {}}
        rec = execute(sub)
        try:
            kind = run["kind"]
            stats["probe.run.%s" % kind] = stats.get("probe.run.%s" % kind, 0) + 1
            for rule, msg in rec.kernel_violations:
                bad("kernel:" + rule, "run %d: %s" % (index, msg))
            _check_run(bad, index, kind, run["scenario"], rec)
            for ev in rec.trace:
                if ev[4] == "thread_probe":
                    stats["probe.helper-thread-probes"] = \
                        stats.get("probe.helper-thread-probes", 0) + 1
                    if ev[6] != "none":
                        bad("simulation-visible-in-other-thread", "run %d: a helper thread started "
                            "by %s (copied context: %r) sees a simulation" % (index, ev[3], ev[5]))
            seen = _outside()
            if seen is not None:
                bad("simulation-visible-outside", "time.now == %r after run %d (%s, outcome %r)"
                    % (seen, index, kind, rec.outcome))
            digests.append(digest(rec.digest_items()))
            sim_time += max(0.0, rec.end_time - rec.start_time) \
                if rec.end_time != float("inf") else 0.0
            ticks += rec.ticks
        finally:
            cleanup(rec)
    return violations, stats, tuple(digests), sim_time, ticks


def _check_run(bad, index, kind, scenario, rec):
    start = scenario.get("start", 0)
    roots = [a["name"] for a in scenario["actors"]]
    # roots start at `start`, in argument order
    starts = [ev for ev in rec.trace if ev[4] == "start" and ev[3] in roots]
    first_bad = next((ev for ev in rec.trace if ev[4] in ("raise",) or
                      (ev[4] == "end" and _ret_of(scenario, ev[3]) is not None)), None)
    if kind != "till" or scenario["till"] > start:      # till <= start: nothing may run at all
        order = [ev[3] for ev in starts]
        if first_bad is None or len(order) == len(roots):
            if order != roots[:len(order)] or (first_bad is None and len(order) != len(roots)):
                bad("root-order", "run %d: roots %r started in order %r" % (index, roots, order))
        for ev in starts:
            if ev[2] != start:
                bad("root-start-time", "run %d: root %s started at %r, start=%r"
                    % (index, ev[3], ev[2], start))
    if kind == "ok":
        sub = {"property": "C01", "scenario": scenario}
        rec_case, rec.case = rec.case, sub
        try:
            for violation in C01.check(rec):
                bad("ok-run:" + violation["rule"], "run %d: %s" % (index, violation["msg"]))
        finally:
            rec.case = rec_case
    elif kind == "flags":
        if rec.outcome != ("ok",):
            bad("replication-outcome", "run %d (module-level flags shared with an earlier run) "
                "ended with %r" % (index, rec.outcome))
        for actor in roots:
            if not any(ev[3] == actor and ev[4] == "end" for ev in rec.trace):
                bad("replication-outcome", "run %d: root %s never finished" % (index, actor))
        strangers = [ev for ev in rec.trace if ev[3] not in roots and ev[3] != "root"]
        if strangers:
            bad("foreign-activity", "run %d: %r acted in this run" % (index, strangers[0][3:6]))
    elif kind in ("fail", "leak"):
        if first_bad is None:
            bad("harness", "run %d: no failing event generated" % index)
        elif first_bad[4] == "raise":
            want = ("raise", (first_bad[5], first_bad[6]))
            if first_bad[3] not in roots:        # a child in a scope of a root
                want = ("raise", ("Concurrent", want[1]))
            if rec.outcome != want:
                bad("root-exception", "run %d: root %s raised %r but run() ended with %r"
                    % (index, first_bad[3], want[1], rec.outcome))
            elif len(first_bad) > 7:
                # "unchanged": the exception it was raised from is still its context
                context = getattr(rec.raised, "__context__", None)
                if getattr(context, "serial", None) != first_bad[7]:
                    bad("root-exception-context", "run %d: root %s raised %r while handling "
                        "exception %r, but the exception leaving run() has context %r"
                        % (index, first_bad[3], want[1], first_bad[7], context))
        else:
            if rec.outcome[0] != "raise" or rec.outcome[1][0] != "ActivityLeak":
                bad("leak-not-reported", "run %d: root %s returned a value but run() ended "
                    "with %r" % (index, first_bad[3], rec.outcome))
        if first_bad is not None:
            pos = rec.trace.index(first_bad)
            # with till the roots are children of a scope: siblings may finish the time step
            # (whether run() tears abandoned activities down is not stated: their being closed -
            # GeneratorExit reaching a clean-up handler - is no "progress after the failure")
            later = [ev for ev in rec.trace[pos + 1:] if ev[4] not in ("exc",)
                     and ev[4] not in ("cleanup+", "cleanup-")
                     and (scenario.get("till") is None or ev[2] > first_bad[2])
                     # a child's failure takes some turns of that time step to leave its root
                     and not (first_bad[3] not in roots and ev[2] == first_bad[2])]
            if later:
                bad("ran-after-failure", "run %d: %r happened after the run had failed"
                    % (index, later[0][3:6]))
    elif kind == "till":
        if rec.outcome != ("ok",):
            bad("till-outcome", "run %d: run(till=%r) ended with %r"
                % (index, scenario["till"], rec.outcome))
        late = [ev for ev in rec.trace if ev[2] > scenario["till"]]
        if late:
            bad("ran-after-till", "run %d: %r at t=%r with till=%r"
                % (index, late[0][3:5], late[0][2], scenario["till"]))
        acts = [a for a in rec.acts if a[1] > scenario["till"] and not a[2].startswith("~")]
        if acts:
            bad("ran-after-till", "run %d: activation of %s at %r with till=%r"
                % (index, acts[0][2], acts[0][1], scenario["till"]))
    elif kind == "nested":
        if rec.outcome != ("ok",):
            bad("nested-outcome", "run %d ended with %r" % (index, rec.outcome))
        twin_scenario = copy.deepcopy(scenario)
        inner_spec = None
        for actor in twin_scenario["actors"]:
            for op in actor["ops"]:
                if op["op"] == "nested_run":
                    inner_spec = op
            actor["ops"] = [op for op in actor["ops"] if op["op"] != "nested_run"]
        twin = execute({"property": ID, "scenario": twin_scenario, "plan": [], "config": {}})
        try:
            mine = [(ev[2], ev[3], ev[4]) for ev in rec.trace
                    if ":" not in ev[3] and not ev[4].startswith("nested")]
            theirs = [(ev[2], ev[3], ev[4]) for ev in twin.trace]
            if mine != theirs:
                bad("outer-disturbed", "run %d: outer simulation differs from its twin without "
                    "the nested run: %r" % (index, C06_first_diff(mine, theirs)))
        finally:
            cleanup(twin)
        begin = next((ev for ev in rec.trace if ev[4] == "nested+"), None)
        end = next((ev for ev in rec.trace if ev[4] in ("nested-", "nested!")), None)
        if begin is not None:
            if end is None:
                bad("nested-never-returned", "run %d: nested run() did not return" % index)
            elif end[2] != begin[2]:
                bad("outer-clock-moved", "run %d: outer clock %r before, %r after the nested run"
                    % (index, begin[2], end[2]))
            inner = [ev for ev in rec.trace if ":" in ev[3]]
            if inner and inner[0][2] != inner_spec.get("start", 0):
                bad("inner-start", "run %d: nested simulation started at %r, start=%r"
                    % (index, inner[0][2], inner_spec.get("start", 0)))
            fails = any(r.get("fail") for r in inner_spec["roots"])
            if end is not None and end[4] == "nested!" and not fails:
                bad("nested-raised", "run %d: nested run raised %r" % (index, end[5]))
            if end is not None and inner_spec.get("till") is None and not fails:
                total = max([sum(r.get("delays", ())) for r in inner_spec["roots"]] + [0])
                last = max([ev[2] for ev in inner] + [inner_spec.get("start", 0)])
                if last != inner_spec.get("start", 0) + total:
                    bad("nested-quiescence", "run %d: nested run returned at inner time %r, "
                        "expected %r" % (index, last, inner_spec.get("start", 0) + total))


def C06_first_diff(a, b):
    for i, (x, y) in enumerate(zip(a, b)):
        if x != y:
            return (i, x, y)
    return (min(len(a), len(b)), "length", len(a), len(b))


def _ret_of(scenario, name):
    for actor in scenario["actors"]:
        if actor["name"] == name:
            return actor.get("ret")
    return None


# ---- threads mode ---------------------------------------------------------------------------
def _solo(scenario):
    rec = execute({"property": ID, "scenario": scenario, "plan": [], "config": {}})
    try:
        return digest(rec.digest_items()), rec.outcome, rec.ticks
    finally:
        cleanup(rec)


def _norm(outcome):
    """Outcome of a run as far as both ways of recording it agree: how it ended and with what type."""
    if outcome and outcome[0] == "raise":
        return ("raise", str(outcome[1][0]).split("[")[0])      # Concurrent[X] is a Concurrent
    return tuple(outcome[:1])


def run_threads(case):
    violations = []

    def bad(rule, msg):
        if len(violations) < 5:
            violations.append({"rule": "C15/" + rule, "msg": msg})

    programs = case["programs"]
    solo = [_solo(scenario) for scenario in programs]
    from usim._core import handler, loop as kernel
    codes = set()
    for func in (getattr(handler.StateHandler.assign, "__wrapped__", None), kernel.Loop.run,
                 usim.run):
        code = getattr(func, "__code__", None)
        if code is not None:
            codes.add(code)
    names = ["T%d" % i for i in range(len(programs))] + ["free"]
    baton = Baton(random.Random(case["baton_seed"]), names)
    shared = Seam(record=False, cpu_cap=None)
    shared.monitors.append(lambda seam, loop, target, signal:
                           baton.switch(threading.current_thread().name))
    results = {}
    free_seen = []
    line_switches = [0]
    after_seen = []

    def on_line(frame):
        line_switches[0] += 1
        baton.switch(threading.current_thread().name)

    def worker(name, scenario):
        try:
            baton.wait_turn(name)
            kwargs = {"start": scenario.get("start", 0)}
            if scenario.get("till") is not None:
                kwargs["till"] = scenario["till"]
            for attempt in range(2 if scenario.get("twice") else 1):
                world = World({"property": ID, "scenario": scenario, "plan": [], "config": {}},
                              seam=shared)
                sys.settrace(line_tracer(codes, on_line))
                try:
                    usim.run(world.root(), **kwargs)
                    outcome = ("ok",)
                except HarnessAbort as err:
                    outcome = ("abort", str(err))
                except BaseException as err:       # noqa: B902
                    outcome = ("raise", (type(err).__name__, str(err)[:100]))
                finally:
                    sys.settrace(None)
                seen = _outside()
                if seen is not None:
                    after_seen.append((name, seen, outcome[0]))
                items = [(e[2], e[3], e[4]) + tuple(e[5:]) for e in world.trace]
                result = (digest(items), outcome)
                if attempt and results.get(name) != result:
                    results[name] = (None, ("second-run-differs", results.get(name), result))
                    break
                results[name] = result
        except BaseException as err:           # noqa: B902
            results[name] = (None, ("thread-error", type(err).__name__, str(err)[:100]))
        finally:
            baton.finish(name)

    def free():
        try:
            baton.wait_turn("free")
            for _ in range(60):
                seen = _outside()
                if seen is not None:
                    free_seen.append(seen)
                if len(baton.alive) <= 1:
                    break
                baton.switch("free")
        except BaseException as err:           # noqa: B902
            results["free"] = (None, ("thread-error", type(err).__name__, str(err)[:100]))
        finally:
            baton.finish("free")

    threads = [threading.Thread(target=worker, args=(names[i], programs[i]), name=names[i],
                                daemon=True) for i in range(len(programs))]
    threads.append(threading.Thread(target=free, name="free", daemon=True))
    with shared:
        for thread in threads:
            thread.start()
        baton.start()
        for thread in threads:
            thread.join(timeout=60)
        hung = [t.name for t in threads if t.is_alive()]
    if hung:
        baton.failed = "hung"
        bad("threads-hung", "threads %r did not finish" % hung)
    for rule, msg in shared.kernel_violations:
        bad("kernel:" + rule, msg)
    for i, name in enumerate(names[:-1]):
        got = results.get(name)
        want_digest, want_outcome, _ = solo[i]
        if got is None:
            bad("thread-no-result", "%s produced no result" % name)
        elif _norm(got[1]) != _norm(want_outcome):
            bad("thread-outcome", "%s ended with %r in parallel, %r alone"
                % (name, got[1], want_outcome))
        elif got[0] != want_digest:
            bad("thread-interference", "%s produced a different trace next to the other "
                "simulations (digest %s, alone %s)" % (name, got[0], want_digest))
    for name, seen, how in after_seen:
        bad("simulation-visible-outside", "%s read time.now == %r after its run() had ended (%s)"
            % (name, seen, how))
    if free_seen:
        bad("simulation-visible-in-other-thread", "a thread without simulation read time.now "
            "== %r" % (free_seen[0],))
    if "free" in results:
        bad("free-thread-error", "%r" % (results["free"][1],))
    stats = {"probe.baton-switches": baton.switches, "probe.line-switch-points": line_switches[0],
             "probe.threaded-trials": 1}
    sig = ("threads", tuple(baton.log[:200]), tuple(d for d, _, _ in solo))
    return violations, stats, sig, baton.switches, sum(t for _, _, t in solo)


def run_case(case):
    out = Outcome()
    if case.get("mode") == "threads":
        violations, stats, sig, switches, ticks = run_threads(case)
        out.nontrivial = switches >= 20
        out.sim_time = 0.0
    else:
        violations, stats, digests, sim_time, ticks = run_history(case)
        sig = ("history", digests)
        out.nontrivial = any(r["kind"] in ("fail", "leak", "nested") for r in case["runs"])
        out.sim_time = sim_time
    out.violations = violations
    out.info = {"stats": stats}
    out.stats = stats
    out.signature = sig
    out.ticks = ticks
    out.digest = digest(sig)
    return out


def check(rec):
    return []


F13_SCENARIO = {"start": 0, "till": 5, "roots": "direct", "resources": {}, "actors": [
    {"name": "r0", "ops": [{"op": "sleep", "d": 1}], "ret": 17}]}


def _probe_till_swallows_cascade():
    """F29: a root activity that ends with the TaskCancelled of a task it awaited - run() raises
    it, run(till=) returns normally."""
    def program():
        async def victim():
            await usim.eternity

        async def root():
            async with usim.Scope() as scope:
                task = scope.do(victim())
                task.cancel("gone")
                await task
        return root()

    outcomes = []
    for kwargs in ({}, {"till": 50}):
        try:
            usim.run(program(), **kwargs)
            outcomes.append(None)
        except usim.TaskCancelled as err:
            outcomes.append(type(err).__name__)
    return outcomes == ["TaskCancelled", None]


def _probe_till_promotes_later_failure():
    """F30: two roots fail in one time step, the second with a privileged exception - run()
    raises the first, run(till=) the privileged one."""
    def programs():
        async def first():
            raise KeyError("first")

        async def second():
            raise AssertionError("second")
        return first(), second()

    outcomes = []
    for kwargs in ({}, {"till": 50}):
        try:
            usim.run(*programs(), **kwargs)
            outcomes.append(None)
        except (KeyError, AssertionError) as err:
            outcomes.append(type(err).__name__)
    return outcomes == ["KeyError", "AssertionError"]


def probe_finding(finding):
    if finding["id"] == "F29":
        return _probe_till_swallows_cascade()
    if finding["id"] == "F30":
        return _probe_till_promotes_later_failure()
    if finding["id"] != "F13":
        return False
    rec = execute({"property": ID, "scenario": F13_SCENARIO, "plan": [], "config": {}})
    try:
        return rec.outcome == ("ok",) and any(ev[4] == "end" for ev in rec.trace)
    finally:
        cleanup(rec)
