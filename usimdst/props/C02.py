"""C02 The trace is a function of the program alone (deterministic FIFO turn order)."""
import os
import sys
import json
import copy
import tempfile
import subprocess

from .. import union, VERIF, REPO
from ..runner import Outcome, digest

ID = "C02"
LEVEL = "exploration"
RULE = ("seeded programs of the union workload (timers, scope trees, task cancellation, until "
        "blocks, conditions, locks, queues, channels, resources, pipes, tickers, collect/first, "
        "the operation table, usim.py resources), 70 % with 1-3 injected faults; every program "
        "is executed under {heap, SD wait queue} x {no junk, junk allocations + dropped condition "
        "objects kept referenced} x {gc.collect() at seeded kernel events or not} in-process; every "
        "batch also holds 8 wake-order programs (3-6 subscribers of one notification, some leave, "
        "probes held and dropped, a withdrawn firing), 2 absorbed-delay programs (clock 2**60) and "
        "6 diamond programs (shared connectives over a common leaf); batches are re-executed in "
        "fresh interpreters under PYTHONHASHSEED in {0, 1, 4242} x USIM_WAITQUEUE in {unset, "
        "SD} x {default, -O}. Non-trivial = the program has at least two activities made "
        "runnable for the same virtual time; distinct = distinct observable trace digest.")
BUDGET = {"quick": {"cases": 320, "wall_s": 240, "chunk": 2},
          "thorough": {"cases": 12000, "wall_s": 1500, "chunk": 4}}
ASSUMPTIONS = ["the observable trace is the ordered log of (time, activity, event, values) "
               "written by the generated activities; no addresses or ids enter it",
               "programs are valid (no usage assertion is tripped), so -O must not change them"]
LEVEL_TEXT = ("Exploration (differential): one digest of the ordered observable event log per "
              "program; it must be identical across wait-queue backends, heap layouts, forced "
              "garbage collections, hash seeds, processes and assertion modes - with faults "
              "injected too (a faulty run must be as repeatable as a clean one). In every run "
              "the seam additionally checks that activities made runnable for the same time run "
              "in the order in which they were made runnable.")
LEVEL_NOTE = ("Trusts the digest function and the sub-interpreter driver (usimdst.cli --batch); a "
              "case is a batch of 25 programs so that interpreter start-up is amortised.")
TECHNIQUE = "deterministic simulation, differential replay across configurations and fresh interpreters, FIFO run-queue monitor"

BATCH = 25
OPT_SHARE = 0                # C02 runs its own -O interpreters (SUBPROC)
LAYOUT_DEPENDENT = True      # see runner.drive: confirmation tries several violations / interpreters
INPROC = [{"waitq": "heap"}, {"waitq": "sd"}, {"waitq": "heap", "junk": 37, "retain": True},
          {"waitq": "sd", "junk": 101, "gc": True}, {"waitq": "heap", "gc": True}]
SUBPROC = [{"hashseed": "0", "waitq": "", "opt": False}, {"hashseed": "1", "waitq": "SD", "opt": False},
           {"hashseed": "4242", "waitq": "", "opt": True}, {"hashseed": "1", "waitq": "SD", "opt": True},
           {"hashseed": "4242", "waitq": "SD", "opt": False}, {"hashseed": "0", "waitq": "", "opt": True}]


def wake_order_program(rng):
    """3-6 activities subscribe to one notification (await / until-block / own comparison of one
    tracked value); some of them leave before it fires; the rest must resume in the order in
    which they subscribed."""
    kind = rng.choice(["await-flag", "until-flag", "await-shared-and", "own-comparison",
                       "await-not-flag", "await-task", "until-task", "await-time", "cmp-tracked"])
    n = rng.randint(3, 6)
    resources = {"F": {"kind": "flag"}, "G": {"kind": "flag", "init": True},
                 "X": {"kind": "tracked", "init": 0}, "Y": {"kind": "tracked", "init": 1}}
    if kind == "await-not-flag":
        expr = {"k": "not", "x": {"k": "flag", "n": "G"}}         # the inverse of a flag
    elif kind in ("await-task", "until-task"):
        expr = {"k": "done", "task": "w"}                         # completion of one task
    elif kind == "await-time":
        expr = {"k": "shared", "n": "T", "x": {"k": "time", "op": rng.choice([">=", "=="]),
                                               "t": 3}}           # one time condition object
    elif kind == "cmp-tracked":
        expr = {"k": "cmp", "l": "X", "op": ">=", "r": {"tr": "Y"}}   # listener of two values
    elif kind == "await-flag":
        expr = {"k": "flag", "n": "F"}
    elif kind == "until-flag":
        expr = {"k": "flag", "n": "F"}
    elif kind == "await-shared-and":
        expr = {"k": "shared", "n": "S", "x": {"k": "and", "xs": [{"k": "flag", "n": "F"},
                                                                 {"k": "flag", "n": "G"}]}}
    else:
        expr = {"k": "cmp", "l": "X", "op": ">=", "r": 1}
    actors = []
    if kind in ("await-task", "until-task"):
        actors.append({"name": "w", "ops": [{"op": "wait", "id": "ww", "x": {"k": "flag", "n": "F"}}]})
    # condition objects that are only looked at, kept for a while and dropped again between two
    # subscriptions: unrelated garbage whose addresses get re-used by later subscribers
    n_probe = rng.choice([0, 1, 2, 3, 5])
    drop_before = rng.randint(1, n - 1) if n_probe else None
    if n_probe:
        if kind in ("own-comparison", "cmp-tracked"):
            probes = [{"k": "cmp", "l": "X", "op": ">=", "r": 5 + j} for j in range(n_probe)]
        else:
            probes = [rng.choice([{"k": "not", "x": {"k": "flag", "n": "F"}},
                                  {"k": "and", "xs": [{"k": "flag", "n": "F"}, {"k": "flag", "n": "G"}]},
                                  {"k": "cmp", "l": "X", "op": ">=", "r": 5 + j}])
                      for j in range(n_probe)]
        ops = [{"op": "hold", "as": "p%d" % j, "x": x} for j, x in enumerate(probes)]
        ops.append({"op": "postpone", "k": drop_before + 1})
        ops.extend({"op": "drop", "as": "p%d" % j} for j in range(n_probe))
        actors.append({"name": "prober", "ops": ops})
    for i in range(n):
        ops = [{"op": "postpone", "k": i + 1 + (2 if drop_before is not None and i >= drop_before else 0)}]          # subscribe one after the other
        if kind == "await-task" and i % 2:
            ops.append({"op": "await_task", "task": "w"})
        elif kind in ("until-flag", "until-task"):
            ops.append({"op": "scope", "label": "U%d" % i, "until": expr, "children": [],
                        "body": [{"op": "now", "tag": "subscribed"}, {"op": "eternity"}]})
        else:
            ops.append({"op": "wait", "id": "w%d" % i, "x": expr})
        ops.append({"op": "now", "tag": "resumed"})
        actors.append({"name": "q%d" % i, "ops": ops})
    leavers = rng.sample(range(n), rng.randint(0, n - 2))
    killer = [{"op": "sleep", "d": 1}]
    for i in leavers:
        killer.append({"op": "cancel", "task": "q%d" % i, "token": ["leave"]})
        if rng.random() < 0.5:
            killer.append({"op": "postpone", "k": 1})
    killer.append({"op": "sleep", "d": 1})
    fire = {"op": "tr_set", "on": "X", "to": 2} if kind in ("own-comparison", "cmp-tracked") \
        else {"op": "flag_set", "on": "G", "to": False} if kind == "await-not-flag" \
        else {"op": "sleep", "d": 1.5} if kind == "await-time" \
        else {"op": "flag_set", "on": "F"}
    if kind == "cmp-tracked" and rng.random() < 0.5:
        fire = {"op": "tr_set", "on": "Y", "to": -1}
    if kind in ("await-flag", "await-shared-and", "own-comparison", "await-not-flag") \
            and rng.random() < 0.4:
        # a false alarm first: the notification fires and is withdrawn again (by an activity
        # that is served before the woken waiters) - they go back to waiting, in their old order
        undo = {"op": "tr_set", "on": "X", "to": 0} if kind == "own-comparison" \
            else {"op": "flag_set", "on": "G", "to": True} if kind == "await-not-flag" \
            else {"op": "flag_set", "on": "F", "to": False}
        # (started one after the other, so at t=2 `undo` is served right behind `early`)
        actors.append({"name": "early", "ops": [{"op": "sleep", "d": 2}, fire]})
        actors.append({"name": "undo", "ops": [{"op": "sleep", "d": 2}, undo]})
        killer.append({"op": "sleep", "d": 1})
        actors.append({"name": "killer", "ops": killer + [fire]})
    else:
        killer.append(fire)
        actors.append({"name": "killer", "ops": killer})
    return {"scenario": {"resources": resources, "actors": actors}, "plan": [], "config": {},
            "engine": "world", "family": "wake-order", "leavers": ["q%d" % i for i in leavers]}


def absorbed_delay_program(rng):
    """Positive delays that float rounding absorbs (`now + d == now` at a clock of 2**60): the
    wake-up is due at the current date, yet both wait-queue backends must treat it alike - as a
    further step at that date - while other activities still take turns in the current one."""
    actors = []
    for i in range(rng.randint(2, 4)):
        ops = [{"op": "postpone", "k": rng.randint(0, 2)}]
        for j in range(rng.randint(1, 3)):
            ops.append({"op": "sleep", "d": rng.choice([1, 2, 16])})
            ops.append({"op": "now", "tag": "woke%d" % j})
            for _ in range(rng.randint(0, 3)):        # keep taking turns in the step woken in
                ops.append({"op": "postpone", "k": 1})
                ops.append({"op": "now", "tag": "turn"})
        actors.append({"name": "s%d" % i, "ops": ops})
    for i in range(rng.randint(1, 3)):
        ops = []
        for j in range(rng.randint(3, 8)):
            ops.append({"op": "postpone", "k": 1})
            ops.append({"op": "now", "tag": "spin"})
        actors.append({"name": "p%d" % i, "ops": ops})
    rng.shuffle(actors)
    return {"scenario": {"start": float(2 ** 60), "resources": {}, "actors": actors}, "plan": [],
            "config": {}, "engine": "world", "family": "absorbed-delay"}


def diamond_program(rng):
    """Two shared connectives over a common leaf, waiters on each and on their combination (the
    `_diamond` of the C08 family, here on its own and in numbers): the order in which their helper
    activities are started and woken must not follow object addresses."""
    from . import C08
    actors = C08._diamond(rng, 0)
    resources = {"f%d" % i: {"kind": "flag", "init": rng.random() < 0.2} for i in range(3)}
    resources["x0"] = {"kind": "tracked", "init": rng.randint(0, 3)}
    for i in range(rng.randint(1, 3)):
        ops = []
        for _ in range(rng.randint(1, 4)):
            ops.append({"op": "sleep", "d": rng.choice([0.25, 0.5, 1, 2])})
            if rng.random() < 0.7:
                ops.append({"op": "flag_set", "on": "f%d" % rng.randrange(3),
                            "to": rng.random() < 0.7})
            else:
                ops.append({"op": "tr_set", "on": "x0", "to": rng.randint(0, 4)})
        actors.append({"name": "set%d" % i, "ops": ops})
    actors.append({"name": "zall", "after": 64, "ops": [
        {"op": "flag_set", "on": "f0", "to": True}, {"op": "flag_set", "on": "f1", "to": True},
        {"op": "flag_set", "on": "f2", "to": False}, {"op": "tr_set", "on": "x0", "to": 9}]})
    return {"scenario": {"resources": resources, "actors": actors}, "plan": [], "config": {},
            "engine": "world", "family": "diamond"}


def decimal_pipe_program(rng):
    """Transfers with limits that do not add up exactly (C13._decimal): the finish times must not
    depend on the order in which a container happens to hand out the transfers."""
    from . import C13
    case = C13._decimal(rng)
    return {"scenario": case["scenario"], "plan": [], "config": {}, "engine": "world",
            "family": "decimal-pipe"}


def check_wake_order(sub):
    rec, cleanup = union.execute(configured(sub, {}))
    try:
        resumed = [ev[3] for ev in rec.trace if ev[4] == "now" and ev[5] == "resumed"]
        expected = [a["name"] for a in sub["scenario"]["actors"]
                    if a["name"].startswith("q") and a["name"] not in sub["leavers"]]
        if rec.outcome != ("ok",):
            return "run() ended with %r" % (rec.outcome,)
        if resumed != expected:
            return "waiters of one notification subscribed in order %r (after %r left) but " \
                   "resumed in order %r" % (expected, sub["leavers"], resumed)
        return None
    finally:
        cleanup(rec)


def generate(rng, tier):
    batch = [union.generate(rng) for _ in range(BATCH)]
    batch.extend(wake_order_program(rng) for _ in range(8))
    batch.extend(absorbed_delay_program(rng) for _ in range(2))
    batch.extend(diamond_program(rng) for _ in range(6))
    batch.extend(decimal_pipe_program(rng) for _ in range(2))
    for sub in batch:
        if rng.random() < 0.5:
            sub["gc_ticks"] = sorted(union.fault_tick(rng, 80) for _ in range(rng.randint(1, 3)))
    n_sub = 2 if tier == "quick" else len(SUBPROC)
    picks = rng.sample(range(len(SUBPROC)), n_sub)
    return {"property": ID, "batch": batch, "subproc": picks, "scenario": {"actors": []},
            "plan": []}


def configured(sub, config):
    case = {"scenario": sub["scenario"], "plan": list(sub.get("plan") or ()),
            "engine": sub.get("engine", "world"), "config": {}}
    if config.get("waitq"):
        case["config"]["waitq"] = config["waitq"]
    if config.get("junk"):
        case["config"]["junk"] = config["junk"]
    if config.get("retain"):
        case["config"]["retain"] = True
    if config.get("gc"):
        for tick in sub.get("gc_ticks", (7, 23)):
            case["plan"].append({"tick": tick, "kind": "gc"})
    return case


def observable(case):
    rec, cleanup = union.execute(case)
    try:
        items = rec.digest_items()
        return {"digest": digest((items, rec.outcome)), "kernel": list(rec.kernel_violations),
                "outcome": rec.outcome, "ticks": rec.ticks, "sim_time": 0.0,
                "concurrent": _concurrent(rec), "events": len(items)}
    finally:
        cleanup(rec)


def _concurrent(rec):
    """Were two activations ever made runnable for the same virtual time?"""
    last = None
    for act in rec.acts or ():
        if last is not None and act[1] == last[1] and act[2] != last[2]:
            return True
        last = act
    return False


def batch_digests(batch):
    """Used by the sub-interpreter driver: digests under this interpreter's own configuration."""
    out = []
    for sub in batch:
        try:
            out.append(observable(configured(sub, {}))["digest"])
        except Exception as err:        # noqa: B902
            out.append("error:%s:%s" % (type(err).__name__, str(err)[:80]))
    return out


def run_subprocess(batch, config):
    with tempfile.NamedTemporaryFile("w", suffix=".json", delete=False, dir="/tmp") as stream:
        json.dump(batch, stream)
        path = stream.name
    try:
        env = dict(os.environ, PYTHONHASHSEED=config["hashseed"], USIM_REPO=REPO)
        if config["waitq"]:
            env["USIM_WAITQUEUE"] = config["waitq"]
        else:
            env.pop("USIM_WAITQUEUE", None)
        cmd = [sys.executable] + (["-O"] if config["opt"] else []) + \
            ["-m", "usimdst.cli", "C02", "--batch", path]
        proc = subprocess.run(cmd, cwd=VERIF, env=env, capture_output=True, text=True,
                              timeout=300)
        for line in proc.stdout.splitlines():
            if line.startswith("DIGESTS "):
                return json.loads(line[8:])
        return {"error": (proc.stdout[-300:] + proc.stderr[-500:])}
    finally:
        os.unlink(path)


def run_case(case):
    out = Outcome()
    violations = []
    stats = {}
    batch = case["batch"] if "batch" in case else [case["single"]]
    reference = []
    nontrivial = 0
    ticks = 0
    sigs = []
    for index, sub in enumerate(batch):
        if sub.get("family") == "wake-order":
            problem = check_wake_order(sub)
            stats["probe.wake-order-programs"] = stats.get("probe.wake-order-programs", 0) + 1
            if problem and len(violations) < 5:
                violations.append({"rule": "C02/wake-order", "msg": "program %d: %s"
                                   % (index, problem), "sub": index})
        results = [observable(configured(sub, config)) for config in INPROC]
        ticks += results[0]["ticks"]
        reference.append(results[0]["digest"])
        sigs.append(results[0]["digest"])
        stats["probe.family.%s" % sub.get("family", "?")] = \
            stats.get("probe.family.%s" % sub.get("family", "?"), 0) + 1
        stats["probe.inprocess-runs"] = stats.get("probe.inprocess-runs", 0) + len(results)
        if results[0]["concurrent"]:
            nontrivial += 1
        for result in results:
            for rule, msg in result["kernel"]:
                if rule.startswith("C02") and len(violations) < 5:
                    violations.append({"rule": "C02/" + rule.split("/", 1)[1],
                                       "msg": "program %d (%s): %s" % (index, sub.get("family"), msg),
                                       "sub": index})
        for config, result in zip(INPROC[1:], results[1:]):
            if result["digest"] != results[0]["digest"] and len(violations) < 5:
                violations.append({"rule": "C02/config-divergence",
                                   "msg": "program %d (%s): trace under %r differs from trace under "
                                          "%r (%d vs %d events, outcomes %r / %r)"
                                          % (index, sub.get("family"), config, INPROC[0],
                                             result["events"], results[0]["events"],
                                             result["outcome"], results[0]["outcome"]),
                                   "sub": index})
    for pick in case.get("subproc", ()):
        config = SUBPROC[pick]
        digests = run_subprocess(batch, config)
        key = "probe.subprocess.hash%s.%s.%s" % (config["hashseed"], config["waitq"] or "heap",
                                                 "O" if config["opt"] else "dbg")
        stats[key] = stats.get(key, 0) + len(batch)
        if isinstance(digests, dict):
            violations.append({"rule": "C02/harness-subprocess", "msg": digests["error"]})
            continue
        for index, (mine, theirs) in enumerate(zip(reference, digests)):
            if mine != theirs and len(violations) < 5:
                violations.append({"rule": "C02/config-divergence",
                                   "msg": "program %d (%s): trace in a fresh interpreter under %r "
                                          "differs (%s vs %s)" % (index, batch[index].get("family"),
                                                                  config, theirs, mine),
                                   "sub": index, "subproc": pick})
    out.violations = violations
    out.info = {"stats": stats}
    out.stats = stats
    out.signature = tuple(sigs)
    out.nontrivial = nontrivial > 0
    out.sim_time = 0.0
    out.ticks = ticks
    out.digest = digest(tuple(sigs))
    return out


def reduce(case, violation):
    """Narrow a failing batch to the one program (and sub-interpreter config) that diverged."""
    if "batch" in case and "sub" in violation:
        small = {"property": ID, "batch": [case["batch"][violation["sub"]]],
                 "subproc": [violation["subproc"]] if "subproc" in violation else [],
                 "scenario": case["batch"][violation["sub"]]["scenario"], "plan": []}
        return small
    return case


def check(rec):
    return []
