"""C20 Every awaitable operation yields to the other runnable activities at least once."""
ID = "C20"
LEVEL = "exploration"
RULE = ("a table of (operation, state in which it completes without waiting) rows - awaiting set "
        "flags / true comparisons / done tasks / ended scopes / reached dates / instant, "
        "Flag.set and Tracked.set to the same and to a new value, queue and channel put / "
        "buffered get / close / close again, borrow and claim (enter and exit separately) with "
        "resources free, increase / decrease / set, pipe transfers of zero volume and on "
        "infinite and unbounded pipes, each step of interval(0) and delay(0), collect() and "
        "first() that complete at once, leaving empty Scope and until blocks - is enumerated "
        "completely; each row is run in seeded environments of 1-4 spinner activities that "
        "postpone in a loop (with seeded phase), an optional competing actor and both "
        "wait-queue backends. Every case is non-trivial (the operation completes within the "
        "time step with at least one runnable spinner); distinct = distinct (row, environment).")
BUDGET = {"quick": {"cases": 40000, "wall_s": 240, "chunk": 100},
          "thorough": {"cases": 300000, "wall_s": 1500, "chunk": 400}}
ASSUMPTIONS = ["operations that end in an API error (StreamClosed, ResourcesUnavailable, "
               "ScopeClosed) are not completions and are not asserted",
               "Lock acquisition is not among the operations the property lists"]
LEVEL_TEXT = ("Exploration over environments, exhaustive over the operation table: for every "
              "operation issued while k spinners are runnable at that virtual time, each spinner "
              "that is alive before and after the operation must have had a turn between the "
              "operation's start and its completion (or the clock advanced).")
LEVEL_NOTE = "Trusts the interpreter's start/end markers being logged in the same activation as the operation starts / completes."
TECHNIQUE = "deterministic simulation, complete operation table x seeded spinner environments, turn-order history check"


def mark(tag):
    return {"op": "now", "tag": tag}


def row(name, op, resources=None, setup=(), helpers=(), between=("mark+", "mark-"),
        spin_after=0):
    return {"name": name, "op": op, "resources": resources or {}, "setup": list(setup),
            "helpers": list(helpers), "between": between, "spin_after": spin_after}


#: rows that show a listed finding (F35): not part of the table, re-demonstrated by the probe
KNOWN_ROWS = []


def table():
    rows = []
    flag_on = {"F": {"kind": "flag", "init": True}}
    flag_off = {"F": {"kind": "flag"}}
    tracked = {"X": {"kind": "tracked", "init": 3}}
    rows.append(row("await set flag", {"op": "wait", "id": "w", "x": {"k": "flag", "n": "F"}}, flag_on))
    rows.append(row("await inverse of unset flag",
                    {"op": "wait", "id": "w", "x": {"k": "not", "x": {"k": "flag", "n": "F"}}}, flag_off))
    rows.append(row("await true comparison",
                    {"op": "wait", "id": "w", "x": {"k": "cmp", "l": "X", "op": ">=", "r": 1}}, tracked))
    rows.append(row("await true conjunction",
                    {"op": "wait", "id": "w", "x": {"k": "and", "xs": [
                        {"k": "flag", "n": "F"}, {"k": "cmp", "l": "X", "op": ">=", "r": 1}]}},
                    dict(flag_on, **tracked)))
    rows.append(row("await true disjunction",
                    {"op": "wait", "id": "w", "x": {"k": "or", "xs": [
                        {"k": "flag", "n": "F"}, {"k": "cmp", "l": "X", "op": "<", "r": 1}]}},
                    dict(flag_on, **tracked)))
    # a connective object that also guards an until-block elsewhere (so it has a helper activity
    # watching its children) and becomes true in the time step in which it is awaited
    shared_or = {"k": "shared", "n": "SO", "x": {"k": "or", "xs": [{"k": "flag", "n": "A"},
                                                                     {"k": "flag", "n": "B"}]}}
    guard = [{"name": "h", "ops": [{"op": "scope", "label": "HG", "children": [],
                                    "until": shared_or, "body": [{"op": "eternity"}]}]},
             {"name": "hset", "ops": [{"op": "sleep", "d": 0.25},
                                      {"op": "flag_set", "on": "A", "to": True}]}]
    rows.append(row("await connective that guards an until-block elsewhere, just become true",
                    {"op": "wait", "id": "w", "x": shared_or},
                    {"A": {"kind": "flag"}, "B": {"kind": "flag"}}, helpers=guard,
                    setup=[{"op": "sleep", "d": 0.25}], spin_after=0.25))
    helper = [{"name": "h", "ops": [], "ret": 7}]
    rows.append(row("await done task", {"op": "await_task", "task": "h"}, helpers=helper,
                    setup=[{"op": "postpone", "k": 3}]))
    rows.append(row("await task.done of done task", {"op": "await_done", "task": "h"},
                    helpers=helper, setup=[{"op": "postpone", "k": 3}]))
    failed = [{"op": "try", "all": True, "body": [
        {"op": "scope", "label": "SF", "body": [{"op": "sleep", "d": 1}],
         "children": [{"name": "hf", "ops": [{"op": "raise", "type": "E"}]}]}]}]
    rows.append(row("await failed task", {"op": "await_task", "task": "hf"}, setup=failed))
    rows.append(row("await task.done of failed task", {"op": "await_done", "task": "hf"},
                    setup=failed))
    cancelled = [{"op": "scope", "label": "SC", "body": [
        {"op": "cancel", "task": "hc", "token": ["c"]}, {"op": "postpone", "k": 2}],
        "children": [{"name": "hc", "ops": [{"op": "sleep", "d": 8}]}]}]
    rows.append(row("await cancelled task", {"op": "await_task", "task": "hc"}, setup=cancelled))
    rows.append(row("await ended scope", {"op": "await_scope", "scope": "S"},
                    setup=[{"op": "scope", "label": "S", "children": [], "body": []}]))
    for cmp, date in ((">=", -1), (">=", 0), ("==", 0), ("<", 5)):
        rows.append(row("await time %s %r at 0" % (cmp, date), {"op": "at", "cmp": cmp, "t": date}))
    rows.append(row("await instant", {"op": "postpone", "k": 1}))
    rows.append(row("await time + 0", {"op": "sleep", "d": 0}))
    for init, to in ((True, True), (False, True), (True, False), (False, False)):
        rows.append(row("Flag.set(%r) on %r" % (to, init), {"op": "flag_set", "on": "F", "to": to},
                        {"F": {"kind": "flag", "init": init}}))
    rows.append(row("Tracked.set same", {"op": "tr_set", "on": "X", "to": 3}, tracked))
    rows.append(row("Tracked.set new", {"op": "tr_set", "on": "X", "to": 5}, tracked))
    rows.append(row("await (tracked + 1)", {"op": "tr_add", "on": "X", "by": 1}, tracked))
    queue = {"Q": {"kind": "queue"}}
    rows.append(row("Queue.put", {"op": "put", "on": "Q", "v": 1}, queue))
    rows.append(row("Queue.put with a receiver waiting", {"op": "put", "on": "Q", "v": 1}, queue,
                    helpers=[{"name": "h", "ops": [{"op": "get", "on": "Q"}]}],
                    setup=[{"op": "postpone", "k": 3}]))
    rows.append(row("Channel.put with a consumer waiting", {"op": "put", "on": "C", "v": 1},
                    {"C": {"kind": "channel"}},
                    helpers=[{"name": "h", "ops": [{"op": "get", "on": "C"}]}],
                    setup=[{"op": "postpone", "k": 3}]))
    rows.append(row("Queue get buffered", {"op": "get", "on": "Q"}, queue,
                    setup=[{"op": "put", "on": "Q", "v": 1}]))
    rows.append(row("Queue iteration step buffered", {"op": "iter", "on": "Q", "n": 1}, queue,
                    setup=[{"op": "put", "on": "Q", "v": 1}]))
    rows.append(row("Queue.close", {"op": "close", "on": "Q"}, queue))
    rows.append(row("Queue.close again", {"op": "close", "on": "Q"}, queue,
                    setup=[{"op": "close", "on": "Q"}]))
    rows.append(row("Queue.close with buffered item", {"op": "close", "on": "Q"}, queue,
                    setup=[{"op": "put", "on": "Q", "v": 1}]))
    rows.append(row("Queue iteration over closed empty queue", {"op": "iter", "on": "Q"}, queue,
                    setup=[{"op": "close", "on": "Q"}], between=("iter+", "iter-")))
    rows.append(row("Queue iteration drains closed queue", {"op": "iter", "on": "Q"}, queue,
                    setup=[{"op": "put", "on": "Q", "v": 1}, {"op": "close", "on": "Q"}],
                    between=("iter.next", "iter-")))
    channel = {"C": {"kind": "channel"}}
    rows.append(row("Channel iteration over closed channel", {"op": "iter", "on": "C"}, channel,
                    setup=[{"op": "close", "on": "C"}], between=("iter+", "iter-")))
    feeder = [{"name": "h", "ops": [{"op": "sleep", "d": 0.25}, {"op": "put", "on": "C", "v": 1},
                                    {"op": "sleep", "d": 0.25}, {"op": "put", "on": "C", "v": 2},
                                    {"op": "sleep", "d": 0.25}, {"op": "put", "on": "C", "v": 3}]}]
    rows.append(row("Channel iteration step with buffered message",
                    {"op": "iter", "on": "C", "n": 3, "body": [{"op": "sleep", "d": 1}]}, channel,
                    helpers=feeder, between=("iter.next", "iter.item"), spin_after=1.25))
    rows.append(row("Channel.put", {"op": "put", "on": "C", "v": 1}, channel))
    rows.append(row("Channel.close", {"op": "close", "on": "C"}, channel))
    rows.append(row("Channel.close again", {"op": "close", "on": "C"}, channel,
                    setup=[{"op": "close", "on": "C"}]))
    for kind in ("capacities", "resources"):
        supply = {"R": {"kind": kind, "levels": {"a": 4, "b": 2}}}
        for mode in ("borrow", "claim"):
            block = {"op": "borrow", "on": "R", "id": "b", "mode": mode,
                     "amounts": {"a": 2, "b": 1}, "body": []}
            rows.append(row("%s %s enter" % (kind, mode), block, supply,
                            between=(mode + ".req", mode + ".enter")))
            rows.append(row("%s %s exit" % (kind, mode), block, supply,
                            between=(mode + ".leave", mode + ".done")))
            zero = dict(block, amounts={"a": 0})
            rows.append(row("%s %s nothing enter" % (kind, mode), zero, supply,
                            between=(mode + ".req", mode + ".enter")))
    supply = {"R": {"kind": "resources", "levels": {"a": 4, "b": 2}}}
    for how, amounts in (("increase", {"a": 1}), ("decrease", {"a": 1}), ("set", {"a": 4}),
                         ("set", {"a": 1, "b": 0}), ("increase", {"a": 0})):
        rows.append(row("Resources.%s %r" % (how, amounts),
                        {"op": "adjust", "on": "R", "how": how, "amounts": amounts}, supply,
                        between=("adjust+", "adjust-")))
    for name, spec in (("Pipe(2)", {"kind": "pipe", "throughput": 2}),
                       ("Pipe(inf)", {"kind": "pipe", "throughput": "inf"}),
                       ("UnboundedPipe", {"kind": "upipe"})):
        rows.append(row("%s transfer 0" % name,
                        {"op": "transfer", "on": "P", "id": "x", "total": 0, "tp": None},
                        {"P": spec}, between=("transfer+", "transfer-")))
        rows.append(row("%s transfer 0 limited" % name,
                        {"op": "transfer", "on": "P", "id": "x", "total": 0, "tp": 1},
                        {"P": spec}, between=("transfer+", "transfer-")))
        if name != "Pipe(2)":
            rows.append(row("%s transfer 3" % name,
                            {"op": "transfer", "on": "P", "id": "x", "total": 3, "tp": None},
                            {"P": spec}, between=("transfer+", "transfer-")))
    for kind in ("interval", "delay"):
        rows.append(row("%s(0) steps" % kind,
                        {"op": "ticker", "kind": kind, "p": 0, "bodies": [0, 0, 0]},
                        between=(kind + ".tick", kind + ".tick")))
    for period in (1, 2):
        rows.append(row("interval(%r) step after a body of exactly %r" % (period, period),
                        {"op": "ticker", "kind": "interval", "p": period,
                         "bodies": [period, period]},
                        between=("interval.bodyend", "interval.tick"), spin_after=2 * period))
    rows.append(row("collect()", {"op": "collect", "id": "c", "acts": []},
                    between=("collect+", "collect-")))
    quick = [{"name": "q0", "ops": [], "ret": 1}, {"name": "q1", "ops": [], "ret": 2}]
    rows.append(row("collect(immediate, immediate)", {"op": "collect", "id": "c", "acts": quick},
                    between=("collect+", "collect-")))
    rows.append(row("first(count=0)", {"op": "first", "id": "f", "acts": quick, "count": 0},
                    between=("first+", "first-")))
    rows.append(row("first(immediate) first result", {"op": "first", "id": "f", "acts": quick},
                    between=("first+", "first.item")))
    rows.append(row("leave empty Scope", {"op": "scope", "label": "S", "children": [], "body": []},
                    between=("scope.body-", "scope-")))
    rows.append(row("leave empty until(flag)",
                    {"op": "scope", "label": "S", "children": [], "body": [],
                     "until": {"k": "flag", "n": "F"}}, flag_off, between=("scope.body-", "scope-")))
    rows.append(row("leave until(set flag) after a break point",
                    {"op": "scope", "label": "S", "children": [], "body": [],
                     "until": {"k": "flag", "n": "F"}}, flag_on, between=("scope.body-", "scope-")))
    late = {"op": "spawn", "into": "root", "actor": {"name": "late", "ops": [{"op": "now"}]}}
    KNOWN_ROWS.append(row("leave until(set flag) whose body made an activity runnable",
                          {"op": "scope", "label": "S", "children": [], "body": [late],
                           "until": {"k": "flag", "n": "F"}}, flag_on,
                          between=("scope.body-", "scope-")))
    rows.append(row("leave Scope whose body made an activity runnable",
                    {"op": "scope", "label": "S", "children": [], "body": [late]},
                    between=("scope.body-", "scope-")))
    # signalling operations with somebody waiting for the signal: the waiter is made runnable,
    # the signaller still has to yield ("hand over and return at once" is the tempting shortcut)
    def waiter(expr):
        return [{"name": "h", "ops": [{"op": "wait", "id": "hw", "x": expr}]}]
    settle = [{"op": "postpone", "k": 3}]
    rows.append(row("Flag.set(True) with a waiter on the flag",
                    {"op": "flag_set", "on": "F", "to": True}, {"F": {"kind": "flag"}},
                    helpers=waiter({"k": "flag", "n": "F"}), setup=settle))
    rows.append(row("Flag.set(False) with a waiter on its inverse",
                    {"op": "flag_set", "on": "F", "to": False}, {"F": {"kind": "flag", "init": True}},
                    helpers=waiter({"k": "not", "x": {"k": "flag", "n": "F"}}), setup=settle))
    rows.append(row("Flag.set(True) with an until-block guarded by it",
                    {"op": "flag_set", "on": "F", "to": True}, {"F": {"kind": "flag"}},
                    helpers=[{"name": "h", "ops": [{"op": "scope", "label": "HU", "children": [],
                                                    "until": {"k": "flag", "n": "F"},
                                                    "body": [{"op": "eternity"}]}]}],
                    setup=settle))
    rows.append(row("Tracked.set new with a waiter on a comparison",
                    {"op": "tr_set", "on": "X", "to": 5}, tracked,
                    helpers=waiter({"k": "cmp", "l": "X", "op": ">=", "r": 5}), setup=settle))
    rows.append(row("await (tracked + 1) with a waiter on a comparison",
                    {"op": "tr_add", "on": "X", "by": 1}, tracked,
                    helpers=waiter({"k": "cmp", "l": "X", "op": ">=", "r": 4}), setup=settle))
    rows.append(row("Queue.close with a receiver waiting", {"op": "close", "on": "Q"}, queue,
                    helpers=[{"name": "h", "ops": [{"op": "get", "on": "Q"}]}], setup=settle))
    rows.append(row("Queue.close with an iterating receiver waiting", {"op": "close", "on": "Q"},
                    queue, helpers=[{"name": "h", "ops": [{"op": "iter", "on": "Q"}]}],
                    setup=settle))
    rows.append(row("Channel.close with a consumer waiting", {"op": "close", "on": "C"}, channel,
                    helpers=[{"name": "h", "ops": [{"op": "get", "on": "C"}]}], setup=settle))
    rows.append(row("Channel.close with an iterating consumer waiting", {"op": "close", "on": "C"},
                    channel, helpers=[{"name": "h", "ops": [{"op": "iter", "on": "C"}]}],
                    setup=settle))
    hungry = [{"name": "h", "ops": [{"op": "borrow", "on": "R", "id": "hb", "mode": "borrow",
                                     "amounts": {"a": 4}, "body": []}]}]
    rows.append(row("Resources.increase with a borrower waiting for it",
                    {"op": "adjust", "on": "R", "how": "increase", "amounts": {"a": 2}},
                    {"R": {"kind": "resources", "levels": {"a": 2, "b": 2}}}, helpers=hungry,
                    setup=settle, between=("adjust+", "adjust-")))
    for kind in ("capacities", "resources"):
        rows.append(row("%s borrow exit with a borrower waiting for the amount" % kind,
                        {"op": "borrow", "on": "R", "id": "b", "mode": "borrow",
                         "amounts": {"a": 2}, "body": [{"op": "postpone", "k": 3}]},
                        {"R": {"kind": kind, "levels": {"a": 4, "b": 2}}},
                        helpers=[{"name": "h", "ops": [{"op": "postpone", "k": 2}] + hungry[0]["ops"]}],
                        between=("borrow.leave", "borrow.done")))
    rows.append(row("leave Scope with somebody awaiting the scope",
                    {"op": "scope", "label": "S", "children": [],
                     "body": [{"op": "postpone", "k": 3}]},
                    helpers=[{"name": "h", "ops": [{"op": "postpone", "k": 1},
                                                   {"op": "await_scope", "scope": "S"}]}],
                    between=("scope.body-", "scope-")))
    # blocks that are left by an exception or a signal are left all the same
    boom = {"op": "spawn", "into": "S", "actor": {"name": "boom", "ops": [{"op": "raise", "type": "E"}]}}
    rows.append(row("leave Scope (regular end of the body) whose child has just failed",
                    {"op": "try", "all": True, "body": [
                        {"op": "scope", "label": "S", "children": [],
                         "body": [boom, {"op": "postpone", "k": 1}]}]},
                    between=("scope.body-", "scope!")))
    for kind in ("capacities", "resources"):
        for mode in ("borrow", "claim"):
            held = {"op": "borrow", "on": "R", "id": "b", "mode": mode, "amounts": {"a": 2},
                    "body": [{"op": "flag_set", "on": "IN", "to": True}, {"op": "eternity"}]}
            inside = {"op": "wait", "id": "hin", "x": {"k": "flag", "n": "IN"}}
            supply = {"R": {"kind": kind, "levels": {"a": 4, "b": 2}}, "F": {"kind": "flag"},
                      "IN": {"kind": "flag"}}
            rows.append(row("%s %s exit by the interrupt of an enclosing until" % (kind, mode),
                            {"op": "scope", "label": "U", "children": [],
                             "until": {"k": "flag", "n": "F"}, "body": [held]}, supply,
                            helpers=[{"name": "h", "ops": [inside,
                                                           {"op": "flag_set", "on": "F", "to": True}]}],
                            between=(mode + ".leave", mode + "!")))
            rows.append(row("%s %s exit by the cancellation of the task" % (kind, mode), held,
                            {"R": {"kind": kind, "levels": {"a": 4, "b": 2}},
                             "IN": {"kind": "flag"}},
                            helpers=[{"name": "h", "ops": [inside,
                                                           {"op": "cancel", "task": "x",
                                                            "token": ["stop"]}]}],
                            between=(mode + ".leave", mode + "!")))
    rows.append(row("leave Scope with finished child",
                    {"op": "scope", "label": "S", "children": [{"name": "kid", "ops": []}],
                     "body": [{"op": "postpone", "k": 3}]}, between=("scope.body-", "scope-")))
    return rows


TABLE = table()


def build(index, rng, spec=None):
    spec = spec or TABLE[index % len(TABLE)]
    actors = []
    for helper in spec["helpers"]:
        actors.append(dict(helper))
    xops = []
    if rng.random() < 0.5:
        xops.append({"op": "postpone", "k": rng.randint(1, 3)})
    xops += spec["setup"]
    resources = dict(spec["resources"])
    if rng.random() < 0.2:
        # the operation follows, in the same turn, a postponement that was cut short by a signal
        # (an until-block whose notification holds already is interrupted at its first break
        # point): whatever that postponement left behind in the kernel must not serve as the
        # operation's own turn
        resources["PREF"] = {"kind": "flag", "init": True}
        xops.append({"op": "scope", "label": "PRE", "children": [],
                     "until": {"k": "flag", "n": "PREF"},
                     "body": [{"op": "postpone", "k": rng.randint(1, 2)}]})
    xops += [mark("mark+"), spec["op"], mark("mark-")]
    actors.append({"name": "x", "ops": xops})
    for i in range(rng.randint(1, 4)):
        ops = []
        if spec.get("spin_after"):
            ops.append({"op": "sleep", "d": spec["spin_after"]})
            ops.append({"op": "now", "tag": "spin"})
        for _ in range(rng.randint(0, 2) if not spec.get("spin_after") else 0):
            ops.append({"op": "postpone", "k": 1})
        for _ in range(40):
            ops.append({"op": "postpone", "k": 1})
            ops.append({"op": "now", "tag": "spin"})
        actors.append({"name": "spin%d" % i, "ops": ops})
    if rng.random() < 0.3:
        actors.append({"name": "other", "ops": [{"op": "postpone", "k": 2}, {"op": "now"},
                                                 {"op": "sleep", "d": 1}]})
    order = list(range(len(actors)))
    rng.shuffle(order)
    actors = [actors[i] for i in order]
    return {"property": ID, "row": spec["name"], "between": list(spec["between"]),
            "scenario": {"resources": resources, "actors": actors},
            "plan": [], "config": {"waitq": rng.choice(["heap", "sd"])}}


def generate_indexed(index, rng, tier):
    return build(index, rng)


def check(rec):
    out = []

    def bad(rule, msg):
        if len(out) < 5:
            out.append({"rule": "C20/" + rule, "msg": msg})

    for rule, msg in rec.kernel_violations:
        bad("kernel:" + rule, msg)
    if rec.outcome != ("ok",):
        bad("run-outcome", "run() ended with %r" % (rec.outcome,))
        return out
    start_kind, end_kind = rec.case["between"]
    name = rec.case.get("row", "?")
    spans = []
    if start_kind == "mark+":
        a = [i for i, ev in enumerate(rec.trace) if ev[3] == "x" and ev[4] == "now"
             and ev[5] == "mark+"]
        b = [i for i, ev in enumerate(rec.trace) if ev[3] == "x" and ev[4] == "now"
             and ev[5] == "mark-"]
        spans = list(zip(a, b))
    elif start_kind == end_kind:
        ticks = [i for i, ev in enumerate(rec.trace) if ev[3] == "x" and ev[4] == start_kind]
        spans = list(zip(ticks, ticks[1:]))
    else:
        a = [i for i, ev in enumerate(rec.trace) if ev[3] == "x" and ev[4] == start_kind]
        b = [i for i, ev in enumerate(rec.trace) if ev[3] == "x" and ev[4] == end_kind]
        spans = [(s, min([e for e in b if e > s], default=None)) for s in a]
    if not spans or any(e is None for _, e in spans):
        bad("operation-did-not-complete", "row %r: no start/end pair (%s .. %s) in the log"
            % (name, start_kind, end_kind))
        return out
    spinners = {}
    for i, ev in enumerate(rec.trace):
        if ev[3].startswith("spin") and ev[4] == "now":
            spinners.setdefault(ev[3], []).append(i)
    for s, e in spans:
        if rec.trace[s][2] != rec.trace[e][2]:
            continue                       # the clock advanced
        if rec.trace[s][1] == rec.trace[e][1] and rec.acts:
            # started and completed within one activation: nobody else can have run
            now, me = rec.trace[e][2], rec.trace[e][3]
            behind = [a for a in rec.acts[rec.trace[e][1]:] if a[1] == now and a[2] != me
                      and not a[2].startswith("~")]
            if behind:
                bad("no-yield", "row %r: %s completed at t=%r within one activation although %s "
                    "was runnable at that time" % (name, rec.trace[s][4], now, behind[0][2]))
                continue
        # the statement itself: whoever was runnable at that time when the operation started
        # (made runnable for this time step, not yet served) runs before it completes
        if rec.sched and rec.acts:
            now, me = rec.trace[s][2], rec.trace[s][3]
            t0, t1 = rec.trace[s][0], rec.trace[e][0]
            for tick_s, when, _, sig, due, ident in rec.sched:
                if tick_s > t0 or due != now or when != now:
                    continue
                # (targets are pinned for the whole run, so ids are not reused)
                turn = next((a for a in rec.acts if a[0] > tick_s and a[4] == ident
                             and a[3] == sig), None)
                who = turn[2] if turn is not None else "?"
                if who == me or who.startswith("~"):
                    continue               # kernel helpers run no program code
                if turn is not None and turn[1] == now and turn[0] > t1:
                    bad("no-yield", "row %r: %s was made runnable at t=%r (tick %d) before %s "
                        "started (tick %d) but got its turn only after it completed (tick %d > %d)"
                        % (name, who, now, tick_s, rec.trace[s][4], t0, turn[0], t1))
                    break
        for spinner, turns in spinners.items():
            if turns[0] < s and turns[-1] > e and not any(s < t < e for t in turns):
                bad("no-yield", "row %r: %s completed (log %d..%d, t=%r) without %s getting a turn"
                    % (name, rec.trace[s][4], s, e, rec.trace[s][2], spinner))
                break
    return out


def observe(rec):
    stats = {"probe.row.%s" % rec.case.get("row", "?"): 1}
    spinners = len([a for a in rec.case["scenario"]["actors"] if a["name"].startswith("spin")])
    sig = (rec.case.get("row"), spinners,
           tuple(a["name"] for a in rec.case["scenario"]["actors"]),
           tuple(len(a["ops"]) for a in rec.case["scenario"]["actors"]),
           rec.case["config"].get("waitq"))
    return {"stats": stats, "signature": sig, "nontrivial": True}


def probe_finding(finding):
    """F35: leaving an until-block through its own, long queued interrupt completes before
    activities that the body made runnable got their turn."""
    if finding["id"] != "F35":
        return False
    import random
    from ..world import execute, cleanup
    rec = execute(build(0, random.Random(7), spec=KNOWN_ROWS[0]))
    try:
        return any(v["rule"] == "C20/no-yield" for v in check(rec))
    finally:
        cleanup(rec)
