"""C13 Pipe shares throughput proportionally; transfers end at the fluid-model time."""
import math
from fractions import Fraction

from ..faults import CAGE_OF, fault_for

ID = "C13"
LEVEL = "exploration"
RULE = ("seeded programs on one Pipe (throughput 1/2, 1, 2, 3 or inf) or UnboundedPipe: 1-6 "
        "activities issue 1-2 transfers each with dyadic volumes (incl. 0), limits (None, below, "
        "equal to and above the pipe's throughput) and overlapping start times; 0-2 transfers "
        "are cancelled / until-interrupted / closed at seeded kernel events or by a killer "
        "activity at a dyadic time; later transfers act as probes. Non-trivial = at least two "
        "transfers overlapped in time with total demand above the throughput, or a transfer was "
        "torn down; distinct = distinct (pipe, transfer parameters, start and end times).")
BUDGET = {"quick": {"cases": 120000, "wall_s": 240, "chunk": 200},
          "thorough": {"cases": 1000000, "wall_s": 1500, "chunk": 500}}
ASSUMPTIONS = ["observed start and departure times are fed to the model as exact rationals; "
               "completion times may differ from the model by 1e-9 relative (float rounding of "
               "the windowed implementation)"]
LEVEL_TEXT = ("Exploration: completion time of every transfer compared with an exact rational "
              "processor-sharing (fluid) model driven by the observed start and departure "
              "instants; zero-volume and infinite-throughput transfers must complete in the time "
              "step they start; a torn-down transfer must stop occupying bandwidth at once "
              "(visible in the completion times of all later and concurrent transfers).")
LEVEL_NOTE = "Trusts the fluid model in usimdst/props/C13.py (fluid) and the interpreter."
TECHNIQUE = "deterministic simulation, seeded transfer schedules with injected teardown, exact rational fluid model"

VOLUMES = [0, 0.5, 1, 1, 2, 3, 4, 6, 8]
STARTS = [0, 0, 0.25, 0.5, 1, 1, 2, 3, 4]
INF = math.inf
EPS = Fraction(1, 10 ** 12)


def _decimal(rng):
    """3-6 transfers started together on a congested pipe with limits and volumes that are not
    exactly representable (0.1, 0.2, 0.3, ...): sums of limits depend on the order of addition in
    the last bits, so whatever the pipe iterates over must have an order of its own - C02 compares
    these programs across heap layouts, C13 compares them with the fluid model."""
    actors = []
    for i in range(rng.randint(3, 6)):
        actors.append({"name": "t%d" % i, "ops": [
            {"op": "transfer", "on": "P", "id": "x%d" % i,
             "total": rng.choice([0.3, 0.7, 1.1, 1.9, 2.3]),
             "tp": rng.choice([0.1, 0.2, 0.3, 0.7, 1.1, None])},
            {"op": "now"}]})
    return {"property": ID,
            "scenario": {"resources": {"P": {"kind": "pipe",
                                             "throughput": rng.choice([0.3, 0.5, 0.7])}},
                         "actors": actors},
            "plan": [], "config": {"waitq": rng.choice(["heap", "sd"])}}


def generate(rng, tier):
    if rng.random() < 0.12:
        return _decimal(rng)
    kind = "pipe" if rng.random() < 0.88 else "upipe"
    tp = rng.choice([0.5, 1, 1, 2, 3, "inf"]) if kind == "pipe" else "inf"
    limits = [None, None, 0.25, 0.5, 1, 2, 3, 4, 8]
    actors = []
    serial = 0
    names = []
    for i in range(rng.randint(1, 6)):
        ops = []
        start = rng.choice(STARTS)
        if start:
            ops.append({"op": "sleep", "d": start})
        for _ in range(rng.choice([1, 1, 2])):
            serial += 1
            ops.append({"op": "transfer", "on": "P", "id": "x%d" % serial,
                        "total": rng.choice(VOLUMES), "tp": rng.choice(limits)})
            if kind == "pipe" and tp != "inf" and rng.random() < 0.15 and not start \
                    and len(ops) == 1:
                # (only as an activity's first transfer at time 0: started an ulp before another
                # transfer's completion it would starve that one's last 1e-15 of volume for its
                # whole duration - rounding amplified by 18 orders of magnitude, not a finding)
                # a practically unlimited transfer (limit 2**60) next to ordinary ones: sums of
                # limits in which the small ones are absorbed by float rounding
                ops[-1]["tp"] = 2.0 ** 60
                ops[-1]["total"] = rng.choice([0.5, 1, 2])
            r2 = rng.random()
            if r2 < 0.1:
                ops[-1]["defer"] = [{"op": "sleep", "d": rng.choice([0.25, 0.5, 1, 2])}]
            elif r2 < 0.14:
                ops[-1]["abandon"] = True
                ops[-1]["defer"] = [{"op": "postpone", "k": 1}] if rng.random() < 0.5 else []
            if rng.random() < 0.3:
                ops.append({"op": "postpone", "k": 1})
        ops.append({"op": "now"})
        name = "t%d" % i
        names.append(name)
        actors.append({"name": name, "ops": ops})
    plan = []
    r = rng.random()
    if r < 0.45:
        for _ in range(rng.randint(1, 2)):
            victim = rng.choice(names)
            kind_f = rng.choice(["cancel", "cancel", "interrupt", "close"])
            cage = CAGE_OF[kind_f]
            spec = next(a for a in actors if a["name"] == victim)
            if cage and spec.get("cage") not in (None, cage):
                continue
            if cage:
                spec["cage"] = cage
            tick = rng.randint(3, 70) if rng.random() < 0.6 else \
                3 + int(math.exp(rng.uniform(0.0, math.log(600.0))))     # a third run past tick 70
            plan.append(fault_for(kind_f, victim, tick))
    if r > 0.7:
        victim = rng.choice(names)
        actors.append({"name": "killer", "ops": [
            {"op": "sleep", "d": rng.choice([0.25, 0.5, 1, 1.5, 2, 3])},
            {"op": "cancel", "task": victim, "token": ["killer"]}]})
    if kind == "pipe" and tp != "inf" and rng.random() < 0.15:
        # background load: a transfer of infinite volume (with a finite limit) that occupies its
        # share until it is cancelled - it never completes by itself
        serial += 1
        actors.insert(rng.randint(0, len(actors)), {"name": "bg", "ops": [
            {"op": "transfer", "on": "P", "id": "x%d" % serial, "total": "inf",
             "tp": rng.choice([0.5, 1, 2])}]})
        actors.append({"name": "bgkill", "ops": [
            {"op": "sleep", "d": rng.choice([0.5, 1, 2, 3, 5, 8])},
            {"op": "cancel", "task": "bg", "token": ["enough"]}]})
    spec = {"kind": kind}
    if kind == "pipe":
        spec["throughput"] = tp
    resources = {"P": spec}
    if rng.random() < 0.25:
        # a second, unrelated pipe that is busy at the same time
        resources["P2"] = {"kind": "pipe", "throughput": rng.choice([0.5, 1, 2])}
        for i in range(rng.randint(1, 2)):
            ops = []
            start2 = rng.choice(STARTS)
            if start2:
                ops.append({"op": "sleep", "d": start2})
            for _ in range(rng.choice([1, 2])):
                serial += 1
                ops.append({"op": "transfer", "on": "P2", "id": "y%d" % serial,
                            "total": rng.choice([1, 2, 3, 4, 6]),
                            "tp": rng.choice([None, 0.5, 1, 2])})
            actors.append({"name": "o%d" % i, "ops": ops})
    scenario = {"resources": resources, "actors": actors}
    if rng.random() < 0.1:
        scenario["reuse_objects"] = True      # the program runs twice around the same Pipe objects
    return {"property": ID, "scenario": scenario,
            "plan": plan, "config": {"waitq": rng.choice(["heap", "sd"])}}


def fluid(throughput, jobs):
    """Exact processor-sharing model. jobs: {id: (start, volume, limit, depart or None)};
    returns {id: completion time (Fraction) or None if departed / never}."""
    remaining = {}
    done = {}
    pending = sorted(jobs, key=lambda j: jobs[j][0])
    now = None
    active = []
    while pending or active:
        if not active:
            now = jobs[pending[0]][0]
        # admit arrivals at `now`
        while pending and jobs[pending[0]][0] <= now:
            job = pending.pop(0)
            remaining[job] = jobs[job][1]
            active.append(job)
        # departures and zero-volume completions at `now`
        for job in list(active):
            start, volume, limit, depart = jobs[job]
            if volume != INF and remaining[job] <= EPS * max(volume, 1):
                # (observed instants are floats: a start that is "the same moment" as a
                # completion may lie an ulp before it; what is left then is rounding, not work -
                # it matters once limits differ by many orders of magnitude)
                done[job] = now
                active.remove(job)
            elif depart is not None and depart <= now:
                done[job] = None
                active.remove(job)
        if not active:
            continue
        rates = {}
        finite = [jobs[j][2] for j in active]
        if any(l == INF for l in finite):
            # unbounded demand: finite pipe gives everything to ... not generated
            raise ValueError("infinite limit on a finite pipe is not modelled")
        demand = sum(finite)
        scale = 1 if throughput == INF or demand <= throughput else Fraction(throughput) / demand
        for job in active:
            rates[job] = jobs[job][2] * scale
        horizon = []
        for job in active:
            horizon.append(now + remaining[job] / rates[job])
            if jobs[job][3] is not None:
                horizon.append(jobs[job][3])
        if pending:
            horizon.append(jobs[pending[0]][0])
        nxt = min(horizon)
        for job in active:
            remaining[job] -= rates[job] * (nxt - now)
            if remaining[job] < 0:
                remaining[job] = Fraction(0)
        now = nxt
    return done



def run_case(case):
    """One run - or, for `repeat` cases, two runs of the same program (same faults) around the same
    Pipe objects: a replication must find them as idle as the first run did."""
    import sys
    from ..runner import run_one
    from ..world import SHARED_CONDITIONS
    P = sys.modules[__name__]
    if not case["scenario"].get("reuse_objects"):
        return run_one(P, case)
    SHARED_CONDITIONS.clear()
    try:
        first = run_one(P, case)
        if first.violations:
            return first
        second = run_one(P, case)
        for violation in second.violations:
            violation["msg"] = "second run around the same objects: " + violation["msg"]
        second.ticks += first.ticks
        second.stats = dict(second.stats or {})
        second.stats["probe.second-runs-with-reused-objects"] = 1
        return second
    finally:
        SHARED_CONDITIONS.clear()


def check(rec):
    out = []

    def bad(rule, msg):
        if len(out) < 5:
            out.append({"rule": "C13/" + rule, "msg": msg})

    for rule, msg in rec.kernel_violations:
        if rule.startswith("C01/schedule-into-past"):
            continue
        bad("kernel:" + rule, msg)
    if rec.outcome != ("ok",):
        bad("run-outcome", "run() ended with %r" % (rec.outcome,))
        return out
    for pname, spec in rec.case["scenario"]["resources"].items():
        if spec.get("kind") in ("pipe", "upipe"):
            _check_pipe(rec, pname, spec, bad)      # every pipe on its own
    faulted = rec.world.faulted
    for spec_a in rec.case["scenario"]["actors"]:
        actor = spec_a["name"]
        evs = [ev for ev in rec.trace if ev[3] == actor]
        if any(ev[4] == "end" for ev in evs):
            continue
        cancelled = actor in faulted or any(
            ev[4] == "cancel" and ev[5] == actor for ev in rec.trace)
        if not cancelled:
            bad("stuck", "%s never finished" % actor)
    return out


def _check_pipe(rec, pname, spec, bad):
    throughput = INF if spec["kind"] == "upipe" or spec.get("throughput") == "inf" \
        else Fraction(spec["throughput"])
    begun, ended, torn = {}, {}, {}
    params = {}
    for ev in rec.trace:
        if ev[4].startswith("transfer") and ev[5] != pname:
            continue
        if ev[4] == "transfer+":
            begun[ev[6]] = ev[2]
            params[ev[6]] = (ev[7], ev[8], ev[3])
        elif ev[4] == "transfer-":
            ended[ev[6]] = ev[2]
        elif ev[4] == "transfer!":
            torn[ev[6]] = ev[2]
    jobs = {}
    unbounded = spec["kind"] == "upipe"
    for ident, start in begun.items():
        total, limit, actor = params[ident]
        if total == "inf":
            total = INF
        if limit is None:
            limit = throughput
        if limit == INF or unbounded and limit is None:
            # takes no time at all
            if ident in ended and ended[ident] != start:
                bad("unbounded-took-time", "%s: unlimited transfer of %r started %r ended %r"
                    % (ident, total, start, ended[ident]))
            continue
        limit = Fraction(limit)
        if unbounded:
            expect = Fraction(start) + Fraction(total) / limit
            if ident in ended and not _close(ended[ident], expect):
                bad("completion-time", "%s on UnboundedPipe: expected end %s, observed %r"
                    % (ident, float(expect), ended[ident]))
            continue
        depart = Fraction(torn[ident]) if ident in torn else None
        if total == INF:
            if ident in ended:
                bad("infinite-transfer-completed", "%s: a transfer of infinite volume (limit %s) "
                    "started %r completed at %r" % (ident, limit, start, ended[ident]))
                depart = Fraction(ended[ident])
            jobs[ident] = (Fraction(start), INF, limit, depart)
            continue
        jobs[ident] = (Fraction(start), Fraction(total), limit, depart)
    if jobs:
        model = fluid(throughput, jobs)
        for ident, expect in model.items():
            start = begun[ident]
            if expect is None:
                continue
            if ident in torn:
                if Fraction(torn[ident]) < expect and not _close(torn[ident], expect):
                    continue
            if ident not in ended:
                if ident in torn:
                    continue
                bad("never-completed", "%s (%r) started %r should complete at %s but never did"
                    % (ident, params[ident][:2], start, float(expect)))
            elif not _close(ended[ident], expect):
                bad("completion-time", "%s (volume %r, limit %r, pipe %s) started %r: expected "
                    "end %s, observed %r" % (ident, params[ident][0], params[ident][1],
                                              spec.get("throughput"), start, float(expect),
                                              ended[ident]))
            if jobs[ident][1] == 0 and ident in ended and ended[ident] != start:
                bad("zero-volume-took-time", "%s started %r ended %r" % (ident, start,
                                                                         ended[ident]))


def _close(observed, expected):
    expected = float(expected)
    return abs(observed - expected) <= 1e-9 * max(1.0, abs(expected))


def observe(rec):
    stats = {}
    spans = []
    begun = {}
    items = []
    for ev in rec.trace:
        if ev[4] == "transfer+":
            begun[ev[6]] = (ev[2], ev[7], ev[8])
        elif ev[4] in ("transfer-", "transfer!"):
            start = begun.get(ev[6])
            if start:
                spans.append((start[0], ev[2], start[2]))
                items.append((ev[6], start, ev[4], ev[2]))
            if ev[4] == "transfer!":
                stats["fault.observed-inside-transfer"] = \
                    stats.get("fault.observed-inside-transfer", 0) + 1
    overlap = False
    spec = rec.case["scenario"]["resources"]["P"]
    tp = spec.get("throughput")
    for i, a in enumerate(spans):
        for b in spans[i + 1:]:
            if a[0] < b[1] and b[0] < a[1]:
                la = a[2] if a[2] is not None else tp
                lb = b[2] if b[2] is not None else tp
                if tp not in (None, "inf") and la != "inf" and lb != "inf" and la + lb > tp:
                    overlap = True
    if overlap:
        stats["probe.congested"] = 1
    for tick, fault, outcome in rec.fired:
        key = "fault.%s.injected" % fault.get("as", fault["kind"])
        stats[key] = stats.get(key, 0) + 1
    sig = (repr(spec), tuple(items))
    return {"stats": stats, "signature": sig,
            "nontrivial": overlap or "fault.observed-inside-transfer" in stats}
