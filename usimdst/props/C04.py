"""C04 No task outlives its scope (structured concurrency containment)."""
import random

from ..faults import sweep, iter_actors
from ..gen_scopes import Gen, structure

ID = "C04"
LEVEL = "fault_enumeration"
RULE = ("seeded trees of Scope / until blocks (depth <= 3) with volatile and non-volatile "
        "children, grandchildren, start delays, children that await the end of their scope and "
        "then spawn siblings, spawns from outside and into ended scopes, bodies and children "
        "that raise; run fault-free and once per (victim, kind, kernel event): the owner of the "
        "outermost scope is cancelled / interrupted / closed and up to 3 descendants are "
        "cancelled. Non-trivial = some scope was left while children were still alive or a "
        "fault was observed by its victim; distinct = distinct (event sequence per actor, fault "
        "position).")
BUDGET = {"quick": {"cases": 900, "wall_s": 240, "chunk": 2, "per_group": 30},
          "thorough": {"cases": 4000, "wall_s": 1500, "chunk": 5, "per_group": 400}}
ASSUMPTIONS = ["the owner logs the exit in the same activation in which the block ends, so any "
               "later event of a descendant is code running after the scope"]
LEVEL_TEXT = ("Fault enumeration: for each seeded scope tree the exit cause (cancel, until-"
              "interrupt or forceful close of the owner; cancel of a descendant; plus the "
              "scenario's own failures, notifications and late spawns) is injected at every "
              "kernel event (sampled to 30 per victim and kind in quick). After every block exit: "
              "no descendant logs anything later, every child handle is done, a normal exit "
              "implies every non-volatile, not individually cancelled child (late spawns "
              "included) ran to its last statement, volatile children are closed only after "
              "their non-volatile siblings finished, and spawning into an ended scope is refused "
              "without running the payload.")
LEVEL_NOTE = "Trusts the seam's event order and the interpreter's logging wrappers."
TECHNIQUE = "deterministic simulation, fault sweep over kernel events, containment monitor over the event history"

SIGNAL_NAMES = ("CancelTask", "CancelScope", "GeneratorExit")
SUPPRESSED = ("TaskCancelled", "TaskClosed", "VolatileTaskClosed")


def _closed_at_its_deadline(rng):
    """Directed shape: an until-block is closed from above in the very time step of its own
    deadline, before that deadline's trigger has had its turn (the ancestor's wake-up for that date
    was queued first): the block must still take its children with it. The enclosing scope ends
    at that date because its body fails, because it is an until-block for the same date itself,
    or because its owner is cancelled then."""
    date = rng.choice([0.5, 1, 2])
    inner_until = rng.choice([{"k": "time", "op": "==", "t": date},
                              {"k": "time", "op": ">=", "t": date},
                              {"k": "delay", "d": date},
                              {"k": "time", "op": "==", "t": date}])
    ticks = []
    for _ in range(rng.randint(3, 6)):
        ticks += [{"op": "sleep", "d": rng.choice([0.25, 0.5])}, {"op": "now", "tag": "tick"}]
    grand = [{"name": "g1", "ops": ticks}]
    if rng.random() < 0.5:
        grand.append({"name": "g2", "volatile": True, "ops": ticks[:4] + [{"op": "eternity"}]})
    inner = {"op": "scope", "label": "S2", "until": inner_until, "children": grand,
             "body": [rng.choice([{"op": "eternity"}, {"op": "sleep", "d": 64}])]}
    child_ops = [inner, {"op": "now", "tag": "after-inner"}]
    if rng.random() < 0.3:
        child_ops.insert(0, {"op": "postpone", "k": rng.randint(1, 2)})
    kids = [{"name": "c1", "ops": child_ops}]
    if rng.random() < 0.4:
        kids.append({"name": "c2", "ops": [{"op": "sleep", "d": 64}]})
    how = rng.choice(["raise", "until", "cancel"])
    outer = {"op": "scope", "label": "S1", "children": kids,
             "body": [{"op": "sleep", "d": date}, {"op": "raise", "type": "E"}]}
    actors = []
    if how == "until":
        outer["until"] = {"k": "time", "op": rng.choice([">=", "=="]), "t": date}
        outer["body"] = [{"op": "sleep", "d": 64}]
    elif how == "cancel":
        outer["body"] = [{"op": "sleep", "d": 64}]
        actors.append({"name": "killer", "ops": [{"op": "sleep", "d": date},
                                                 {"op": "cancel", "task": "own", "token": ["k"]}]})
    own = {"name": "own", "ops": [{"op": "try", "all": True, "body": [outer]},
                                  {"op": "now", "tag": "after"}, {"op": "sleep", "d": 4},
                                  {"op": "now", "tag": "final"}]}
    actors.append(own)          # (the killer sleeps first: its wake-up precedes the deadline's)
    return {"property": ID, "scenario": {"resources": {}, "actors": actors}, "plan": [],
            "config": {"waitq": rng.choice(["heap", "sd"])}, "victims": ["c1"]}


def generate(rng, tier):
    if rng.random() < 0.06:
        return _closed_at_its_deadline(rng)
    gen = Gen(rng, fail_rate=0.08, priv_rate=0.1, until_rate=0.3, max_depth=2)
    scenario, label = gen.program()
    return {"property": ID, "scenario": scenario, "plan": [],
            "config": {"waitq": rng.choice(["heap", "sd"])},
            "victims": [n for n in gen.actors if n.startswith("c")]}


def explore(case, base, rng, tier, one):
    per_group = BUDGET[tier]["per_group"]
    sweep(case, base, rng, one, ["own"], ("cancel", "interrupt", "close"), per_group)
    names = list(case.get("victims") or ())
    rng.shuffle(names)
    sweep(case, base, rng, one, names[:3], ("cancel",), per_group)


def check(rec):
    out = []

    def bad(rule, msg):
        if len(out) < 5:
            out.append({"rule": "C04/" + rule, "msg": msg})

    for rule, msg in rec.kernel_violations:
        bad("kernel:" + rule, msg)
    if rec.outcome[0] == "abort":
        bad("run-outcome", "run() ended with %r" % (rec.outcome,))
    owner, children, volatile, descendants = structure(rec)
    faulted = rec.world.faulted
    events_of = {}
    for ev in rec.trace:
        events_of.setdefault(ev[3], []).append(ev)
    cancelled = set(faulted)
    for ev in rec.trace:
        if ev[4] == "cancel":
            cancelled.add(ev[5])
    # refused spawns never run
    for ev in rec.trace:
        if ev[4] == "spawn.refused":
            name = ev[6]
            if any(e[4] == "start" for e in events_of.get(name, ())):
                bad("refused-payload-ran", "%s was refused by ended scope %s but ran" % (name, ev[5]))
            if len(ev) > 7 and ev[7] not in (None, "CORO_CLOSED"):
                bad("refused-payload-not-closed", "%s was refused by ended scope %s but its "
                    "coroutine was left %s instead of being discarded" % (name, ev[5], ev[7]))
    exits = [ev for ev in rec.trace if ev[4] in ("scope-", "scope!")]
    body_ok = {ev[5] for ev in rec.trace if ev[4] == "scope.body-"}
    is_until = set()
    for spec_label, until in _until_labels(rec.case["scenario"]):
        if until:
            is_until.add(spec_label)
    for ev in exits:
        tick, label = ev[0], ev[5]
        desc = descendants(label)
        for name in sorted(desc):
            late = [e for e in events_of.get(name, ()) if e[0] > tick]
            if late:
                bad("outlived", "%s (in scope %s, left at tick %d, t=%r) still acted at tick %d, "
                    "t=%r: %s" % (name, label, tick, ev[2], late[0][0], late[0][2], late[0][4]))
        # children spawned into the scope after it ended
        for sp in rec.trace:
            if sp[4] == "spawn" and sp[6] == label and sp[0] > tick:
                bad("spawn-after-end", "%s was accepted by scope %s after it had ended"
                    % (sp[5], label))
    for ev in rec.trace:
        if ev[4] == "scope.children":
            alive = [c for c in ev[6] if not c[2]]
            if alive:
                bad("child-not-done", "scope %s left while %r not done" % (ev[5], alive))
    # an outside activity awaiting the scope resumes when its body is over (any way)
    for ev in rec.trace:
        if ev[4] == "await_scope+" and ev[3] == "watcher":
            over = next((e for e in rec.trace if e[4] in ("scope.body-", "scope.body!")
                         and e[5] == ev[5]), None)
            if over is None or over[0] < ev[0] or "watcher" in faulted:
                continue
            resumed = next((e for e in rec.trace if e[4] == "await_scope-" and e[3] == "watcher"),
                           None)
            if rec.outcome[0] == "abort":
                continue
            if resumed is None:
                bad("await-scope-never-resumed", "watcher awaits scope %s whose body ended at "
                    "t=%r (%s) but was never resumed" % (ev[5], over[2], over[4]))
            elif resumed[2] != over[2]:
                bad("await-scope-late", "scope %s body ended at t=%r, its awaiter resumed at t=%r"
                    % (ev[5], over[2], resumed[2]))
    # normal exits are complete
    payload_kids = {spec["name"] for spec in iter_actors(rec.case["scenario"])
                    if spec.get("payload") is not None}
    statuses = {}
    for ev in rec.trace:
        if ev[4] == "scope.children":
            statuses.setdefault(ev[5], {}).update({c[0]: c[1] for c in ev[6]})
    for ev in exits:
        label = ev[5]
        if ev[4] != "scope-" or label not in body_ok:
            continue
        if label in is_until and _may_have_fired(rec, label, ev):
            continue
        kids = children.get(label, ())
        failed = [k for k in kids for e in events_of.get(k, ())
                  if e[4] == "exc" and e[5] and e[5][0] not in SIGNAL_NAMES]
        if failed:
            continue
        for kid in kids:
            if kid in volatile or kid in cancelled:
                continue
            evs = events_of.get(kid, ())
            if kid in payload_kids:
                status = statuses.get(label, {}).get(kid)
                if status not in (None, "SUCCESS"):
                    bad("incomplete-child", "scope %s ended normally at t=%r but its child %s (a "
                        "notification as payload) is %s" % (label, ev[2], kid, status))
            elif not any(e[4] == "end" for e in evs):
                last = evs[-1][4:] if evs else "never started"
                bad("incomplete-child", "scope %s ended normally at t=%r but non-volatile child %s "
                    "did not finish (last: %r)" % (label, ev[2], kid, last))
        last_regular = max([e[0] for k in kids if k not in volatile
                            for e in events_of.get(k, ())] or [0])
        for kid in kids:
            if kid in volatile:
                closing = [e for e in events_of.get(kid, ())
                           if e[4] == "exc" and e[5] and e[5][0] == "GeneratorExit"]
                if closing and closing[0][0] < last_regular and kid not in cancelled:
                    bad("volatile-closed-early", "volatile %s of scope %s closed at tick %d before "
                        "its non-volatile siblings finished (tick %d)"
                        % (kid, label, closing[0][0], last_regular))
    return out


def _may_have_fired(rec, label, exit_ev):
    """Could the notification of until-block `label` have fired by the time the block was left?
    (Then unfinished children are legitimate; otherwise the block ended like a plain scope.)"""
    spec = next((node for node in _scope_nodes(rec.case["scenario"]) if node["label"] == label), None)
    until = (spec or {}).get("until")
    entry = next((e for e in rec.trace if e[4] == "scope+" and e[5] == label), None)
    if not isinstance(until, dict) or entry is None:
        return True
    kind = until.get("k")
    try:
        if kind == "delay":
            return entry[2] + float(until["d"]) <= exit_ev[2]
        if kind == "time" and until.get("op") in (">=", "=="):
            return float(until["t"]) <= exit_ev[2]
        if kind == "flag":
            return any(e[4] == "flag_set+" and e[5] == until["n"] and e[0] <= exit_ev[0]
                       for e in rec.trace) or \
                bool((rec.case["scenario"].get("resources") or {}).get(until["n"], {}).get("init"))
    except (TypeError, ValueError, KeyError):
        return True
    return True


def _scope_nodes(node):
    if isinstance(node, dict):
        if node.get("op") == "scope":
            yield node
        for value in node.values():
            yield from _scope_nodes(value)
    elif isinstance(node, list):
        for item in node:
            yield from _scope_nodes(item)


def _until_labels(node):
    if isinstance(node, dict):
        if node.get("op") == "scope":
            yield node["label"], node.get("until") is not None
        for value in node.values():
            yield from _until_labels(value)
    elif isinstance(node, list):
        for item in node:
            yield from _until_labels(item)


def observe(rec):
    stats = {}
    per_actor = {}
    for ev in rec.trace:
        per_actor.setdefault(ev[3], []).append(ev[4])
        if ev[4] == "exc" and ev[5] and ev[5][0] in SIGNAL_NAMES:
            key = "fault.observed.%s" % ev[5][0]
            stats[key] = stats.get(key, 0) + 1
        if ev[4] == "spawn.refused":
            stats["probe.spawn-refused"] = stats.get("probe.spawn-refused", 0) + 1
        if ev[4] == "scope!":
            stats["probe.scope-raised"] = stats.get("probe.scope-raised", 0) + 1
    torn = 0
    for ev in rec.trace:
        if ev[4] == "scope.children":
            closed = [c for c in ev[6] if c[1] == "CANCELLED"]
            if closed:
                torn += 1
    if torn:
        stats["probe.scope-left-with-live-children"] = torn
    for tick, fault, outcome in rec.fired:
        key = "fault.%s.injected" % fault.get("as", fault["kind"])
        stats[key] = stats.get(key, 0) + 1
    plan = tuple((f.get("as", f["kind"]), f.get("victim"), f["tick"])
                 for f in rec.case.get("plan") or ())
    sig = (tuple(sorted((k, tuple(v)) for k, v in per_actor.items())), plan)
    return {"stats": stats, "signature": sig,
            "nontrivial": bool(torn) or any(k.startswith("fault.observed") for k in stats)}
