"""C09 Lock: mutual exclusion, re-entrancy, FIFO hand-off, always released."""
from ..faults import sweep

ID = "C09"
LEVEL = "fault_enumeration"
RULE = ("seeded scenarios of 2-5 contenders x 1-2 locks (re-entrant nesting <= 3, holds of 0-3 "
        "postponements or a dyadic delay, same-turn arrivals, re-requests, availability probes); "
        "each scenario is run fault-free and then once per (victim, kind in cancel/interrupt/"
        "close, kernel event) with the fault injected at that event. A run is non-trivial when "
        "at least one contender had to wait for a lock; distinct = distinct sequence of "
        "(actor, lock event) in activation order including the fault position.")
BUDGET = {"quick": {"cases": 500, "wall_s": 100, "chunk": 2, "per_group": 30},
          "thorough": {"cases": 4000, "wall_s": 1500, "chunk": 5, "per_group": 400}}
ASSUMPTIONS = ["a designated next owner (hand-off decided, not yet resumed) counts as holding"]

DELAYS = [0.25, 0.5, 1, 1.5, 2]


def _hold(rng, lock_index, n_locks, depth):
    body = []
    for _ in range(rng.choice([1, 1, 2])):
        r = rng.random()
        if r < 0.3:
            body.append({"op": "postpone", "k": rng.randint(0, 3)})
        elif r < 0.55:
            body.append({"op": "sleep", "d": rng.choice(DELAYS)})
        elif r < 0.8 and depth < 3:
            inner = rng.randint(lock_index, n_locks - 1)
            body.append({"op": "lock", "on": "L%d" % inner,
                         "body": _hold(rng, inner, n_locks, depth + 1)})
        else:
            body.append({"op": "avail", "on": "L%d" % rng.randrange(n_locks)})
    return body


def generate(rng, tier):
    n_locks = rng.choice([1, 1, 2])
    n_actors = rng.randint(2, 5)
    resources = {"L%d" % i: {"kind": "lock"} for i in range(n_locks)}
    actors = []
    for i in range(n_actors):
        ops = []
        r = rng.random()
        if r < 0.3:
            ops.append({"op": "postpone", "k": rng.randint(1, 2)})
        elif r < 0.5:
            ops.append({"op": "sleep", "d": rng.choice(DELAYS)})
        for _ in range(rng.randint(1, 3)):
            index = rng.randrange(n_locks)
            ops.append({"op": "lock", "on": "L%d" % index,
                        "body": _hold(rng, index, n_locks, 1)})
            r = rng.random()
            if r < 0.25:
                ops.append({"op": "postpone", "k": 1})
            elif r < 0.4:
                ops.append({"op": "sleep", "d": rng.choice(DELAYS)})
            elif r < 0.5:
                ops.append({"op": "avail", "on": "L%d" % rng.randrange(n_locks)})
        actors.append({"name": "a%d" % i, "ops": ops})
    prober = []
    for i in range(n_locks):
        prober.append({"op": "avail", "on": "L%d" % i})
        prober.append({"op": "lock", "on": "L%d" % i, "body": [{"op": "avail", "on": "L%d" % i}]})
    actors.append({"name": "zprobe", "after": 4096, "ops": prober})
    return {"property": ID, "scenario": {"resources": resources, "actors": actors},
            "plan": [], "config": {"waitq": rng.choice(["heap", "sd"])}}


def explore(case, base, rng, tier, one):
    victims = [a["name"] for a in case["scenario"]["actors"] if a["name"] != "zprobe"]
    sweep(case, base, rng, one, victims, ("cancel", "interrupt", "close"),
          BUDGET[tier]["per_group"], pairs=BUDGET[tier]["per_group"])


SIGNALS = {"cancel": "CancelTask", "interrupt": "CancelScope", "close": "GeneratorExit"}


def check(rec):
    out = []

    def bad(rule, msg):
        out.append({"rule": "C09/" + rule, "msg": msg})

    for rule, msg in rec.kernel_violations:
        bad("kernel:" + rule, msg)
    if rec.outcome != ("ok",):
        bad("run-outcome", "run() ended with %r" % (rec.outcome,))
    world = rec.world
    faulted = world.faulted
    locks = {}

    def excused(actor, tick):
        return any(t <= tick for t, _ in faulted.get(actor, ()))

    ended, excs = set(), {}
    for ev in rec.trace:
        tick, act, now, actor, kind = ev[:5]
        if kind == "end":
            ended.add(actor)
        elif kind == "exc":
            excs[actor] = ev[5]
        if not kind.startswith("lock."):
            continue
        name = ev[5]
        st = locks.setdefault(name, {"holder": None, "depth": 0, "waiting": [], "req": {},
                                     "req_time": {}})
        if kind == "lock.req":
            st["req"][actor] = act
            st["req_time"][actor] = now
            if st["holder"] is not None and st["holder"] != actor or \
                    (st["holder"] is None and st["waiting"]):
                st["waiting"].append(actor)
        elif kind == "lock.enter":
            if st["holder"] is not None and st["holder"] != actor:
                bad("mutex", "%s entered %s at tick %d while %s is inside"
                    % (actor, name, tick, st["holder"]))
            if actor in st["waiting"]:
                ahead = st["waiting"][:st["waiting"].index(actor)]
                overtaken = [w for w in ahead if not excused(w, tick)]
                if overtaken:
                    bad("fifo", "%s obtained %s before %s who asked earlier"
                        % (actor, name, overtaken))
                st["waiting"].remove(actor)
            else:
                if st["req_time"].get(actor) != now:
                    bad("waited-for-free-lock",
                        "%s asked for %s at t=%r while it was %s but entered only at t=%r"
                        % (actor, name, st["req_time"].get(actor),
                           "its own" if st["holder"] == actor else "free", now))
            st["holder"] = actor
            st["depth"] += 1
        elif kind == "lock.leave":
            if st["holder"] != actor:
                bad("leave-by-non-owner", "%s leaves %s held by %s" % (actor, name, st["holder"]))
            st["depth"] -= 1
            if st["depth"] <= 0:
                st["depth"] = 0
                st["holder"] = None
        elif kind == "lock.abort":
            if actor in st["waiting"]:
                st["waiting"].remove(actor)
            if not excused(actor, tick):
                bad("abort-without-fault", "%s failed to acquire %s: %r" % (actor, name, ev[6]))
        elif kind == "lock.avail":
            in_flight = any(excused(w, tick) for w in st["waiting"]) or \
                (st["holder"] is not None and excused(st["holder"], tick)
                 and st["holder"] != actor)
            expect = st["holder"] == actor or (st["holder"] is None and not st["waiting"])
            if ev[6] != expect and not in_flight:
                bad("available", "%s sees %s.available=%r but holder=%r waiting=%r"
                    % (actor, name, ev[6], st["holder"], st["waiting"]))
    # liveness / fate of every contender
    for spec in rec.case["scenario"]["actors"]:
        actor = spec["name"]
        if actor in ended:
            continue
        kinds = [k for _, k in faulted.get(actor, ())]
        if not kinds:
            bad("lost-handoff" if actor != "zprobe" else "not-free-at-quiescence",
                "%s never finished (last: %r); locks=%r" % (
                    actor, excs.get(actor, "still blocked"),
                    {k: (v["holder"], v["waiting"]) for k, v in locks.items()}))
        else:
            meta = excs.get(actor)
            started = any(e[3] == actor and e[4] == "start" for e in rec.trace)
            if not started:
                if rec.final_status.get(actor) != "CANCELLED":
                    bad("faulted-actor-stuck", "%s never started but is %s"
                        % (actor, rec.final_status.get(actor)))
            elif meta is None:
                bad("faulted-actor-stuck", "%s neither finished nor was torn down" % actor)
            elif meta[0] not in [SIGNALS[k] for k in kinds]:
                bad("unexpected-exception", "%s ended with %r after %r" % (actor, meta, kinds))
    for name, st in locks.items():
        if st["holder"] is not None or st["waiting"]:
            bad("not-free-at-quiescence", "%s: holder=%r waiting=%r at end"
                % (name, st["holder"], st["waiting"]))
    return out


def observe(rec):
    sig = []
    waited = False
    states = set()
    holder = {}
    req_act = {}
    for ev in rec.trace:
        kind = ev[4]
        if kind.startswith("lock."):
            sig.append((ev[3], kind, ev[5]))
            if kind == "lock.req":
                req_act[(ev[3], ev[5])] = ev[1]
            if kind == "lock.enter" and req_act.get((ev[3], ev[5])) != ev[1]:
                waited = True
    stats = {}
    for tick, fault, outcome in rec.fired:
        kind = fault.get("as", fault["kind"])
        stats["fault.%s.injected" % kind] = stats.get("fault.%s.injected" % kind, 0) + 1
    hit = {}
    for ev in rec.trace:
        if ev[4] == "exc" and ev[5] and ev[5][0] in SIGNALS.values():
            hit[ev[5][0]] = hit.get(ev[5][0], 0) + 1
        if ev[4] == "lock.abort":
            stats["probe.fault-while-waiting"] = stats.get("probe.fault-while-waiting", 0) + 1
    for key, value in hit.items():
        stats["fault.observed.%s" % key] = value
    if waited:
        stats["probe.contended"] = 1
    plan = rec.case.get("plan") or []
    sig.append(tuple((f.get("as", f["kind"]), f.get("victim"), f["tick"]) for f in plan))
    # abstract lock states reached: (held?, depth, waiters, a fault is in flight?)
    model = {}
    fault_ticks = sorted(t for v in rec.world.faulted.values() for t, _ in v) \
        if rec.world is not None else []
    for ev in rec.trace:
        kind = ev[4]
        if not kind.startswith("lock.") or kind == "lock.avail":
            continue
        st = model.setdefault(ev[5], [0, 0])       # depth, waiting
        if kind == "lock.req":
            st[1] += 1
        elif kind == "lock.enter":
            st[0] += 1
            st[1] = max(0, st[1] - 1)
        elif kind == "lock.leave":
            st[0] = max(0, st[0] - 1)
        elif kind == "lock.abort":
            st[1] = max(0, st[1] - 1)
        in_flight = any(t <= ev[0] for t in fault_ticks)
        states.add((min(st[0], 3), min(st[1], 4), in_flight, kind))
    return {"stats": stats, "signature": tuple(sig), "nontrivial": waited,
            "states": sorted(states)}

LEVEL_TEXT = ("Fault enumeration: for each seeded contention scenario a cancel / until-interrupt / "
              "forceful close is injected at every kernel event (activation start or schedule "
              "call; sampled down to 30 per victim and kind in the quick tier, all in thorough) of "
              "every contender, and the observed enter/leave/abort history is checked against a "
              "sequential lock model (mutual exclusion, re-entrancy, FIFO among unfaulted "
              "waiters, availability, hand-off never lost, free at quiescence). Complete over "
              "fault positions within a sampled scenario; a sample over scenarios.")
LEVEL_NOTE = ("Trusts the seam's event numbering and the scenario interpreter; scenarios are "
              "deadlock-free by construction (locks acquired in index order).")
TECHNIQUE = "deterministic simulation, fault sweep over kernel events, sequential lock model"
