"""C09 Lock: mutual exclusion, re-entrancy, FIFO hand-off, always released."""
from .. import mixed
from ..faults import sweep

ID = "C09"
MIXED_SHARE = 0.2
LEVEL = "fault_enumeration"
RULE = ("seeded scenarios of 2-5 contenders x 1-2 locks (re-entrant nesting <= 3, holds of 0-3 "
        "postponements or a dyadic delay, same-turn arrivals, re-requests, availability probes); "
        "each scenario is run fault-free and then once per (victim, kind in cancel/interrupt/"
        "close, kernel event) with the fault injected at that event. A run is non-trivial when "
        "at least one contender had to wait for a lock; distinct = distinct sequence of "
        "(actor, lock event) in activation order including the fault position."
        " A fifth of the scenarios are `mixed` programs (usimdst/mixed.py): two locks, a "
        "queue, a channel and a capacity supply used by the same activities in nested "
        "blocks. After the single-fault sweep, seeded pairs of cancels and seeded fault "
        "sequences of mixed kinds (2-3 victims, each with its own kind) are run as well; "
        "a tenth of the budget runs under python -O.")
BUDGET = {"quick": {"cases": 500, "wall_s": 240, "chunk": 2, "per_group": 30},
          "thorough": {"cases": 4000, "wall_s": 1500, "chunk": 5, "per_group": 400}}
ASSUMPTIONS = ["a designated next owner (hand-off decided, not yet resumed) counts as holding"]

DELAYS = [0.25, 0.5, 1, 1.5, 2]


def _hold(rng, lock_index, n_locks, depth):
    body = []
    for _ in range(rng.choice([1, 1, 2])):
        r = rng.random()
        if r < 0.3:
            body.append({"op": "postpone", "k": rng.randint(0, 3)})
        elif r < 0.55:
            body.append({"op": "sleep", "d": rng.choice(DELAYS)})
        elif r < 0.8 and depth < 3:
            inner = rng.randint(lock_index, n_locks - 1)
            body.append({"op": "lock", "on": "L%d" % inner,
                         "body": _hold(rng, inner, n_locks, depth + 1)})
        else:
            body.append({"op": "avail", "on": "L%d" % rng.randrange(n_locks)})
    return body


def generate(rng, tier):
    if rng.random() < MIXED_SHARE:
        # the primitive inside blocks of the other primitives (usimdst/mixed.py)
        return mixed.generate(rng, ID)
    n_locks = rng.choice([1, 1, 2])
    n_actors = rng.randint(2, 5)
    resources = {"L%d" % i: {"kind": "lock"} for i in range(n_locks)}
    actors = []
    for i in range(n_actors):
        ops = []
        r = rng.random()
        if r < 0.3:
            ops.append({"op": "postpone", "k": rng.randint(1, 2)})
        elif r < 0.5:
            ops.append({"op": "sleep", "d": rng.choice(DELAYS)})
        for j in range(rng.randint(1, 3)):
            index = rng.randrange(n_locks)
            block = {"op": "lock", "on": "L%d" % index, "body": _hold(rng, index, n_locks, 1)}
            r = rng.random()
            if r < 0.2:
                # the block is left by an ordinary exception of its body (handled outside)
                block["body"].append({"op": "raise", "type": rng.choice(["E", "K", "Z"])})
                block = {"op": "try", "body": [block], "handler": []}
            elif r < 0.45:
                # a patient contender: gives up after a while (waiting, designated or inside) and
                # carries on - it asks again later, as a new contender at the end of the line
                block = {"op": "scope", "label": "T%d_%d" % (i, j), "children": [],
                         "until": {"k": "delay", "d": rng.choice(DELAYS)}, "body": [block]}
            ops.append(block)
            r = rng.random()
            if r < 0.25:
                ops.append({"op": "postpone", "k": 1})
            elif r < 0.4:
                ops.append({"op": "sleep", "d": rng.choice(DELAYS)})
            elif r < 0.5:
                ops.append({"op": "avail", "on": "L%d" % rng.randrange(n_locks)})
        actors.append({"name": "a%d" % i, "ops": ops})
    prober = []
    for i in range(n_locks):
        prober.append({"op": "avail", "on": "L%d" % i})
        prober.append({"op": "lock", "on": "L%d" % i, "body": [{"op": "avail", "on": "L%d" % i}]})
    actors.append({"name": "zprobe", "after": 4096, "ops": prober})
    scenario = {"resources": resources, "actors": actors}
    if rng.random() < 0.12:
        scenario["reuse_objects"] = True      # the program runs twice around the same Lock objects
    return {"property": ID, "scenario": scenario,
            "plan": [], "config": {"waitq": rng.choice(["heap", "sd"])}}



def run_case(case):
    """One run - or, for `repeat` cases, two runs of the same program (same faults) around the same
    Lock objects: a replication must find them as idle as the first run did."""
    import sys
    from ..runner import run_one
    from ..world import SHARED_CONDITIONS
    P = sys.modules[__name__]
    if not case["scenario"].get("reuse_objects"):
        return run_one(P, case)
    SHARED_CONDITIONS.clear()
    try:
        first = run_one(P, case)
        if first.violations:
            return first
        second = run_one(P, case)
        for violation in second.violations:
            violation["msg"] = "second run around the same objects: " + violation["msg"]
        second.ticks += first.ticks
        second.stats = dict(second.stats or {})
        second.stats["probe.second-runs-with-reused-objects"] = 1
        return second
    finally:
        SHARED_CONDITIONS.clear()


def explore(case, base, rng, tier, one):
    victims = [a["name"] for a in case["scenario"]["actors"] if a["name"] != "zprobe"]
    if case.get("family") == "mixed":
        victims = mixed.victims(case)
    sweep(case, base, rng, one, victims, ("cancel", "interrupt", "close"),
          BUDGET[tier]["per_group"], pairs=BUDGET[tier]["per_group"])


SIGNALS = {"cancel": "CancelTask", "interrupt": "CancelScope", "close": "GeneratorExit"}


def check(rec):
    out = []

    def bad(rule, msg):
        out.append({"rule": "C09/" + rule, "msg": msg})

    for rule, msg in rec.kernel_violations:
        bad("kernel:" + rule, msg)
    if rec.outcome != ("ok",):
        bad("run-outcome", "run() ended with %r" % (rec.outcome,))
    world = rec.world
    faulted = world.faulted
    locks = {}

    def excused(actor, tick):
        return any(t <= tick for t, _ in faulted.get(actor, ()))

    ended, excs = set(), {}
    for ev in rec.trace:
        tick, act, now, actor, kind = ev[:5]
        if kind == "end":
            ended.add(actor)
        elif kind == "exc":
            excs[actor] = ev[5]
        if not kind.startswith("lock."):
            continue
        name = ev[5]
        st = locks.setdefault(name, {"holder": None, "depth": 0, "waiting": [], "since": None})
        # model: the lock belongs to the first who asked while it was free and to the longest
        # waiting contender when it is given up; ``depth`` counts the blocks the owner is inside
        # (0: designated owner that has not got its turn yet)

        def pass_on():
            st["depth"] = 0
            if st["waiting"]:
                st["holder"], st["since"] = st["waiting"].pop(0), now
            else:
                st["holder"], st["since"] = None, None

        if kind == "lock.req":
            if st["holder"] is None:
                st["holder"], st["since"] = actor, now
            elif st["holder"] != actor:
                st["waiting"].append(actor)
        elif kind == "lock.enter":
            holder = st["holder"]
            if holder != actor:
                if holder is not None and st["depth"] > 0:
                    bad("mutex", "%s entered %s at tick %d while %s is inside"
                        % (actor, name, tick, holder))
                elif holder is not None and not excused(holder, tick):
                    bad("fifo", "%s obtained %s before %s who asked earlier"
                        % (actor, name, [holder]))
                else:
                    ahead = st["waiting"][:st["waiting"].index(actor)] \
                        if actor in st["waiting"] else []
                    overtaken = [w for w in ahead if not excused(w, tick)]
                    if overtaken:
                        bad("fifo", "%s obtained %s before %s who asked earlier"
                            % (actor, name, overtaken))
                if actor in st["waiting"]:
                    st["waiting"].remove(actor)
                st["holder"], st["since"], st["depth"] = actor, now, 0
            elif st["depth"] == 0 and st["since"] != now and not excused(actor, tick):
                bad("waited-for-free-lock",
                    "%s was entitled to %s since t=%r but entered only at t=%r"
                    % (actor, name, st["since"], now))
            st["depth"] += 1
        elif kind == "lock.leave":
            if st["holder"] != actor or st["depth"] <= 0:
                bad("leave-by-non-owner", "%s leaves %s held by %s (depth %d)"
                    % (actor, name, st["holder"], st["depth"]))
            else:
                st["depth"] -= 1
                if st["depth"] == 0:
                    pass_on()
        elif kind == "lock.abort":
            if actor in st["waiting"]:
                st["waiting"].remove(actor)
            elif st["holder"] == actor and st["depth"] == 0:
                pass_on()             # designated owner torn down before its turn
            timeout = ev[6] is not None and ev[6][0] == "CancelScope" and \
                str(ev[6][1]).startswith("scope:T")       # the contender's own patience ran out
            if not excused(actor, tick) and not timeout:
                bad("abort-without-fault", "%s failed to acquire %s: %r" % (actor, name, ev[6]))
        elif kind == "lock.avail":
            in_flight = any(excused(w, tick) for w in st["waiting"]) or \
                (st["holder"] is not None and excused(st["holder"], tick)
                 and st["holder"] != actor)
            expect = st["holder"] == actor or st["holder"] is None
            if ev[6] != expect and not in_flight:
                bad("available", "%s sees %s.available=%r but owner=%r (depth %d) waiting=%r"
                    % (actor, name, ev[6], st["holder"], st["depth"], st["waiting"]))
    # liveness / fate of every contender
    for spec in rec.case["scenario"]["actors"]:
        actor = spec["name"]
        if actor in ended:
            continue
        kinds = [k for _, k in faulted.get(actor, ())]
        if not kinds:
            bad("lost-handoff" if actor != "zprobe" else "not-free-at-quiescence",
                "%s never finished (last: %r); locks=%r" % (
                    actor, excs.get(actor, "still blocked"),
                    {k: (v["holder"], v["waiting"]) for k, v in locks.items()}))
        else:
            meta = excs.get(actor)
            started = any(e[3] == actor and e[4] == "start" for e in rec.trace)
            if not started:
                if rec.final_status.get(actor) != "CANCELLED":
                    bad("faulted-actor-stuck", "%s never started but is %s"
                        % (actor, rec.final_status.get(actor)))
            elif meta is None:
                bad("faulted-actor-stuck", "%s neither finished nor was torn down" % actor)
            elif meta[0] not in [SIGNALS[k] for k in kinds]:
                bad("unexpected-exception", "%s ended with %r after %r" % (actor, meta, kinds))
    for name, st in locks.items():
        if st["holder"] is not None or st["waiting"]:
            bad("not-free-at-quiescence", "%s: holder=%r waiting=%r at end"
                % (name, st["holder"], st["waiting"]))
    return out


def observe(rec):
    sig = []
    waited = False
    states = set()
    holder = {}
    req_act = {}
    for ev in rec.trace:
        kind = ev[4]
        if kind.startswith("lock."):
            sig.append((ev[3], kind, ev[5]))
            if kind == "lock.req":
                req_act[(ev[3], ev[5])] = ev[1]
            if kind == "lock.enter" and req_act.get((ev[3], ev[5])) != ev[1]:
                waited = True
    stats = {}
    for tick, fault, outcome in rec.fired:
        kind = fault.get("as", fault["kind"])
        stats["fault.%s.injected" % kind] = stats.get("fault.%s.injected" % kind, 0) + 1
    hit = {}
    for ev in rec.trace:
        if ev[4] == "exc" and ev[5] and ev[5][0] in SIGNALS.values():
            hit[ev[5][0]] = hit.get(ev[5][0], 0) + 1
        if ev[4] == "lock.abort":
            stats["probe.fault-while-waiting"] = stats.get("probe.fault-while-waiting", 0) + 1
    for key, value in hit.items():
        stats["fault.observed.%s" % key] = value
    if waited:
        stats["probe.contended"] = 1
    plan = rec.case.get("plan") or []
    sig.append(tuple((f.get("as", f["kind"]), f.get("victim"), f["tick"]) for f in plan))
    # abstract lock states reached: (held?, depth, waiters, a fault is in flight?)
    model = {}
    fault_ticks = sorted(t for v in rec.world.faulted.values() for t, _ in v) \
        if rec.world is not None else []
    for ev in rec.trace:
        kind = ev[4]
        if not kind.startswith("lock.") or kind == "lock.avail":
            continue
        st = model.setdefault(ev[5], [0, 0])       # depth, waiting
        if kind == "lock.req":
            st[1] += 1
        elif kind == "lock.enter":
            st[0] += 1
            st[1] = max(0, st[1] - 1)
        elif kind == "lock.leave":
            st[0] = max(0, st[0] - 1)
        elif kind == "lock.abort":
            st[1] = max(0, st[1] - 1)
        in_flight = any(t <= ev[0] for t in fault_ticks)
        states.add((min(st[0], 3), min(st[1], 4), in_flight, kind))
    return {"stats": stats, "signature": tuple(sig), "nontrivial": waited,
            "states": sorted(states)}

LEVEL_TEXT = ("Fault enumeration: for each seeded contention scenario a cancel / until-interrupt / "
              "forceful close is injected at every kernel event (activation start or schedule "
              "call; sampled down to 30 per victim and kind in the quick tier, all in thorough) of "
              "every contender, and the observed enter/leave/abort history is checked against a "
              "sequential lock model (mutual exclusion, re-entrancy, FIFO among unfaulted "
              "waiters, availability, hand-off never lost, free at quiescence). Complete over "
              "fault positions within a sampled scenario; a sample over scenarios.")
LEVEL_NOTE = ("Trusts the seam's event numbering and the scenario interpreter; scenarios are "
              "deadlock-free by construction (locks acquired in index order).")
TECHNIQUE = "deterministic simulation, fault sweep over kernel events, sequential lock model"
