"""C12 Resources are conserved: never negative, never leaked, claims never wait."""
from .. import mixed
from ..faults import sweep

ID = "C12"
MIXED_SHARE = 0.2
LEVEL = "fault_enumeration"
RULE = ("seeded scenarios on one Capacities or Resources supply with 1-2 named integer "
        "resources: 2-5 borrowers/claimants (amounts, holds, nested borrowing from the share), "
        "for Resources an adjuster doing guarded increase/decrease/set; run fault-free and once "
        "per (borrower, kind in cancel/interrupt/close, kernel event). supply.levels is sampled "
        "before every activation. Non-trivial = a borrower had to wait or a fault struck inside "
        "acquire/hold/release; distinct = distinct sequence of (actor, resource event, amounts) "
        "plus fault position."
        " A fifth of the scenarios are `mixed` programs (usimdst/mixed.py): two locks, a "
        "queue, a channel and a capacity supply used by the same activities in nested "
        "blocks. After the single-fault sweep, seeded pairs of cancels and seeded fault "
        "sequences of mixed kinds (2-3 victims, each with its own kind) are run as well; "
        "a tenth of the budget runs under python -O.")
BUDGET = {"quick": {"cases": 400, "wall_s": 240, "chunk": 2, "per_group": 25},
          "thorough": {"cases": 3500, "wall_s": 1500, "chunk": 5, "per_group": 400}}
ASSUMPTIONS = ["a block torn down by a signal may take until the end of the current time step "
               "to have returned its resources (the forceful-close path schedules the return)"]
LEVEL_TEXT = ("Fault enumeration: cancel / until-interrupt / forceful close at every kernel event "
              "(sampled to 25 per victim and kind in quick) of every borrower and claimant - "
              "including the postponements inside acquire and release; before every activation "
              "the available level is compared with the interval [supply - acquiring - held - "
              "releasing, supply - held], exactly supply - held whenever the clock advances and "
              "at quiescence; claims are compared with availability at their first activation; "
              "no satisfiable borrower may be left waiting when the clock advances.")
LEVEL_NOTE = ("Trusts the seam's event order, the interpreter and the public `levels` property "
              "read between activations.")
TECHNIQUE = ("deterministic simulation, fault sweep over kernel events, conservation interval "
             "invariant sampled at every activation")

DELAYS = [0.25, 0.5, 1, 1.5, 2]


def _gap(rng, ops, p=0.55):
    r = rng.random()
    if r < 0.3:
        ops.append({"op": "postpone", "k": rng.randint(1, 3)})
    elif r < p:
        ops.append({"op": "sleep", "d": rng.choice(DELAYS)})


def _amounts(rng, caps, allow_over=False):
    keys = list(caps)
    if len(keys) > 1 and rng.random() < 0.4:
        keys = [rng.choice(keys)]
    out = {}
    for key in keys:
        hi = caps[key] + (2 if allow_over and rng.random() < 0.2 else 0)
        out[key] = rng.randint(0 if rng.random() < 0.1 else 1, max(1, hi))
    return out


def generate(rng, tier):
    if rng.random() < MIXED_SHARE:
        # the primitive inside blocks of the other primitives (usimdst/mixed.py)
        return mixed.generate(rng, ID)
    kind = rng.choice(["capacities", "resources"])
    caps = {key: rng.randint(2, 6) for key in (["a"] if rng.random() < 0.6 else ["a", "b"])}
    serial = [0]

    def borrow_op(supply_caps, depth, nested=None):
        serial[0] += 1
        ident = "b%d" % serial[0]
        amounts = _amounts(rng, supply_caps,
                           allow_over=(kind == "resources" and nested is None))
        mode = "borrow" if rng.random() < 0.72 else "claim"
        body = []
        _gap(rng, body, 0.7)
        op = {"op": "borrow", "on": "R", "id": ident, "amounts": amounts, "mode": mode,
              "body": body}
        if nested:
            op["nested"] = nested
        if rng.random() < 0.15:
            # `c = supply.claim(...)` / `b = supply.borrow(...)` made now, entered later
            op["defer"] = []
            _gap(rng, op["defer"], 1.0)
        if depth < 2 and rng.random() < 0.3 and any(amounts.values()):
            share = "S" + ident
            op["share"] = share
            for _ in range(rng.randint(1, 2)):
                inner_caps = {k: v for k, v in amounts.items() if v > 0}
                inner = borrow_op(inner_caps, depth + 1, nested=share)
                if rng.random() < 0.3:
                    # a tenant: a volatile child of a scope inside the block borrows from the
                    # share and is still holding when that scope ends (forceful close)
                    inner["body"].append({"op": "sleep", "d": 64})
                    body.append({"op": "scope", "label": "T" + inner["id"], "body": [
                        {"op": "sleep", "d": rng.choice([0.25, 0.5, 1])}], "children": [
                        {"name": "k" + inner["id"], "volatile": True, "ops": [inner]}]})
                else:
                    body.append(inner)
                _gap(rng, body, 0.4)
            if rng.random() < 0.3:
                # the share is contended: children of a scope inside the block borrow from it at
                # overlapping times (what one gives back must reach the one who waits for it)
                kids = []
                for j in range(rng.randint(2, 3)):
                    inner_caps = {k: v for k, v in amounts.items() if v > 0}
                    inner = borrow_op(inner_caps, 2, nested=share)
                    inner["body"].append({"op": "sleep", "d": rng.choice([0.25, 0.5, 1])})
                    kid_ops = []
                    _gap(rng, kid_ops, 0.5)
                    kid_ops.append(inner)
                    kids.append({"name": "m%s_%d" % (ident, j), "ops": kid_ops})
                body.append({"op": "scope", "label": "C" + ident, "children": kids, "body": []})
        return op

    actors = []
    for i in range(rng.randint(2, 5)):
        ops = []
        _gap(rng, ops, 0.5)
        for _ in range(rng.randint(1, 2)):
            block = borrow_op(caps, 0)
            if rng.random() < 0.12:
                # the block is left by an ordinary exception of its body (handled outside)
                block["body"].append({"op": "raise", "type": rng.choice(["E", "K", "Z"])})
                block = {"op": "try", "body": [block], "handler": []}
            ops.append(block)
            _gap(rng, ops, 0.4)
        actors.append({"name": "u%d" % i, "ops": ops})
    no_adjust = False
    if rng.random() < 0.15:
        # one context object (`lease = supply.borrow(...)`) entered by several blocks: by two
        # activities at overlapping times, or nested in one activity
        amounts = {key: rng.randint(1, max(1, value // 2)) for key, value in caps.items()}
        serial[0] += 1
        group = "lease%d" % serial[0]

        def lease_op(body):
            serial[0] += 1
            return {"op": "borrow", "on": "R", "id": "b%d" % serial[0], "amounts": dict(amounts),
                    "mode": "borrow", "ctx": group, "body": body}
        if rng.random() < 0.5:
            # (nested in one activity: it waits for the second entry while holding the first, so
            # the supply must not shrink meanwhile - no adjuster in these scenarios; found by the
            # thorough tier as a legitimate deadlock of the *program*)
            no_adjust = True
            body = []
            _gap(rng, body, 0.7)
            inner = lease_op(body)
            outer_body = []
            _gap(rng, outer_body, 0.5)
            outer_body.append(inner)
            _gap(rng, outer_body, 0.5)
            ops = []
            _gap(rng, ops, 0.5)
            ops.append(lease_op(outer_body))
            actors.append({"name": "u%d" % len(actors), "ops": ops})
        else:
            for _ in range(rng.randint(2, 3)):
                ops, body = [], []
                _gap(rng, ops, 0.6)
                _gap(rng, body, 0.8)
                ops.append(lease_op(body))
                if rng.random() < 0.3:
                    _gap(rng, ops, 0.8)
                    body = []
                    _gap(rng, body, 0.8)
                    ops.append(lease_op(body))
                actors.append({"name": "u%d" % len(actors), "ops": ops})
    if kind == "resources" and rng.random() < 0.7 and not no_adjust:
        ops = []
        for _ in range(rng.randint(1, 4)):
            _gap(rng, ops, 0.9)
            how = rng.choice(["increase", "decrease", "set"])
            amounts = {key: rng.randint(0, 3) for key in caps if rng.random() < 0.8} or \
                {"a": 1}
            ops.append({"op": "adjust", "on": "R", "how": how, "amounts": amounts})
        actors.append({"name": "adj", "ops": ops})
    rng.shuffle(actors)
    # what a block borrowed is a resource supply of its own only while the block lasts: once all
    # blocks have ended, a claim on any of those shares (kept by reference) finds nothing
    shares = []

    def find_shares(node):
        if isinstance(node, dict):
            if node.get("op") == "borrow" and node.get("share"):
                shares.append((node["share"], node["amounts"]))
            for value in node.values():
                find_shares(value)
        elif isinstance(node, list):
            for item in node:
                find_shares(item)
    find_shares(actors)
    if shares and rng.random() < 0.6:
        ops = []
        for share, amounts in rng.sample(shares, min(len(shares), 2)):
            positive = {k: v for k, v in amounts.items() if v > 0}
            if positive:
                serial[0] += 1
                ops.append({"op": "borrow", "on": "R", "nested": share, "id": "b%d" % serial[0],
                            "amounts": {k: rng.randint(1, v) if isinstance(v, int) else v
                                        for k, v in positive.items()},
                            "mode": "claim", "late": True, "body": [{"op": "postpone", "k": 1}]})
        if ops:
            actors.append({"name": "zlate", "after": 2048, "ops": ops})
    actors.append({"name": "zprobe", "after": 4096, "ops": [{"op": "levels", "on": "R"}]})
    if rng.random() < 0.12:
        # fractional (dyadic) amounts: float levels instead of int levels
        def halve(node):
            if isinstance(node, dict):
                if "amounts" in node:
                    node["amounts"] = {k: v * 0.5 for k, v in node["amounts"].items()}
                for value in node.values():
                    halve(value)
            elif isinstance(node, list):
                for item in node:
                    halve(item)
        halve(actors)
        caps = {k: v * 0.5 for k, v in caps.items()}
    if rng.random() < 0.08 and all(isinstance(v, int) for v in caps.values()):
        # a huge supply next to small amounts (bytes of memory against small buffers): nobody
        # ever waits, but every single unit must still be accounted for
        caps = {k: v + 2 ** 34 for k, v in caps.items()}
        serial[0] += 1
        actors.insert(0, {"name": "u%d" % len(actors), "ops": [
            {"op": "sleep", "d": rng.choice(DELAYS)},
            {"op": "borrow", "on": "R", "id": "b%d" % serial[0], "amounts": dict(caps),
             "mode": "claim", "body": [{"op": "postpone", "k": 1}]}]})
    return {"property": ID,
            "scenario": {"resources": {"R": {"kind": kind, "levels": caps}}, "actors": actors},
            "plan": [], "config": {"waitq": rng.choice(["heap", "sd"])}}


def explore(case, base, rng, tier, one):
    victims = [a["name"] for a in case["scenario"]["actors"] if a["name"].startswith("u")]
    if case.get("family") == "mixed":
        victims = mixed.victims(case)
    sweep(case, base, rng, one, victims, ("cancel", "interrupt", "close"),
          BUDGET[tier]["per_group"], pairs=BUDGET[tier]["per_group"])


SIGNALS = {"cancel": "CancelTask", "interrupt": "CancelScope", "close": "GeneratorExit"}
MODES = ("borrow", "claim")


class Monitor:
    """Accounting model fed by the actors' log, compared with supply.levels at boundaries."""

    def __init__(self, world):
        self.world = world
        self.pos = 0
        self.supplies = {}     # name -> {"S": {key: value}, "lo": {...}, "hi": {...}}
        self.blocks = {}       # ident -> {"on", "amounts", "phase", "actor", "mode"}
        self.adjusting = {}    # actor -> (name, delta)
        self.last_time = None
        self.bad = world.monitor_violations
        self.waited = False
        self.struck = set()
        self.states = set()

    def __call__(self, seam, loop, target, signal):
        world = self.world
        if "R" not in world.res:
            return
        if "R" not in self.supplies:
            spec = world.scenario["resources"]["R"]
            self.supplies["R"] = {"S": dict(spec["levels"])}
        self.absorb()
        now = loop.time
        advanced = self.last_time is not None and now != self.last_time
        self.last_time = now
        if advanced:
            for ident in [i for i, b in self.blocks.items() if b["phase"] == "torn"]:
                del self.blocks[ident]
        self.compare(advanced, seam.tick)

    def absorb(self):
        trace = self.world.trace
        while self.pos < len(trace):
            ev = trace[self.pos]
            self.pos += 1
            kind = ev[4]
            mode, _, what = kind.partition(".")
            if kind.endswith("!") and kind[:-1] in MODES:
                mode, what = kind[:-1], "!"
            if mode in MODES:
                name, ident, amounts = ev[5], ev[6], ev[7]
                if what == "req":
                    self.blocks[ident] = {"on": name, "amounts": amounts, "phase": "acquiring",
                                          "actor": ev[3], "mode": mode, "req_time": ev[2],
                                          "req_act": ev[1], "levels": ev[8]}
                elif what == "enter":
                    block = self.blocks[ident]
                    block["phase"] = "held"
                    if name.startswith("S") and name not in self.supplies and \
                            any(v > 0 for v in amounts.values()):
                        self.bad.append(("borrowed-from-ended-share",
                                         "%s: %s %s of %r from share %s was granted although the "
                                         "block that borrowed the share is not entered (ended or "
                                         "never entered)" % (ev[3], mode, ident, amounts, name)))
                    if ev[1] != block["req_act"]:
                        self.waited = True
                    if block["mode"] == "claim" and ev[2] != block["req_time"]:
                        self.bad.append(("claim-waited", "%s: claim %s asked at %r, entered at %r"
                                         % (ev[3], ident, block["req_time"], ev[2])))
                    if block["mode"] == "claim" and not _fits(amounts, block["levels"]):
                        self.bad.append(("claim-granted-unavailable",
                                         "%s: claim %s of %r entered with only %r available"
                                         % (ev[3], ident, amounts, block["levels"])))
                    if ev[8]:
                        self.supplies[ev[8]] = {"S": dict(amounts)}
                elif what == "leave":
                    self.blocks[ident]["phase"] = "releasing"
                    if ev[8]:
                        self.supplies.pop(ev[8], None)
                elif what == "done":
                    self.blocks.pop(ident, None)
                elif what == "unavailable":
                    block = self.blocks.pop(ident, None)
                    if block is None:
                        self.bad.append(("claim-refused-before-entry",
                                         "%s: claim %s of %r raised ResourcesUnavailable before "
                                         "the block was entered (when the claim was made)"
                                         % (ev[3], ident, amounts)))
                    if block and _fits(amounts, block["levels"]):
                        self.bad.append(("claim-refused-available",
                                         "%s: claim %s of %r refused with %r available"
                                         % (ev[3], ident, amounts, block["levels"])))
                    if block and ev[1] != block["req_act"]:
                        self.bad.append(("claim-waited", "%s: claim %s suspended before failing"
                                         % (ev[3], ident)))
                elif what in ("abort", "!"):
                    if ident in self.blocks:
                        self.struck.add(self.blocks[ident]["phase"])
                        self.blocks[ident]["phase"] = "torn"
            elif kind == "adjust+":
                name, how, amounts, before = ev[5], ev[6], ev[7], ev[8]
                if how == "increase":
                    delta = dict(amounts)
                elif how == "decrease":
                    delta = {k: -v for k, v in amounts.items()}
                else:
                    delta = {k: v - before[k] for k, v in amounts.items()}
                self.adjusting[ev[3]] = (name, delta)
            elif kind in ("adjust-", "adjust!"):
                name, delta = self.adjusting.pop(ev[3])
                supply = self.supplies[name]["S"]
                for key, value in delta.items():
                    supply[key] += value

    def compare(self, advanced, tick):
        world = self.world
        for name, model in self.supplies.items():
            obj = world.res.get(name)
            if obj is None:
                continue
            levels = dict(obj.levels)
            for key, total in model["S"].items():
                lo = hi = total
                for _, (aname, delta) in self.adjusting.items():
                    if aname == name and key in delta:
                        lo += min(0, delta[key])
                        hi += max(0, delta[key])
                held = busy = 0
                for block in self.blocks.values():
                    if block["on"] != name:
                        continue
                    amount = block["amounts"].get(key, 0)
                    if block["phase"] == "held":
                        held += amount
                    else:
                        busy += amount
                level = levels[key]
                if level < 0:
                    self.bad.append(("negative", "%s.%s = %r at tick %d" % (name, key, level, tick)))
                if advanced:
                    if level != total - held:
                        self.bad.append((
                            "leak" if level < total - held else "overdraft",
                            "%s.%s = %r when the clock advanced to %r, but supply %r - held %r"
                            " = %r" % (name, key, level, self.last_time, total, held,
                                       total - held)))
                elif not (lo - held - busy <= level <= hi - held):
                    self.bad.append((
                        "interval", "%s.%s = %r at tick %d outside [%r, %r] (supply %r, held %r, "
                        "in transit %r)" % (name, key, level, tick, lo - held - busy, hi - held,
                                            total, held, busy)))
            if advanced:
                for ident, block in self.blocks.items():
                    if block["on"] == name and block["phase"] == "acquiring" \
                            and block["mode"] == "borrow" and _fits(block["amounts"], levels):
                        self.bad.append((
                            "borrower-left-waiting",
                            "%s waits for %r of %s although %r is available as the clock "
                            "advances to %r" % (block["actor"], block["amounts"], name, levels,
                                                self.last_time)))
        # shares (what a block borrowed, from which nested blocks borrow) are resources too
        for name, obj in world.res.items():
            if name.startswith("S") and name not in self.supplies:
                for key, level in dict(obj.levels).items():
                    if level < 0:
                        self.bad.append(("negative", "share %s.%s = %r at tick %d"
                                         % (name, key, level, tick)))
        phases = [b["phase"] for b in self.blocks.values()]
        self.states.add((min(phases.count("acquiring"), 3), min(phases.count("held"), 3),
                         min(phases.count("releasing"), 2), min(phases.count("torn"), 2),
                         advanced))
        if len(self.bad) > 10:
            del self.bad[10:]


def _fits(amounts, levels):
    return all(levels.get(key, 0) >= value for key, value in amounts.items())


def setup(world):
    monitor = Monitor(world)
    world.notes["monitor"] = monitor
    world.seam.monitors.append(monitor)


def check(rec):
    out = []

    def bad(rule, msg):
        if len(out) < 5:
            out.append({"rule": "C12/" + rule, "msg": msg})

    for rule, msg in rec.kernel_violations:
        bad("kernel:" + rule, msg)
    if rec.outcome != ("ok",):
        bad("run-outcome", "run() ended with %r" % (rec.outcome,))
    for rule, msg in rec.monitor_violations:
        bad(rule, msg)
    monitor = rec.notes["monitor"]
    monitor.absorb()
    faulted = rec.world.faulted
    ended, excs, started = set(), {}, set()
    final = None
    for ev in rec.trace:
        kind = ev[4]
        if kind == "start":
            started.add(ev[3])
        elif kind == "end":
            ended.add(ev[3])
        elif kind == "exc":
            excs[ev[3]] = ev[5]
        elif kind == "levels":
            final = ev[6]
    if rec.outcome == ("ok",):
        if final is None:
            bad("no-final-probe", "zprobe never ran")
        else:
            held = [b for b in monitor.blocks.values() if b["phase"] in ("held", "releasing")
                    and b["on"] == "R"]
            if held:
                bad("stuck-holder", "blocks still holding at quiescence: %r"
                    % [(b["actor"], b["phase"]) for b in held])
            supply = monitor.supplies["R"]["S"]
            if not held and final != supply:
                bad("leak", "available %r at quiescence but supply is %r" % (final, supply))
            for ident, block in monitor.blocks.items():
                if block["phase"] == "acquiring" and block["on"] == "R" and \
                        _fits(block["amounts"], final) and not faulted.get(block["actor"]):
                    bad("borrower-left-waiting", "%s still waits for %r with %r available at "
                        "quiescence" % (block["actor"], block["amounts"], final))
    waiting_forever = {b["actor"] for b in monitor.blocks.values() if b["phase"] == "acquiring"}
    for spec in rec.case["scenario"]["actors"]:
        actor = spec["name"]
        if actor in ended or actor in waiting_forever:
            continue
        kinds = [k for _, k in faulted.get(actor, ())]
        if not kinds:
            bad("stuck", "%s never finished: %r" % (actor, excs.get(actor, "still blocked")))
        elif actor in started:
            meta = excs.get(actor)
            if meta is None:
                bad("faulted-actor-stuck", "%s neither finished nor was torn down" % actor)
            elif meta[0] not in [SIGNALS[k] for k in kinds]:
                bad("unexpected-exception", "%s ended with %r after %r" % (actor, meta, kinds))
    return out


def observe(rec):
    sig, stats = [], {}
    monitor = rec.notes["monitor"]
    for ev in rec.trace:
        kind = ev[4]
        if kind.split(".")[0].rstrip("!") in MODES or kind.startswith("adjust"):
            sig.append((ev[3], kind, repr(ev[7]) if len(ev) > 7 else None))
        if kind == "exc" and ev[5] and ev[5][0] in SIGNALS.values():
            key = "fault.observed.%s" % ev[5][0]
            stats[key] = stats.get(key, 0) + 1
    for phase in monitor.struck:
        stats["probe.fault-while-%s" % phase] = 1
    for tick, fault, outcome in rec.fired:
        key = "fault.%s.injected" % fault.get("as", fault["kind"])
        stats[key] = stats.get(key, 0) + 1
    if monitor.waited:
        stats["probe.borrower-waited"] = 1
    plan = rec.case.get("plan") or []
    sig.append(tuple((f.get("as", f["kind"]), f.get("victim"), f["tick"]) for f in plan))
    return {"stats": stats, "signature": tuple(sig),
            "nontrivial": monitor.waited or bool(monitor.struck),
            "states": sorted(monitor.states)}


def probe_finding(finding):
    """F23: a share handed to another activity that still borrows from it when the block that
    owns the share ends: the share's level goes negative and the supply is over-committed."""
    if finding["id"] != "F23":
        return False
    from .. import bind_repo
    usim = bind_repo()
    seen = {}

    async def tenant(share):
        async with share.borrow(a=1):
            await (usim.time + 10)

    async def late(supply):
        await (usim.time + 2)
        async with supply.claim(a=2):        # everything "free" again while the tenant holds 1
            seen["claimed_at"] = usim.time.now
            await (usim.time + 1)

    async def main():
        supply = usim.Resources(a=2)
        async with usim.Scope() as scope:
            async with supply.borrow(a=2) as share:
                scope.do(tenant(share))
                scope.do(late(supply))
                await (usim.time + 1)
            seen["share_after"] = dict(share.levels.__dict__) if hasattr(share.levels, "__dict__") \
                else {"a": share.levels.a}
            seen["supply_after"] = supply.levels.a

    try:
        usim.run(main())
    except BaseException as err:             # noqa: any other outcome means the finding changed
        if isinstance(err, usim.ResourcesUnavailable):
            return False                     # the late claim was refused: conserved
        if isinstance(err, usim.Concurrent) and all(
                isinstance(child, usim.ResourcesUnavailable) for child in err.children):
            return False
        raise
    return seen.get("claimed_at") == 2 or seen.get("share_after", {}).get("a", 0) < 0
