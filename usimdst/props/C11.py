"""C11 Channel broadcasts every message to every subscribed consumer, in order, once."""
from .. import mixed
from ..faults import sweep

ID = "C11"
MIXED_SHARE = 0.2
LEVEL = "fault_enumeration"
RULE = ("seeded scenarios of 1-3 producers (unique values), 1-4 consumers (`async for` with "
        "optional limit / slow body, single `await channel`), late subscribers, optional closer "
        "and a final closer on one Channel; run fault-free and once per (participant, kind in "
        "cancel/interrupt/close, kernel event). Non-trivial = at least one consumer received a "
        "message; distinct = distinct sequence of (actor, channel event, value) plus fault "
        "position."
        " A fifth of the scenarios are `mixed` programs (usimdst/mixed.py): two locks, a "
        "queue, a channel and a capacity supply used by the same activities in nested "
        "blocks. After the single-fault sweep, seeded pairs of cancels and seeded fault "
        "sequences of mixed kinds (2-3 victims, each with its own kind) are run as well; "
        "a tenth of the budget runs under python -O.")
BUDGET = {"quick": {"cases": 400, "wall_s": 240, "chunk": 2, "per_group": 25},
          "thorough": {"cases": 4000, "wall_s": 1500, "chunk": 5, "per_group": 400}}
ASSUMPTIONS = ["a consumer is subscribed from the activation in which its iteration / await "
               "starts", "the value of a put torn down before returning is optional"]
LEVEL_TEXT = ("Fault enumeration: cancel / until-interrupt / forceful close at every kernel event "
              "(sampled to 25 per victim and kind in quick) of every consumer, producer and "
              "closer; each consumer's received sequence is compared with the puts made between "
              "its subscription and its departure (exactly once, in order, independent of the "
              "other consumers), single awaits with the first later put, close semantics, and "
              "no consumer may be left waiting for a delivered message when the clock advances.")
LEVEL_NOTE = "Trusts the seam's event order and the interpreter; one channel per scenario."
TECHNIQUE = "deterministic simulation, fault sweep over kernel events, per-consumer broadcast model"

DELAYS = [0.25, 0.5, 1, 1.5, 2]


def _gap(rng, ops, p=0.55):
    r = rng.random()
    if r < 0.3 * p / 0.55:
        ops.append({"op": "postpone", "k": rng.randint(1, 2)})
    elif r < p:
        ops.append({"op": "sleep", "d": rng.choice(DELAYS)})


def generate(rng, tier):
    if rng.random() < MIXED_SHARE:
        # the primitive inside blocks of the other primitives (usimdst/mixed.py)
        return mixed.generate(rng, ID)
    actors = []
    twins = rng.random() < 0.12     # messages that compare equal (1, 1.0, True) or are put twice
    for p in range(rng.randint(1, 3)):
        ops = []
        _gap(rng, ops, 0.8)
        for j in range(rng.randint(1, 4)):
            value = p * 100 + j
            if twins:
                value = rng.choice([1, 1.0, True, 0, 0.0, False, 7, 7, "7"])
            elif value in (0, 1, 101) and rng.random() < 0.5:
                value = {0: 0, 1: None, 101: ""}[value]      # falsy and None are legal messages
            ops.append({"op": "put", "on": "C", "v": value})
            _gap(rng, ops)
        actors.append({"name": "p%d" % p, "ops": ops})
    for c in range(rng.randint(1, 4)):
        ops = []
        _gap(rng, ops, 0.4)
        for _ in range(rng.randint(1, 2)):
            if rng.random() < 0.35:
                ops.append({"op": "get", "on": "C"})
            else:
                body = []
                _gap(rng, body, 0.4)
                if rng.random() < 0.15:
                    # a second subscription of the same activity while the first is open
                    if rng.random() < 0.5:
                        body.append({"op": "get", "on": "C"})
                    else:
                        inner = []
                        _gap(rng, inner, 0.3)
                        body.append({"op": "iter", "on": "C", "body": inner,
                                     "n": rng.randint(1, 2)})
                    _gap(rng, body, 0.3)
                op = {"op": "iter", "on": "C", "body": body}
                if rng.random() < 0.5:
                    op["n"] = rng.randint(1, 3)
                ops.append(op)
            _gap(rng, ops, 0.3)
        actors.append({"name": "c%d" % c, "ops": ops})
    rng.shuffle(actors)
    if rng.random() < 0.5:
        ops = [{"op": "sleep", "d": rng.choice(DELAYS + [3, 4])}, {"op": "close", "on": "C"}]
        if rng.random() < 0.5:
            ops.append({"op": "put", "on": "C", "v": 999})
        if rng.random() < 0.3:
            ops.append({"op": "close", "on": "C"})
        if rng.random() < 0.3:
            ops.append({"op": "get", "on": "C"})
        actors.append({"name": "k0", "ops": ops})
    closing = [{"op": "close", "on": "C"}, {"op": "iter", "on": "C"}, {"op": "get", "on": "C"}]
    resources = {"C": {"kind": "channel"}}
    if rng.random() < 0.3:
        # a second, unrelated channel with its own consumers and producer
        resources["C2"] = {"kind": "channel"}
        for c in range(rng.randint(1, 2)):
            ops = []
            _gap(rng, ops, 0.4)
            ops.append({"op": "get", "on": "C2"} if rng.random() < 0.4 else
                       {"op": "iter", "on": "C2", "body": [], "n": rng.randint(1, 3)})
            actors.append({"name": "c2x%d" % c, "ops": ops})
        ops = [{"op": "sleep", "d": rng.choice(DELAYS)}]
        for j in range(rng.randint(1, 4)):
            ops.append({"op": "put", "on": "C2", "v": 2000 + j})
            _gap(rng, ops)
        actors.append({"name": "p2x", "ops": ops})
        closing += [{"op": "close", "on": "C2"}, {"op": "iter", "on": "C2"},
                    {"op": "get", "on": "C2"}]
    actors.append({"name": "zclose", "after": 4096, "ops": closing})
    return {"property": ID,
            "scenario": {"resources": resources, "actors": actors},
            "plan": [], "config": {"waitq": rng.choice(["heap", "sd"])}}


def explore(case, base, rng, tier, one):
    victims = [a["name"] for a in case["scenario"]["actors"] if a["name"] != "zclose"]
    if case.get("family") == "mixed":
        victims = mixed.victims(case)
    sweep(case, base, rng, one, victims, ("cancel", "interrupt", "close"),
          BUDGET[tier]["per_group"], pairs=BUDGET[tier]["per_group"])


SIGNALS = {"cancel": "CancelTask", "interrupt": "CancelScope", "close": "GeneratorExit"}


def _key(value):
    return (type(value).__name__, value)


def check(rec):
    """Every Channel of the scenario is checked on its own."""
    out, seen = [], set()
    names = [name for name, spec in rec.case["scenario"]["resources"].items()
             if spec.get("kind") == "channel"]
    for name in names or ["C"]:
        for violation in _check_one(rec, name):
            key = (violation["rule"], violation["msg"])
            if key not in seen and len(out) < 5:
                seen.add(key)
                out.append(violation)
    return out


def _check_one(rec, cname):
    out = []

    def bad(rule, msg):
        if len(out) < 5:
            out.append({"rule": "C11/" + rule, "msg": msg if cname == "C" else
                        "[%s] %s" % (cname, msg)})

    for rule, msg in rec.kernel_violations:
        bad("kernel:" + rule, msg)
    if rec.outcome != ("ok",):
        bad("run-outcome", "run() ended with %r" % (rec.outcome,))
    faulted = rec.world.faulted

    def excused(actor, tick):
        return any(t <= tick for t, _ in faulted.get(actor, ()))

    accepted = []        # [tick, value, optional]
    closed_at = None     # tick of first close
    # consumer -> stack of its open subscriptions (an iteration whose body awaits the channel or
    # iterates it again holds two at once): {"since": tick, "k": delivered count, "mode", "waiting"}
    subs = {}

    def top(actor):
        stack = subs.get(actor)
        return stack[-1] if stack else None

    def pop(actor):
        stack = subs.get(actor)
        return stack.pop() if stack else None
    pending_put = {}
    ended, excs, started = set(), {}, set()
    last_time = None

    def expected(sub):
        return [item for item in accepted if item[0] > sub["since"]]

    def take(sub, actor, value, what):
        exp = expected(sub)
        k = sub["k"]
        while k < len(exp) and exp[k][1] != value and exp[k][2]:
            k += 1
        if k >= len(exp):
            bad("phantom", "%s %s %r, which was not put after it subscribed (or twice)"
                % (actor, what, value))
        elif exp[k][1] != value:
            bad("order", "%s %s %r but %r was put first after it subscribed"
                % (actor, what, value, exp[k][1]))
        sub["k"] = k + 1

    for ev in rec.trace:
        tick, act, now, actor, kind = ev[:5]
        if kind[:3] in ("put", "get", "ite", "clo") and len(ev) > 5 and ev[5] != cname:
            continue                     # another stream of the program
        if last_time is not None and now != last_time:
            for name, sub in [(n, x) for n, stack in subs.items() for x in stack]:
                if sub["waiting"]:
                    owed = [v for _, v, opt in expected(sub)[sub["k"]:] if not opt]
                    if owed:
                        bad("consumer-left-waiting",
                            "clock moved from %r to %r while %s waits although %r were put for it"
                            % (last_time, now, name, owed))
                    elif closed_at is not None:
                        bad("consumer-left-waiting",
                            "clock moved from %r to %r while %s waits on a closed channel"
                            % (last_time, now, name))
        last_time = now
        if kind == "start":
            started.add(actor)
        elif kind == "end":
            ended.add(actor)
        elif kind == "exc":
            excs[actor] = ev[5]
            subs.pop(actor, None)        # every subscription of the actor is gone
        elif kind == "put+":
            # (messages are known by type and value - 1, 1.0 and True are three messages - and a
            # put by its own entry, so that equal messages put twice stay two messages)
            entry = None
            if closed_at is None:
                entry = [tick, _key(ev[6]), False]
                accepted.append(entry)
            pending_put[actor] = (ev[6], entry)
        elif kind == "put-":
            _, entry = pending_put.pop(actor, (None, True))
            if entry is None:
                bad("put-after-close-accepted", "put(%r) on a closed channel returned" % (ev[6],))
        elif kind == "put.closed":
            _, entry = pending_put.pop(actor, (None, None))
            if entry is not None:
                bad("put-refused-while-open", "put(%r) raised StreamClosed on an open channel"
                    % (ev[6],))
        elif kind == "put!":
            value, entry = pending_put.pop(actor, (None, None))
            if entry is not None:
                entry[2] = True
            if not excused(actor, tick):
                bad("put-failed", "put(%r) by %s raised %r" % (value, actor, ev[7]))
        elif kind == "close+":
            if closed_at is None:
                closed_at = tick
        elif kind == "iter+":
            subs.setdefault(actor, []).append(
                {"since": tick, "k": 0, "mode": "iter", "waiting": True,
                 "closed_at_start": closed_at is not None})
        elif kind == "iter.next":
            if top(actor) is not None:
                top(actor)["waiting"] = True
        elif kind == "iter.item":
            sub = top(actor)
            if sub is None:
                bad("phantom", "%s received %r outside an iteration" % (actor, ev[6]))
            else:
                sub["waiting"] = False
                take(sub, actor, _key(ev[6]), "received")
        elif kind == "iter-":
            sub = pop(actor)
            if sub is not None and sub["waiting"] and not sub.get("torn"):
                # ended by exhaustion: channel closed, everything owed was delivered
                owed = [v for _, v, opt in expected(sub)[sub["k"]:] if not opt]
                if closed_at is None:
                    bad("end-while-open", "%s's iteration ended on an open channel" % actor)
                elif owed:
                    bad("lost", "%s's iteration ended although %r were put for it" % (actor, owed))
        elif kind == "iter!":
            if top(actor) is not None:   # "iter-" follows (finally) and closes the subscription
                top(actor)["torn"] = True
            if not excused(actor, tick):
                bad("receive-failed", "%s: iteration raised %r" % (actor, ev[-1]))
        elif kind == "get+":
            subs.setdefault(actor, []).append(
                {"since": tick, "k": 0, "mode": "get", "waiting": True,
                 "closed_at_start": closed_at is not None})
        elif kind == "get-":
            sub = pop(actor)
            if sub is not None:
                if sub["closed_at_start"]:
                    bad("get-on-closed", "%s: await on a closed channel returned %r"
                        % (actor, ev[6]))
                take(sub, actor, _key(ev[6]), "got")
                if sub["k"] != 1 and not any(i[2] for i in expected(sub)[:sub["k"]]):
                    bad("not-first", "%s: await returned %r, not the first message put after it "
                        "began waiting" % (actor, ev[6]))
        elif kind == "get.closed":
            sub = pop(actor)
            if sub is not None:
                owed = [v for _, v, opt in expected(sub) if not opt]
                if closed_at is None:
                    bad("closed-while-open", "%s saw StreamClosed on an open channel" % actor)
                elif owed and not sub["closed_at_start"]:
                    bad("lost", "%s saw StreamClosed although %r were put while it waited"
                        % (actor, owed))
        elif kind == "get!":
            pop(actor)
            if not excused(actor, tick):
                bad("receive-failed", "%s: await raised %r" % (actor, ev[-1]))
    for spec in rec.case["scenario"]["actors"]:
        actor = spec["name"]
        if actor in ended:
            continue
        kinds = [k for _, k in faulted.get(actor, ())]
        if not kinds:
            bad("stuck", "%s never finished: %r" % (actor, excs.get(actor, "still blocked")))
        elif actor in started:
            meta = excs.get(actor)
            if meta is None:
                bad("faulted-actor-stuck", "%s neither finished nor was torn down" % actor)
            elif meta[0] not in [SIGNALS[k] for k in kinds]:
                bad("unexpected-exception", "%s ended with %r after %r" % (actor, meta, kinds))
    return out


def observe(rec):
    sig, stats = [], {}
    got = 0
    for ev in rec.trace:
        kind = ev[4]
        if kind in ("iter.item", "get-"):
            got += 1
        if kind[:3] in ("put", "get", "ite", "clo"):
            sig.append((ev[3], kind) + tuple(ev[6:7]))
        if kind == "exc" and ev[5] and ev[5][0] in SIGNALS.values():
            key = "fault.observed.%s" % ev[5][0]
            stats[key] = stats.get(key, 0) + 1
        if kind in ("get!", "iter!", "put!"):
            key = "probe.fault-inside-%s" % kind[:-1]
            stats[key] = stats.get(key, 0) + 1
        if kind == "put.closed":
            stats["probe.put-after-close"] = stats.get("probe.put-after-close", 0) + 1
    for tick, fault, outcome in rec.fired:
        key = "fault.%s.injected" % fault.get("as", fault["kind"])
        stats[key] = stats.get(key, 0) + 1
    stats["probe.messages-received"] = got
    plan = rec.case.get("plan") or []
    sig.append(tuple((f.get("as", f["kind"]), f.get("victim"), f["tick"]) for f in plan))
    return {"stats": stats, "signature": tuple(sig), "nontrivial": got > 0}
