"""C01 Virtual time is monotone and every timed wait resumes at exactly its date."""
import math

ID = "C01"
LEVEL = "exploration"
RULE = ("seeded programs of 1-6 concurrently running activities executing chains of `time + d`, "
        "`time == t`, `time >= t`, `time < t`, instant, eternity and Scope.do(at=/after=), nested "
        "in scopes and until-blocks, from start times in {-5, -1/4, 0, 3, 7.25}; dates are drawn "
        "relative to the model's current time of the activity so that now / past / future / "
        "colliding / infinite dates all occur; waits that can never resume sit in a guard "
        "`until(time + G)`. Non-trivial = the program contains a wait on a date that is now, "
        "past or infinite, or a never-resuming wait; distinct = distinct per-actor sequence of "
        "(event, time).")
BUDGET = {"quick": {"cases": 90000, "wall_s": 240, "chunk": 250},
          "thorough": {"cases": 1200000, "wall_s": 1500, "chunk": 500}}
ASSUMPTIONS = ["dates are dyadic rationals, so float arithmetic of the clock is exact",
               "events that coincide with the deadline of an enclosing until-block may or may "
               "not happen (either is accepted)"]
LEVEL_TEXT = ("Exploration: seeded timer programs; every resume time read through time.now is "
              "compared with an independent arithmetic model of the program (resume at T+d, at t, "
              "in the same step, or never), and on every activation the seam checks that the "
              "clock never decreases, that no live activation due earlier is left behind when the "
              "clock advances, and that each activation runs at the date it was scheduled for.")
LEVEL_NOTE = ("Trusts the arithmetic model (usimdst/props/C01.py: Model) and the seam's "
              "reconstruction of the kernel's run queue from schedule calls.")
TECHNIQUE = "deterministic simulation, seeded timer programs, arithmetic clock model plus kernel run-queue monitor"

DELAYS = [0.25, 0.5, 1, 1.5, 2, 3, 4]
GRID = [-4, -1, -0.25, 0, 0.5, 1, 2, 3, 4, 6, 8]
STARTS = [-5, -0.25, 0, 0, 3, 7.25]


def num(value):
    return math.inf if value == "inf" else value


class Model:
    """Arithmetic model of a timer program: per actor, the (event, time) list it must log."""

    def __init__(self):
        self.events = {}        # actor -> [[kind, time, optional]]
        self.spawned = []       # stack of lists of end times of children spawned into a scope
        self.special = 0

    def emit(self, actor, kind, when):
        self.events.setdefault(actor, []).append([kind, when, False])

    def actor(self, spec, start):
        name = spec["name"]
        self.emit(name, "start", start)
        end = self.ops(name, spec.get("ops", ()), start)
        if end is not None:
            self.emit(name, "end", end)
        return end

    def ops(self, actor, ops, now):
        for op in ops:
            now = self.op(actor, op, now)
            if now is None:
                return None
        return now

    def op(self, actor, op, now):
        kind = op["op"]
        if kind == "sleep":
            now = now + num(op["d"])
            self.emit(actor, "sleep-", now)
            return now
        if kind == "postpone":
            return now
        if kind == "now":
            self.emit(actor, "now", now)
            return now
        if kind == "at":
            date, cmp = num(op["t"]), op["cmp"]
            if cmp == "==":
                result = date if date >= now else None
            elif cmp == ">=":
                result = max(date, now)
            else:
                result = now if now < date else None
            if date <= now or date == math.inf:
                self.special += 1
            if result is not None:
                self.emit(actor, "at-", result)
            return result
        if kind == "eternity":
            self.special += 1
            return None
        if kind == "try":
            return self.ops(actor, op["body"], now)
        if kind == "spawn":
            spec = op["actor"]
            start = self.start_of(spec, now)
            end = self.actor(spec, start)
            if self.spawned and not spec.get("volatile"):
                self.spawned[-1].append(end)
            return now
        if kind == "scope":
            return self.scope(actor, op, now)
        raise ValueError(kind)

    @staticmethod
    def start_of(spec, now):
        if spec.get("at") is not None:
            return num(spec["at"])
        if spec.get("after") is not None:
            return now + spec["after"]
        return now

    def scope(self, actor, op, enter):
        sub = self.__class__()
        sub.spawned = [[]]
        ends = sub.spawned[0]
        for child in op.get("children", ()):
            end = sub.actor(child, self.start_of(child, enter))
            if not child.get("volatile"):
                ends.append(end)
        ends.append(sub.ops(actor, op.get("body", ()), enter))
        self.special += sub.special
        all_end = None if any(e is None for e in ends) else max(ends)
        deadline = None
        until = op.get("until")
        if until is not None:
            if until["k"] == "delay":
                deadline = enter + num(until["d"])
            elif until["k"] == "time":
                date = num(until["t"])
                if until["op"] == ">=":
                    deadline = max(date, enter)
                elif until["op"] == "==":
                    deadline = date if date >= enter else None
                if date <= enter:
                    self.special += 1
        if deadline is not None and (all_end is None or deadline <= all_end):
            leave = deadline
        else:
            leave = all_end
        for name, events in sub.events.items():
            for kind, when, optional in events:
                if leave is not None and when > leave:
                    continue
                if leave is not None and when == leave and \
                        (deadline == leave or name != actor):
                    # coincides with the trigger / with the forceful close of volatile children
                    optional = True
                self.events.setdefault(name, []).append([kind, when, optional])
        return leave


def expected(scenario):
    model = Model()
    start = scenario.get("start", 0)
    for spec in scenario["actors"]:
        model.actor(spec, model.start_of(spec, start))
    return model


DEC_DELAYS = [0.1, 0.2, 0.3, 0.7, 0.9, 1.1]
DEC_GRID = [-0.7, -0.1, 0, 0.1, 0.3, 0.9, 1.3, 2.7]
DEC_STARTS = [0.2, 0.3, -0.1, 0]


class Gen:
    def __init__(self, rng, decimal=False):
        self.rng = rng
        self.n = 0
        # decimal (non-dyadic) dates: the model mirrors the kernel's float operations exactly,
        # so any extra round trip through a relative delay shows up as a one-ulp difference
        self.delays = DEC_DELAYS if decimal else DELAYS
        self.grid = DEC_GRID if decimal else GRID

    def fresh(self, prefix):
        self.n += 1
        return "%s%d" % (prefix, self.n)

    def date(self, now):
        rng = self.rng
        r = rng.random()
        if r < 0.2:
            return now
        if r < 0.45:
            return now + rng.choice(self.delays)
        if r < 0.62:
            return now - rng.choice(self.delays)
        if r < 0.97:
            return rng.choice(self.grid)
        return "inf"

    def ops(self, now, depth, length):
        """Generate ops starting at model time `now`; returns (ops, end time or None)."""
        rng = self.rng
        out = []
        model = Model()
        for _ in range(length):
            r = rng.random()
            if r < 0.25:
                op = {"op": "sleep", "d": rng.choice(self.delays + [0])}
            elif r < 0.33:
                op = {"op": "postpone", "k": rng.randint(1, 3)}
            elif r < 0.4:
                op = {"op": "now"}
            elif r < 0.75:
                op = {"op": "at", "cmp": rng.choice(["==", ">=", ">=", "<"]), "t": self.date(now)}
            elif r < 0.78:
                op = {"op": "eternity"}
            elif r < 0.9 and depth < 2:
                op = self.scope(now, depth)
            elif depth < 2:
                child = {"name": self.fresh("k")}
                self.place(child, now)
                child["ops"] = self.ops(Model.start_of(child, now), depth + 1,
                                        rng.randint(1, 2))[0]
                op = {"op": "scope", "label": self.fresh("S"), "children": [], "body": [
                    {"op": "spawn", "into": None, "actor": child}]}
                op["body"][0]["into"] = op["label"]
            else:
                op = {"op": "sleep", "d": rng.choice(self.delays)}
            probe = Model()
            end = probe.op("x", op, now)
            if end is None or end == math.inf:
                # can never resume (or only at infinity): put it under a guard
                guard = rng.choice(self.delays)
                op = {"op": "scope", "label": self.fresh("G"),
                      "until": {"k": "delay", "d": guard}, "children": [], "body": [op]}
                end = Model().op("x", op, now)
            out.append(op)
            now = end
        return out, now

    def place(self, child, now):
        rng = self.rng
        r = rng.random()
        if r < 0.3:
            child["after"] = rng.choice(self.delays + [0])
        elif r < 0.6:
            child["at"] = rng.choice([now, now + rng.choice(self.delays)] +
                                     [g for g in self.grid if g >= now])

    def scope(self, now, depth):
        rng = self.rng
        op = {"op": "scope", "label": self.fresh("S"), "children": []}
        r = rng.random()
        if r < 0.25:
            op["until"] = {"k": "delay", "d": rng.choice(self.delays)}
        elif r < 0.45:
            op["until"] = {"k": "time", "op": rng.choice([">=", "=="]), "t": self.date(now)}
            if op["until"]["t"] == "inf":
                op["until"]["t"] = now + 1
        for _ in range(rng.choice([0, 0, 1, 2])):
            child = {"name": self.fresh("k")}
            self.place(child, now)
            start = Model.start_of(child, now)
            child["ops"] = self.ops(start, depth + 1, rng.randint(1, 3))[0]
            if rng.random() < 0.2:
                child["volatile"] = True
            op["children"].append(child)
        op["body"] = self.ops(now, depth + 1, rng.randint(0, 3))[0]
        return op


def generate(rng, tier):
    decimal = rng.random() < 0.3
    gen = Gen(rng, decimal)
    start = rng.choice(DEC_STARTS if decimal else STARTS)
    actors = []
    for _ in range(rng.randint(1, 6)):
        ops, end = gen.ops(start, 0, rng.randint(1, 6))
        if end is not None and rng.random() < 0.12:
            # an unguarded wait for infinity at the end: it resumes when the clock reads inf (after
            # everything finite has happened), and time goes on "at infinity" from there
            ops.append(rng.choice([{"op": "sleep", "d": "inf"},
                                   {"op": "at", "cmp": "==", "t": "inf"},
                                   {"op": "at", "cmp": ">=", "t": "inf"}]))
            ops.append({"op": "now"})
            for _ in range(rng.randint(0, 2)):
                ops.append(rng.choice([{"op": "sleep", "d": rng.choice([1, "inf"])},
                                       {"op": "postpone", "k": 1},
                                       {"op": "at", "cmp": rng.choice(["==", ">="]), "t": "inf"},
                                       {"op": "at", "cmp": ">=", "t": 1}]))
                ops.append({"op": "now"})
        actors.append({"name": gen.fresh("a"), "ops": ops})
    scenario = {"start": start, "resources": {}, "actors": actors}
    if rng.random() < 0.25:
        # all waits for the same (comparison, date) use one condition object, like a module-level
        # `DEADLINE = time >= 10`: re-used after being abandoned (until cut-off) and by several
        scenario["share_conditions"] = True
        if rng.random() < 0.5:
            # ... and the program is run twice (two replications around module-level condition
            # objects): the second run starts before dates the objects have already seen pass
            scenario["share_conditions"] = "history"
    case = {"property": ID, "scenario": scenario, "plan": [],
            "config": {"waitq": rng.choice(["heap", "sd"])}}
    if scenario.get("share_conditions") == "history":
        case["repeat"] = True
        if rng.random() < 0.4:
            # ... after a replication that was aborted by a failing activity while dates of the
            # shared objects were still to come (their triggers died with that simulation)
            case["aborted_first"] = rng.choice([0.125, 0.375, 1.125])
    if not valid(case):        # generator and model disagree: never run such a program
        raise AssertionError("C01 generator produced an invalid program")
    return case


def run_case(case):
    """One run - or, for `repeat` cases, two runs of the same program around the same condition
    objects; each run must match the same model."""
    import sys
    from ..runner import run_one
    from ..world import SHARED_CONDITIONS
    P = sys.modules[__name__]
    if not case.get("repeat"):
        return run_one(P, case)
    SHARED_CONDITIONS.clear()
    try:
        if case.get("aborted_first"):
            import copy
            aborted = copy.deepcopy(case)
            aborted["scenario"]["actors"].append({"name": "zfail", "ops": [
                {"op": "sleep", "d": case["aborted_first"]}, {"op": "raise", "type": "E"}]})
            from ..world import execute, cleanup
            cleanup(execute(aborted))   # ends with zfail's exception; what it did is not judged
        first = run_one(P, case)
        if first.violations:
            return first
        second = run_one(P, case)
        for violation in second.violations:
            violation["msg"] = "second run with the same condition objects: " + violation["msg"]
        second.ticks += first.ticks
        second.stats = dict(second.stats or {})
        second.stats["probe.second-runs-with-shared-conditions"] = 1
        return second
    finally:
        SHARED_CONDITIONS.clear()


WATCHED = ("start", "end", "sleep-", "at-", "now")


def check(rec):
    out = []

    def bad(rule, msg):
        if len(out) < 5:
            out.append({"rule": "C01/" + rule, "msg": msg})

    for rule, msg in rec.kernel_violations:
        bad("kernel:" + rule, msg)
    if rec.outcome != ("ok",):
        bad("run-outcome", "run() ended with %r" % (rec.outcome,))
        return out
    last = None
    for ev in rec.trace:
        if last is not None and ev[2] < last:
            bad("clock-backwards", "time.now went from %r to %r" % (last, ev[2]))
        last = ev[2]
    model = expected(rec.case["scenario"])
    observed = {}
    for ev in rec.trace:
        if ev[4] in WATCHED:
            observed.setdefault(ev[3], []).append((ev[4], ev[2]))
    for actor in set(observed) | set(model.events):
        if actor == "root":
            continue
        got = observed.get(actor, [])
        want = model.events.get(actor, [])
        problem = _match(got, want)
        if problem is not None:
            bad(problem[0], "%s: %s" % (actor, problem[1]))
    return out


def _match(got, want):
    """Match observed events against expected ones, some of which are optional."""
    # reach[j] = set of i such that want[:j] can explain got[:i]
    reach = {0}
    furthest = (0, 0)
    for j, (kind, when, optional) in enumerate(want):
        nxt = set()
        for i in reach:
            if i < len(got) and got[i] == (kind, when):
                nxt.add(i + 1)
            if optional:
                nxt.add(i)
        if not nxt:
            i = max(reach)
            have = got[i] if i < len(got) else "nothing (still waiting)"
            return ("resume-time", "expected %s at t=%r, observed %r" % (kind, when, have))
        reach = nxt
    if len(got) not in reach:
        i = max(reach)
        return ("resumed-but-never-should",
                "unexpected %r after its expected history" % (got[i],))
    return None


class Invalid(Exception):
    pass


def valid(case):
    """Programs must not trip a documented usage assertion (start dates in the past)."""
    def walk(node, ok=[True]):
        return ok
    try:
        model = Model()
        original = Model.start_of

        def checked(spec, now):
            start = original(spec, now)
            if start < now:
                raise Invalid
            return start
        Model.start_of = staticmethod(checked)
        try:
            scenario = case["scenario"]
            for spec in scenario["actors"]:
                model.actor(spec, Model.start_of(spec, scenario.get("start", 0)))
        finally:
            Model.start_of = staticmethod(original)
    except Invalid:
        return False
    except Exception:
        return False
    return True


def observe(rec):
    model = expected(rec.case["scenario"])
    per_actor = {}
    for ev in rec.trace:
        if ev[4] in WATCHED:
            per_actor.setdefault(ev[3], []).append((ev[4], ev[2]))
    stats = {"probe.special-dates": model.special,
             "probe.time-steps": rec.time_steps}
    if rec.end_time == math.inf:
        stats["probe.clock-reached-inf"] = 1
    sig = tuple(sorted((k, tuple(v)) for k, v in per_actor.items()))
    return {"stats": stats, "signature": sig, "nontrivial": model.special > 0}
