"""C14 interval() ticks on a fixed grid, delay() pauses a fixed span, for any body."""
from . import C01

ID = "C14"
LEVEL = "exploration"
RULE = ("seeded programs of 1-4 activities each running `async for now in interval(p)` or "
        "`delay(p)` with p in {0, 1/4, 1/2, 1, 2, 4} (and negative periods) and a seeded sequence "
        "of body durations shorter than, equal to and longer than p (incl. bodies that do not "
        "suspend at all), from start times in {-5, -1/4, 0, 3, 7.25}, after a pre-delay, alone, "
        "inside until-blocks that cut them off, and next to other tickers and a spinner that "
        "postpones repeatedly. Non-trivial = some body ran at least as long as the period, the "
        "period is 0, or an until-block cut the ticker; distinct = distinct per-actor sequence "
        "of (event, time).")
BUDGET = {"quick": {"cases": 60000, "wall_s": 240, "chunk": 250},
          "thorough": {"cases": 1200000, "wall_s": 1500, "chunk": 500}}
ASSUMPTIONS = ["periods and durations of the modelled programs are dyadic rationals, so the grid "
               "arithmetic is exact; non-dyadic grids are checked by comparing tickers with "
               "different bodies against each other (exact equality)"]
LEVEL_TEXT = ("Exploration: the sequence of yielded times and of time.now at every iteration is "
              "compared with an arithmetic model (interval: start + k*p and IntervalExceeded "
              "exactly after a body longer than p; delay: body end + p; ValueError for p < 0), "
              "the yielded value must equal time.now, and a concurrently postponing spinner "
              "must get a turn between any two consecutive iterations at the same virtual time.")
LEVEL_NOTE = "Trusts the arithmetic model (C14.TModel on top of C01.Model) and the interpreter."
TECHNIQUE = "deterministic simulation, seeded body-duration sequences, grid arithmetic model"

PERIODS = [0, 0, 0.25, 0.5, 1, 1, 2, 4]
BODIES = [0, 0, "postpone", 0.25, 0.5, 1, 1, 2, 3]
DELAYS = [0.25, 0.5, 1, 2]
STARTS = [-5, -0.25, 0, 0, 3, 7.25]


class TModel(C01.Model):
    def op(self, actor, op, now):
        if op["op"] != "ticker":
            return super().op(actor, op, now)
        period, bodies, kind = op["p"], op["bodies"], op["kind"]
        if period < 0:
            self.emit(actor, "valueerror", now)
            return now
        if period == 0:
            self.special += 1
        now = now + (op.get("defer") or 0)       # made now, iterated later
        last = now
        for k in range(len(bodies) + 1):
            if kind == "interval":
                remaining = last + period - now
                if remaining < 0:
                    self.emit(actor, "exceeded", now)
                    return now
                if remaining == 0 and k > 0:
                    self.special += 1
                now = last + period
            else:
                now = now + period
            self.emit(actor, "tick", now)
            last = now
            if k == len(bodies):
                break
            body = bodies[k]
            if body != "postpone":
                now = now + body
        return now


def generate_twins(rng):
    """Two tickers on the same (non-dyadic) grid whose bodies take different time: the grid must
    not depend on the bodies - exact float equality, no arithmetic model needed."""
    period = rng.choice([0.1, 0.3, 0.7, 1.1, 2.406, 3.3, 1 / 3])
    start = rng.choice([0, -3.3, 0.1, 2.7, -0.7, 1e6 + 0.1])
    n = rng.randint(2, 7)
    fractions = [0.1, 0.25, 0.3, 0.37, 0.5, 0.73, 0.9]
    actors = [{"name": "idle", "ops": [{"op": "ticker", "kind": "interval", "p": period,
                                         "bodies": [rng.choice([0, "postpone"]) for _ in range(n)]}]}]
    for i in range(rng.randint(1, 2)):
        bodies = [period * rng.choice(fractions) if rng.random() < 0.8 else 0 for _ in range(n)]
        if rng.random() < 0.4:
            # bodies that take exactly the period: still on the grid, never "longer than p"
            bodies = [period if rng.random() < 0.6 else b for b in bodies]
        actors.append({"name": "busy%d" % i, "ops": [{"op": "ticker", "kind": "interval",
                                                       "p": period, "bodies": bodies}]})
    rng.shuffle(actors)
    return {"property": ID, "family": "twins",
            "scenario": {"start": start, "resources": {}, "actors": actors},
            "plan": [], "config": {"waitq": rng.choice(["heap", "sd"])}}


def valid(case):
    if case.get("family") != "twins":
        return True
    try:
        counts = set()
        for actor in case["scenario"]["actors"]:
            (op,) = actor["ops"]
            if op["op"] != "ticker" or op["kind"] != "interval" or op["p"] <= 0:
                return False
            if any(b not in (0, "postpone") and not 0 < b <= op["p"] for b in op["bodies"]):
                return False
            counts.add((len(op["bodies"]), op["p"]))
        return len(counts) == 1 and len(case["scenario"]["actors"]) >= 2
    except (KeyError, TypeError, ValueError):
        return False


def check_twins(rec):
    out = []
    for rule, msg in rec.kernel_violations:
        out.append({"rule": "C14/kernel:" + rule, "msg": msg})
    if rec.outcome != ("ok",):
        out.append({"rule": "C14/run-outcome", "msg": "run() ended with %r" % (rec.outcome,)})
        return out
    ticks = {}
    for ev in rec.trace:
        if ev[4] == "interval.tick":
            ticks.setdefault(ev[3], []).append(ev[2])
        elif ev[4] == "interval.exceeded":
            out.append({"rule": "C14/spurious-exceeded", "msg": "%s: IntervalExceeded at t=%r "
                        "although no body is longer than the period" % (ev[3], ev[2])})
    names = sorted(ticks)
    n = len(rec.case["scenario"]["actors"][0]["ops"][0]["bodies"]) + 1
    for name in names:
        if len(ticks[name]) != n and not out:
            out.append({"rule": "C14/grid", "msg": "%s ticked %d times, expected %d"
                        % (name, len(ticks[name]), n)})
    for name in names[1:]:
        if ticks[name] != ticks[names[0]] and len(out) < 3:
            k = next((i for i, (x, y) in enumerate(zip(ticks[name], ticks[names[0]])) if x != y),
                     min(len(ticks[name]), len(ticks[names[0]])))
            out.append({"rule": "C14/grid-depends-on-body", "msg":
                        "interval(%r) from t=%r: tick %d of %s is at %r but of %s at %r - the "
                        "grid depends on how long the bodies took" % (
                            rec.case["scenario"]["actors"][0]["ops"][0]["p"],
                            rec.case["scenario"].get("start", 0), k, name,
                            ticks[name][k:k + 1], names[0], ticks[names[0]][k:k + 1])})
    return out


def generate(rng, tier):
    if rng.random() < 0.1:
        return generate_twins(rng)
    start = rng.choice(STARTS)
    if rng.random() < 0.04:
        start = 2.0 ** 60       # a clock at which small (also negative) periods are absorbed
    actors = []
    serial = 0
    for i in range(rng.randint(1, 4)):
        ops = []
        if rng.random() < 0.4:
            ops.append({"op": "sleep", "d": rng.choice(DELAYS)})
        for _ in range(rng.choice([1, 1, 2])):
            period = rng.choice(PERIODS) if rng.random() < 0.95 else -rng.choice([0.5, 1])
            # (period + 2**-30: a body that is longer than the period by next to nothing)
            rel = [abs(period) / 2, abs(period), abs(period), abs(period) + 0.25,
                   2 * abs(period), abs(period) + 2 ** -30]
            bodies = [rng.choice(BODIES + rel) for _ in range(rng.randint(0, 5))]
            op = {"op": "ticker", "kind": rng.choice(["interval", "interval", "delay"]),
                  "p": period, "bodies": bodies}
            if period >= 0 and rng.random() < 0.12:
                op["defer"] = rng.choice([0.25, 0.5, 1, 3])
            if bodies and rng.random() < 0.15:
                # the loop over the ticker is left and entered again (same object): for the grid
                # that is one long body run; single steps may be taken by a child task
                if rng.random() < 0.6:
                    op["split"] = rng.randint(1, len(bodies))
                if "split" not in op or rng.random() < 0.5:
                    op["helper"] = sorted(rng.sample(range(len(bodies) + 1),
                                                     rng.randint(1, min(3, len(bodies) + 1))))
            if rng.random() < 0.25:
                serial += 1
                op = {"op": "scope", "label": "G%d" % serial, "children": [],
                      "until": {"k": "delay", "d": rng.choice([0.25, 0.5, 1, 2, 3])},
                      "body": [op]}
            ops.append(op)
            ops.append({"op": "now"})
        actors.append({"name": "k%d" % i, "ops": ops})
    if rng.random() < 0.5 and actors:
        # a pulse: wakes on the same grid as one of the tickers and spins a little each time
        model = actors[rng.randrange(len(actors))]
        period = next((op["p"] if op["op"] == "ticker" else op["body"][0]["p"]
                       for op in model["ops"] if op["op"] in ("ticker", "scope")), 1)
        if period and period > 0:
            ops = [dict(op) for op in model["ops"] if op["op"] == "sleep"][:1]
            for _ in range(rng.randint(2, 6)):
                ops.append({"op": "sleep", "d": period})
                for _ in range(2):
                    ops.append({"op": "now", "tag": "pulse"})
                    ops.append({"op": "postpone", "k": 1})
            actors.append({"name": "pulse", "ops": ops})
    if rng.random() < 0.7:
        spin = []
        if rng.random() < 0.5:
            spin.append({"op": "sleep", "d": rng.choice(DELAYS)})
        for _ in range(rng.randint(4, 16)):
            spin.append({"op": "postpone", "k": 1})
            spin.append({"op": "now", "tag": "spin"})
        actors.append({"name": "spinner", "ops": spin})
    rng.shuffle(actors)
    return {"property": ID, "scenario": {"start": start, "resources": {}, "actors": actors},
            "plan": [], "config": {"waitq": rng.choice(["heap", "sd"])}}


def expected(scenario):
    model = TModel()
    start = scenario.get("start", 0)
    for spec in scenario["actors"]:
        model.actor(spec, model.start_of(spec, start))
    return model


KIND_MAP = {"interval.tick": "tick", "delay.tick": "tick", "interval.exceeded": "exceeded",
            "delay.exceeded": "exceeded", "interval.valueerror": "valueerror",
            "delay.valueerror": "valueerror", "start": "start", "end": "end", "now": "now",
            "sleep-": "sleep-"}


def check(rec):
    out = []

    def bad(rule, msg):
        if len(out) < 5:
            out.append({"rule": "C14/" + rule, "msg": msg})

    if rec.case.get("family") == "twins":
        return check_twins(rec)
    for rule, msg in rec.kernel_violations:
        bad("kernel:" + rule, msg)
    if rec.outcome != ("ok",):
        bad("run-outcome", "run() ended with %r" % (rec.outcome,))
        return out
    model = expected(rec.case["scenario"])
    observed = {}
    for ev in rec.trace:
        kind = KIND_MAP.get(ev[4])
        if kind is None:
            continue
        observed.setdefault(ev[3], []).append((kind, ev[2]))
        if kind == "tick" and ev[6] != ev[2]:
            bad("yielded-value", "%s: iteration yielded %r at time.now == %r" % (ev[3], ev[6], ev[2]))
    for actor in set(observed) | set(model.events):
        if actor == "root":
            continue
        problem = C01._match(observed.get(actor, []), model.events.get(actor, []))
        if problem is not None:
            bad("grid" if problem[0] == "resume-time" else problem[0],
                "%s: %s" % (actor, problem[1]))
    # an iteration never completes in the activation in which the previous body ended while
    # other activities are runnable at that time
    last_end = {}
    for ev in rec.trace:
        if ev[4] in ("interval.bodyend", "delay.bodyend"):
            last_end[ev[3]] = ev
        elif ev[4] in ("interval.tick", "delay.tick"):
            prev = last_end.pop(ev[3], None)
            if prev is not None and prev[1] == ev[1] and rec.acts:
                behind = [a for a in rec.acts[ev[1]:] if a[1] == ev[2] and a[2] != ev[3]
                          and not a[2].startswith("~")]
                if behind:
                    bad("no-yield-between-iterations",
                        "%s ended a body and started the next iteration at t=%r in one activation "
                        "although %s was runnable at that time" % (ev[3], ev[2], behind[0][2]))
    # a postponing spinner gets a turn between two iterations at the same time
    spins = [i for i, ev in enumerate(rec.trace) if ev[3] == "spinner" and ev[4] == "now"]
    if spins:
        last_tick = {}
        for i, ev in enumerate(rec.trace):
            if ev[4] in ("interval.tick", "delay.tick"):
                prev = last_tick.get(ev[3])
                if prev is not None and rec.trace[prev][2] == ev[2]:
                    alive = spins[0] < prev and spins[-1] > i
                    if alive and not any(prev < s < i for s in spins):
                        bad("starved", "%s iterated twice at t=%r (events %d and %d) without the "
                            "spinner getting a turn" % (ev[3], ev[2], prev, i))
                last_tick[ev[3]] = i
    return out


def observe(rec):
    if rec.case.get("family") == "twins":
        sig = tuple(sorted((ev[3], ev[2]) for ev in rec.trace if ev[4] == "interval.tick"))
        return {"stats": {"probe.twin-tickers": 1}, "signature": sig, "nontrivial": True}
    model = expected(rec.case["scenario"])
    per_actor = {}
    stats = {}
    for ev in rec.trace:
        kind = KIND_MAP.get(ev[4])
        if kind:
            per_actor.setdefault(ev[3], []).append((kind, ev[2]))
            if kind in ("exceeded", "valueerror"):
                stats["probe.%s" % kind] = stats.get("probe.%s" % kind, 0) + 1
    stats["probe.zero-remaining-or-zero-period"] = model.special
    sig = tuple(sorted((k, tuple(v)) for k, v in per_actor.items()))
    cut = any(ev[4] == "scope.body!" for ev in rec.trace)
    if cut:
        stats["probe.cut-by-until"] = 1
    return {"stats": stats, "signature": sig,
            "nontrivial": model.special > 0 or cut or "probe.exceeded" in stats}
