"""C10 Queue delivers every accepted item exactly once, in order, to waiters in order."""
from .. import mixed
from ..faults import sweep

ID = "C10"
MIXED_SHARE = 0.2
LEVEL = "fault_enumeration"
RULE = ("seeded scenarios of 1-3 producers (unique values), 1-4 consumers (single gets and "
        "`async for` with optional early break / slow body), an optional closer and a final "
        "close-and-drain actor on one Queue; each scenario is run fault-free and then once per "
        "(participant, kind in cancel/interrupt/close, kernel event). Non-trivial = some "
        "receiver had to block or a fault was observed by its victim; distinct = distinct "
        "sequence of (actor, queue event, value) plus fault position."
        " A fifth of the scenarios are `mixed` programs (usimdst/mixed.py): two locks, a "
        "queue, a channel and a capacity supply used by the same activities in nested "
        "blocks. After the single-fault sweep, seeded pairs of cancels and seeded fault "
        "sequences of mixed kinds (2-3 victims, each with its own kind) are run as well; "
        "a tenth of the budget runs under python -O.")
BUDGET = {"quick": {"cases": 400, "wall_s": 240, "chunk": 2, "per_group": 25},
          "thorough": {"cases": 4000, "wall_s": 1500, "chunk": 5, "per_group": 400}}
ASSUMPTIONS = ["the value of a put that was itself torn down before returning may be delivered "
               "or not (0 or 1 times), never twice"]
LEVEL_TEXT = ("Fault enumeration: cancel / until-interrupt / forceful close injected at every "
              "kernel event (sampled to 25 per victim and kind in quick) of every producer, "
              "consumer and closer of a seeded scenario; the put/receive/close history is "
              "checked op by op against a sequential FIFO model (exactly-once, put order, "
              "waiter order, close semantics) plus 'no receiver left blocked while an item is "
              "buffered when the clock advances'.")
LEVEL_NOTE = "Trusts the seam's event order and the interpreter; one queue per scenario."
TECHNIQUE = "deterministic simulation, fault sweep over kernel events, sequential queue model"

DELAYS = [0.25, 0.5, 1, 1.5, 2]


def _gap(rng, ops):
    r = rng.random()
    if r < 0.3:
        ops.append({"op": "postpone", "k": rng.randint(1, 2)})
    elif r < 0.55:
        ops.append({"op": "sleep", "d": rng.choice(DELAYS)})


def generate(rng, tier):
    if rng.random() < MIXED_SHARE:
        # the primitive inside blocks of the other primitives (usimdst/mixed.py)
        return mixed.generate(rng, ID)
    actors = []
    n_prod = rng.randint(1, 3)
    n_cons = rng.randint(1, 4)
    twins = [1, 1.0, True, 0, 0.0, False, 2, 2.0, 3, 3.0, 4, 4.0] if rng.random() < 0.12 else None
    if twins:
        rng.shuffle(twins)        # items that compare equal without being the same item
    for p in range(n_prod):
        ops = []
        _gap(rng, ops)
        for j in range(rng.randint(1, 4)):
            value = p * 100 + j
            if twins:
                value = twins.pop()
            elif value in (0, 1, 101) and rng.random() < 0.5:
                value = {0: 0, 1: None, 101: ""}[value]      # falsy and None are legal messages
            ops.append({"op": "put", "on": "Q", "v": value})
            _gap(rng, ops)
        actors.append({"name": "p%d" % p, "ops": ops})
    for c in range(n_cons):
        ops = []
        _gap(rng, ops)
        for _ in range(rng.randint(1, 3)):
            if rng.random() < 0.6:
                ops.append({"op": "get", "on": "Q"})
            else:
                body = []
                _gap(rng, body)
                op = {"op": "iter", "on": "Q", "body": body}
                if rng.random() < 0.6:
                    op["n"] = rng.randint(1, 3)
                ops.append(op)
            if rng.random() < 0.25:
                # a patient receiver: gives up after a while (waiting on the empty queue, queued
                # behind another receiver, or in its loop body) and carries on - it asks again
                # later as a new receiver; nothing it was about to get may be lost
                ops[-1] = {"op": "scope", "label": "T%d_%d" % (c, len(ops)), "children": [],
                           "until": {"k": "delay", "d": rng.choice(DELAYS)}, "body": [ops[-1]]}
            _gap(rng, ops)
        actors.append({"name": "c%d" % c, "ops": ops})
    rng.shuffle(actors)
    if rng.random() < 0.5:
        ops = [{"op": "sleep", "d": rng.choice(DELAYS + [3, 4])}, {"op": "close", "on": "Q"}]
        if rng.random() < 0.5:
            ops.append({"op": "put", "on": "Q", "v": 999})
        if rng.random() < 0.3:
            ops.append({"op": "close", "on": "Q"})
        actors.append({"name": "k0", "ops": ops})
    drain = [{"op": "close", "on": "Q"}, {"op": "iter", "on": "Q"}, {"op": "get", "on": "Q"}]
    resources = {"Q": {"kind": "queue"}}
    if rng.random() < 0.3:
        # a second, unrelated queue: mostly idle, with a receiver parked on it from the start -
        # whatever happens there must not show on Q (and the other way round)
        resources["Q2"] = {"kind": "queue"}
        ops = []
        _gap(rng, ops)
        ops.append({"op": "get", "on": "Q2"} if rng.random() < 0.6 else
                   {"op": "iter", "on": "Q2", "body": [], "n": rng.randint(1, 2)})
        actors.append({"name": "c2x", "ops": ops})
        if rng.random() < 0.6:
            ops = [{"op": "sleep", "d": rng.choice(DELAYS + [3, 4])}]
            for j in range(rng.randint(1, 3)):
                ops.append({"op": "put", "on": "Q2", "v": 2000 + j})
                _gap(rng, ops)
            actors.append({"name": "p2x", "ops": ops})
        drain += [{"op": "close", "on": "Q2"}, {"op": "iter", "on": "Q2"}, {"op": "get", "on": "Q2"}]
    actors.append({"name": "zdrain", "after": 4096, "ops": drain})
    return {"property": ID,
            "scenario": {"resources": resources, "actors": actors},
            "plan": [], "config": {"waitq": rng.choice(["heap", "sd"])}}


def explore(case, base, rng, tier, one):
    victims = [a["name"] for a in case["scenario"]["actors"] if a["name"] != "zdrain"]
    if case.get("family") == "mixed":
        victims = mixed.victims(case)
    sweep(case, base, rng, one, victims, ("cancel", "interrupt", "close"),
          BUDGET[tier]["per_group"], pairs=BUDGET[tier]["per_group"])


SIGNALS = {"cancel": "CancelTask", "interrupt": "CancelScope", "close": "GeneratorExit"}


class _Item:
    """An item as the model knows it: equal only to an item of the same type and value (1, 1.0
    and True are three different messages although they compare equal)."""
    __slots__ = ("value",)

    def __init__(self, value):
        self.value = value

    def _key(self):
        return (type(self.value).__name__, self.value)

    def __eq__(self, other):
        return isinstance(other, _Item) and self._key() == other._key()

    def __hash__(self):
        return hash(self._key())

    def __repr__(self):
        return repr(self.value)


WAIT_START = ("get+", "iter+", "iter.next")
WAIT_END = ("get-", "get.closed", "get!", "iter.item", "iter-", "iter!")


def check(rec):
    """Every Queue of the scenario is checked on its own (they must not influence each other)."""
    out, seen = [], set()
    names = [name for name, spec in rec.case["scenario"]["resources"].items()
             if spec.get("kind") == "queue"]
    for name in names or ["Q"]:
        for violation in _check_one(rec, name):
            key = (violation["rule"], violation["msg"])
            if key not in seen and len(out) < 5:
                seen.add(key)
                out.append(violation)
    return out


def _check_one(rec, qname):
    out = []

    def bad(rule, msg):
        if len(out) < 5:
            out.append({"rule": "C10/" + rule, "msg": msg if qname == "Q" else
                        "[%s] %s" % (qname, msg)})

    for rule, msg in rec.kernel_violations:
        bad("kernel:" + rule, msg)
    if rec.outcome != ("ok",):
        bad("run-outcome", "run() ended with %r" % (rec.outcome,))
    faulted = rec.world.faulted

    def excused(actor, tick):
        return any(t <= tick for t, _ in faulted.get(actor, ()))

    buffer = []          # model: [value, optional?]
    closed = False
    states = rec.notes.setdefault("states", set())
    put_seen = {}        # value -> state
    received = {}        # value -> actor
    waiting = {}         # consumer -> tick at which it began to wait
    pending_put = {}     # actor -> value of its put in progress
    suspects = {}        # optional item -> (time, next time, receivers waiting over it)
    ended, excs, started = set(), {}, set()
    last_time = None
    for ev in rec.trace:
        tick, act, now, actor, kind = ev[:5]
        if kind[:3] in ("put", "get", "ite", "clo") and len(ev) > 5 and ev[5] != qname:
            continue                     # another stream of the program
        if last_time is not None and now != last_time:
            firm = [v for v, opt in buffer if not opt]
            if firm and waiting:
                bad("receiver-left-waiting",
                    "clock moved from %r to %r with items %r buffered while %r wait(s)"
                    % (last_time, now, firm, sorted(waiting)))
            # an item of a torn-down put may be stored or not; if it turns out to be delivered
            # later it *was* stored, and nobody may have been left waiting over it
            live = sorted(w for w, t in waiting.items() if not excused(w, tick))
            for value, opt in buffer:
                if opt and live and value not in suspects:
                    suspects[value] = (last_time, now, live)
        last_time = now
        states.add((min(len(buffer), 3), min(len(waiting), 3), closed,
                    any(t <= tick for v in faulted.values() for t, _ in v)))
        if kind == "start":
            started.add(actor)
        elif kind == "end":
            ended.add(actor)
        elif kind == "exc":
            excs[actor] = ev[5]
            waiting.pop(actor, None)
        elif kind == "put+":
            value = _Item(ev[6])
            pending_put[actor] = value
            if not closed:
                buffer.append([value, False])
                put_seen[value] = "stored"
            else:
                put_seen[value] = "refused"
        elif kind == "put-":
            pending_put.pop(actor, None)
            if put_seen.get(_Item(ev[6])) == "refused":
                bad("put-after-close-accepted", "put(%r) on a closed queue returned" % ev[6])
        elif kind == "put.closed":
            pending_put.pop(actor, None)
            if put_seen.get(_Item(ev[6])) != "refused":
                bad("put-refused-while-open", "put(%r) raised StreamClosed on an open queue"
                    % ev[6])
        elif kind == "put!":
            value = pending_put.pop(actor, None)
            for item in buffer:
                if item[0] == value:
                    item[1] = True       # torn down mid-put: 0 or 1 deliveries
            if not excused(actor, tick):
                bad("put-failed", "put(%r) by %s raised %r" % (value, actor, ev[7]))
        elif kind == "close+":
            closed = True
        elif kind in WAIT_START:
            if kind != "iter+" or _iter_will_wait(rec, actor, tick):
                waiting[actor] = tick
        elif kind in ("get-", "iter.item"):
            value = _Item(ev[6])
            began = waiting.pop(actor, None)
            if value in received:
                bad("duplicate", "%r delivered to %s and again to %s"
                    % (value, received[value], actor))
            received[value] = actor
            if value in suspects:
                t0, t1, who = suspects.pop(value)
                bad("receiver-left-waiting",
                    "item %r of a torn-down put was stored after all (%s received it at t=%r) but "
                    "the clock had moved from %r to %r while %r waited"
                    % (value, actor, now, t0, t1, who))
            while buffer and buffer[0][0] != value and buffer[0][1]:
                buffer.pop(0)
            if not buffer:
                bad("phantom", "%s received %r which is not buffered in the model" % (actor, value))
            elif buffer[0][0] != value:
                bad("order", "%s received %r but %r was put first"
                    % (actor, value, buffer[0][0]))
                buffer[:] = [b for b in buffer if b[0] != value]
            else:
                buffer.pop(0)
            if began is not None:
                ahead = [w for w, t in waiting.items() if t < began and not excused(w, tick)]
                if ahead:
                    bad("waiter-order", "%s (waiting since tick %d) served before %r"
                        % (actor, began, sorted(ahead)))
        elif kind in ("get.closed", "iter-"):
            began = waiting.pop(actor, None)
            if kind == "iter-" and began is None:
                continue    # ended by break / limit / exception, not by exhaustion
            firm = [v for v, opt in buffer if not opt]
            if not closed:
                bad("closed-while-open", "%s saw StreamClosed/end on an open queue" % actor)
            elif firm:
                bad("closed-before-drained", "%s saw StreamClosed/end while %r buffered"
                    % (actor, firm))
        elif kind in ("get!", "iter!"):
            waiting.pop(actor, None)
            timeout = isinstance(ev[-1], tuple) and ev[-1][0] == "CancelScope" and \
                str(ev[-1][1]).startswith("scope:T")      # the receiver's own patience ran out
            if not excused(actor, tick) and not timeout:
                bad("receive-failed", "%s: %s raised %r" % (actor, kind, ev[-1]))
    leftovers = [v for v, opt in buffer if not opt]
    if leftovers:
        bad("lost", "items %r were accepted but never received or drained" % leftovers)
    for spec in rec.case["scenario"]["actors"]:
        actor = spec["name"]
        if actor in ended:
            continue
        kinds = [k for _, k in faulted.get(actor, ())]
        if not kinds:
            bad("stuck", "%s never finished: %r" % (actor, excs.get(actor, "still blocked")))
        elif actor in started:
            meta = excs.get(actor)
            if meta is None:
                bad("faulted-actor-stuck", "%s neither finished nor was torn down" % actor)
            elif meta[0] not in [SIGNALS[k] for k in kinds]:
                bad("unexpected-exception", "%s ended with %r after %r" % (actor, meta, kinds))
    return out


def _iter_will_wait(rec, actor, tick):
    return True


def observe(rec):
    sig, stats = [], {}
    blocked = False
    wait_act = {}
    for ev in rec.trace:
        kind = ev[4]
        if kind in WAIT_START:
            wait_act[ev[3]] = ev[1]
        if kind in ("get-", "iter.item"):
            if wait_act.get(ev[3]) is not None and ev[1] - wait_act[ev[3]] > 1:
                blocked = True
        if kind[:3] in ("put", "get", "ite", "clo"):
            sig.append((ev[3], kind) + tuple(ev[6:7]))
        if kind == "exc" and ev[5] and ev[5][0] in SIGNALS.values():
            key = "fault.observed.%s" % ev[5][0]
            stats[key] = stats.get(key, 0) + 1
        if kind in ("get!", "iter!", "put!"):
            key = "probe.fault-inside-%s" % kind[:-1]
            stats[key] = stats.get(key, 0) + 1
        if kind == "put.closed":
            stats["probe.put-after-close"] = stats.get("probe.put-after-close", 0) + 1
    for tick, fault, outcome in rec.fired:
        key = "fault.%s.injected" % fault.get("as", fault["kind"])
        stats[key] = stats.get(key, 0) + 1
    if blocked:
        stats["probe.receiver-blocked"] = 1
    plan = rec.case.get("plan") or []
    sig.append(tuple((f.get("as", f["kind"]), f.get("victim"), f["tick"]) for f in plan))
    return {"stats": stats, "signature": tuple(sig),
            "nontrivial": blocked or any(k.startswith("fault.observed") for k in stats),
            "states": sorted(rec.notes.get("states", ()))}
