"""C18 SimPy layer: events fire once; processes resume with the right value and time."""
from ..simworld import execute, cleanup
from ..minisimpy import Model
from ..runner import Outcome, digest

ID = "C18"
LEVEL = "exploration"
RULE = ("seeded usim.py programs of 2-4 generator processes (plus sub-processes) built from "
        "timeouts with values, yielded native delays, manual events succeeded / failed by other "
        "processes (also before anybody waits, and twice), AllOf / AnyOf over timeouts, events, "
        "processes and nested conditions, joins, interrupts (also two in one step and on "
        "finished processes) and failing processes, run by env.run(until=None | time | event). "
        "Programs are race-free by construction: every independent delay is a distinct power of "
        "two, so equal times occur only along causal chains. Non-trivial = the program contains "
        "an interrupt, a condition, a failure or an until; distinct = distinct per-process "
        "(event, time, value) history.")
BUDGET = {"quick": {"cases": 100000, "wall_s": 240, "chunk": 200},
          "thorough": {"cases": 1000000, "wall_s": 1500, "chunk": 500}}
ASSUMPTIONS = ["only per-process histories are compared, never the order of different "
               "processes within one time step",
               "events at exactly the stop time of run(until=...) / of a failing run may or may "
               "not be processed",
               "env.run(until=event) with an event that fails is not compared: usim.py returns the "
               "exception (its annotated return type says so), SimPy raises it; the statement "
               "('returns its value' / 'ends the run with that exception') covers both"]
LEVEL_TEXT = ("Exploration: every process step's (virtual time, received value or exception), the "
              "return value / exception of env.run, the instants at which callbacks of events "
              "run (exactly once, at the trigger time) and double-trigger errors are compared "
              "with mini-simpy, an independent ~250-line event-list interpreter of the same "
              "scenario written from SimPy's documented semantics.")
LEVEL_NOTE = "Trusts mini-simpy (usimdst/minisimpy.py) and the race-free program construction."
TECHNIQUE = "deterministic simulation, race-free process graphs, independent event-list reference interpreter"

POOL = [32, 16, 8, 4, 2, 1, 0.5, 0.25, 0.125, 0.0625, 0.03125, 0.015625, 0.0078125, 0.00390625,
        64, 128, 0.001953125, 0.0009765625]


class Gen:
    def __init__(self, rng):
        self.rng = rng
        self.pool = list(POOL)
        rng.shuffle(self.pool)
        self.serial = 0
        self.names = []
        self.n_events = rng.randint(1, 3)
        self.cond_id = 0
        self.features = set()
        self.victims = set()      # processes that may be interrupted: they never act
        self.natives = set()      # native usim activities (embedded mode)

    def delay(self):
        return self.pool.pop() if self.pool else None

    def wait_op(self, me, known):
        """An op that takes (or may take) time."""
        rng = self.rng
        r = rng.random()
        if r < 0.45:
            d = self.delay()
            if d is None:
                return None
            if me in self.natives:
                return {"op": "native", "d": d}
            op = {"op": "timeout", "d": d}
            if rng.random() < 0.4:
                op["value"] = "v%r" % d
            return op
        if r < 0.52:
            d = self.delay()
            if d is None:
                return None
            op = {"op": "native", "d": d}
            r2 = rng.random()
            if r2 < 0.3:
                op["value"] = "n%r" % d          # a coroutine returning a value
            elif r2 < 0.45:
                self.serial += 1
                op["raises"] = self.serial       # a coroutine that fails
            if r2 < 0.45 and rng.random() < 0.3:
                op["scoped"] = True              # ... from inside a Scope: Concurrent[...]
            return op
        if r < 0.7:
            return {"op": "wait", "ev": "E%d" % rng.randrange(self.n_events)}
        if r < 0.8:
            others = [n for n in known if n != me]
            if others:
                return {"op": "join", "proc": rng.choice(others)}
        self.features.add("cond")
        return self.cond(me, known, 0)

    def cond(self, me, known, depth):
        rng = self.rng
        self.cond_id += 1
        members = []
        for _ in range(rng.randint(1, 3)):
            r = rng.random()
            if r < 0.5:
                d = self.delay()
                if d is not None:
                    member = {"t": d}
                    if rng.random() < 0.5:
                        member["v"] = "m%r" % d
                    members.append(member)
            elif r < 0.75:
                members.append({"ev": "E%d" % rng.randrange(self.n_events)})
            elif r < 0.88:
                others = [n for n in known if n != me and n not in self.natives]
                if others:
                    members.append({"proc": rng.choice(others)})
            elif depth < 1:
                members.append({"cond": self.cond(me, known, depth + 1)})
        if not members:
            members.append({"ev": "E0"})
        return {"op": "cond", "id": "c%d" % self.cond_id, "kind": rng.choice(["all", "any"]),
                "of": members}

    def action(self, me, known):
        rng = self.rng
        r = rng.random()
        if r < 0.4:
            first = rng.randrange(self.n_events)
            ops = [{"op": "succeed", "ev": "E%d" % first, "value": "s%d" % rng.randrange(100)}]
            if self.n_events > 1 and rng.random() < 0.35:
                # a second event triggered in the same step by the same process
                second = rng.choice([i for i in range(self.n_events) if i != first])
                if rng.random() < 0.5:
                    self.serial += 1
                    self.features.add("failure")
                    ops.append({"op": "fail", "ev": "E%d" % second, "serial": self.serial})
                else:
                    ops.append({"op": "succeed", "ev": "E%d" % second,
                                "value": "s%d" % rng.randrange(100)})
                self.features.add("same-step-triggers")
            return ops
        if r < 0.5:
            self.serial += 1
            self.features.add("failure")
            return [{"op": "fail", "ev": "E%d" % rng.randrange(self.n_events),
                     "serial": self.serial}]
        if r < 0.8:
            others = [n for n in known if n in self.victims and n != me]
            if others:
                self.features.add("interrupt")
                target = rng.choice(others)
                ops = [{"op": "interrupt", "proc": target, "cause": rng.randrange(100)}]
                if rng.random() < 0.35:
                    ops.append({"op": "interrupt", "proc": target, "cause": rng.randrange(100)})
                return ops
        name = "s%d" % (len(self.names) + 1)
        self.names.append(name)
        return [{"op": "spawn", "proc": self.process(name, known + [name], depth=1)}]

    def process(self, name, known, depth=0):
        rng = self.rng
        ops = []
        pause = "native" if name in self.natives else "timeout"
        d = self.delay()
        if d is not None:
            ops.append({"op": pause, "d": d})
        for _ in range(rng.randint(0, 4 if depth == 0 else 2)):
            if name not in self.victims and rng.random() < 0.45 and ops \
                    and ops[-1]["op"] in ("timeout", "native"):
                ops.extend(self.action(name, known))
                d = self.delay()
                if d is None:
                    break
                ops.append({"op": pause, "d": d})
            else:
                op = self.wait_op(name, known)
                if op is not None:
                    ops.append(op)
        if ops and ops[-1]["op"] not in ("timeout", "native"):
            d = self.delay()
            if d is not None:
                ops.append({"op": pause, "d": d})
            else:
                while ops and ops[-1]["op"] not in ("timeout", "native"):
                    ops.pop()
        # zero delays: a pause of no duration right behind a real one - the process stays at its
        # instant (ties stay causal), but `timeout(0)` / `time + 0` take branches of their own
        with_zero = []
        for op in ops:
            with_zero.append(op)
            if op["op"] == pause and op.get("d") and rng.random() < 0.1:
                zero = {"op": pause, "d": 0}
                if pause == "timeout" and rng.random() < 0.5:
                    self.serial += 1
                    zero["value"] = "z%d" % self.serial
                with_zero.append(zero)
                self.features.add("zero-delay")
        ops = with_zero
        spec = {"name": name, "ops": ops}
        if name in self.natives:
            spec["native"] = True
        if name not in self.victims and name not in self.natives and rng.random() < 0.06 and ops:
            self.serial += 1
            self.features.add("failure")
            ops.append({"op": "raise", "serial": self.serial})
        elif rng.random() < 0.5:
            spec["ret"] = "ret-" + name
        return spec


def generate(rng, tier):
    for _ in range(50):
        case = _generate(rng, tier)
        if case is not None:
            return case
    raise AssertionError("C18 generator: no valid program in 50 attempts")


def _generate(rng, tier):
    gen = Gen(rng)
    top = ["p%d" % i for i in range(rng.randint(2, 4))]
    gen.names = list(top)
    embedded = rng.random() < 0.35
    if embedded:
        gen.natives = {name for name in top[1:] if rng.random() < 0.5}
        gen.features.add("embedded")
        if gen.natives:
            gen.features.add("native-activities")
    gen.victims = {name for name in top if name not in gen.natives and rng.random() < 0.4}
    processes = [gen.process(name, list(top)) for name in top]
    if not embedded and rng.random() < 0.05:
        gen.serial += 1
        gen.features.add("failure")
        processes.append({"name": "early", "ops": [{"op": "raise", "serial": gen.serial}]})
    scenario = {"mode": "events", "initial_time": rng.choice([0, 0, 3, -6]),
                "events": ["E%d" % i for i in range(gen.n_events)], "processes": processes}
    if rng.random() < 0.2:
        # chaining idiom: head.callbacks.append(tail.trigger); only one process waits for the tail
        head = rng.choice(scenario["events"])
        d1, d2 = gen.delay(), gen.delay()
        if d1 is not None and d2 is not None:
            scenario["events"].append("T0")
            scenario["chains"] = [[head, "T0"]]
            processes.append({"name": "cw", "ops": [{"op": "timeout", "d": d1},
                                                    {"op": "wait", "ev": "T0"},
                                                    {"op": "timeout", "d": d2}]})
            gen.features.add("chained-trigger")
    defusers = [name for name in scenario["events"] if rng.random() < 0.2]
    if defusers:
        scenario["defusers"] = defusers
        gen.features.add("defusing-callback")
    if embedded:
        scenario["embedded"] = True
        if rng.random() < 0.2:
            # the environment is entered after the native simulation has run for a while - past
            # its own initial time (0.5 and 8 lie apart from every sum of the processes' delays)
            scenario["enter_late"] = rng.choice([0.5 + 2 ** -12, 8 + 2 ** -12])
            gen.features.add("entered-late")
        # the environment must outlive the native activities that use its events
        processes.append({"name": "keeper", "ops": [{"op": "timeout", "d": 1024}]})
    if rng.random() < 0.5:
        # every Process object gets a callback: "a Process is an event" whose callbacks run once
        scenario["process_callbacks"] = True
        gen.features.add("process-callbacks")
    r = rng.random()
    if embedded:
        pass
    elif r < 0.2:
        # 2**-12 keeps the stop time apart from every sum of the (larger) delays
        offset = rng.choice([0.75, 1.5, 3, 5, 9, 20, 40]) + 2 ** -12
        if rng.random() < 0.2:
            # decimal initial and stop times whose difference is neither exact nor dyadic (no tie
            # with an event): the run must stop at exactly the given number
            scenario["initial_time"], scenario["until"] = rng.choice(
                [(0.2, 0.9), (0.3, 0.9), (0.6, 1.7), (0.7, 2.9), (0.2, 2.9), (0.3, 1.7)])
            gen.features.add("until-decimal")
        elif rng.random() < 0.25:
            # a stop time of exactly 0 / 0.0 (falsy), reached from a negative initial time
            scenario["initial_time"] = -offset
            scenario["until"] = rng.choice([0, 0.0])
            gen.features.add("until-zero")
        else:
            scenario["until"] = scenario["initial_time"] + offset
        gen.features.add("until")
    elif r < 0.3:
        scenario["until"] = {"ev": "E%d" % rng.randrange(gen.n_events)}
        gen.features.add("until")
    case = {"property": ID, "scenario": scenario, "plan": [], "config": {},
            "features": sorted(gen.features)}
    if not valid(case):
        return None
    return case


ACTIONS = ("succeed", "fail", "interrupt", "spawn", "raise")
PAUSES = ("timeout", "native")


def valid(case):
    """The race-free construction rules (also applied to shrunk candidates)."""
    delays = []
    groups = []          # pairs of events triggered in one step by one process

    def members(spec):
        for member in spec["of"]:
            if "t" in member:
                delays.append(member["t"])
            elif "cond" in member:
                members(member["cond"])

    def process(spec):
        ops = spec.get("ops", ())
        if not ops:
            return True
        if len(ops) == 1 and ops[0]["op"] == "raise":
            return True        # fails before its first yield (nothing else acts at that time)
        if ops[0]["op"] not in PAUSES:
            return False
        last = [op for op in ops if op["op"] != "raise"]
        if last and last[-1]["op"] not in PAUSES:
            return False
        for i, op in enumerate(ops):
            kind = op["op"]
            if kind in PAUSES:
                if op["d"]:
                    delays.append(op["d"])         # (zero delays only extend a real pause)
                elif i == 0 or ops[i - 1]["op"] not in PAUSES:
                    return False
            elif kind == "cond":
                members(op)
            if kind in ACTIONS:
                before = ops[i - 1]["op"]
                paired = kind in ("succeed", "fail") and before in ("succeed", "fail") \
                    and i >= 2 and ops[i - 2]["op"] in PAUSES and ops[i - 1]["ev"] != op["ev"]
                if before not in PAUSES and not paired and not (
                        kind == "interrupt" and before == "interrupt"
                        and ops[i - 1]["proc"] == op["proc"]):
                    return False
                if kind in ("succeed", "fail") and i + 1 < len(ops) \
                        and ops[i + 1]["op"] in ("succeed", "fail") and before in PAUSES \
                        and ops[i + 1]["ev"] != op["ev"]:
                    groups.append({op["ev"], ops[i + 1]["ev"]})
                    continue
                if kind in ("succeed", "fail") and before in ("succeed", "fail"):
                    if i + 1 < len(ops) and ops[i + 1]["op"] not in PAUSES:
                        return False
                    continue
                if kind != "raise" and kind != "interrupt" and i + 1 < len(ops) \
                        and ops[i + 1]["op"] not in PAUSES:
                    return False
                if kind == "interrupt" and i + 1 < len(ops) and \
                        ops[i + 1]["op"] not in PAUSES + ("interrupt",):
                    return False
            if kind == "spawn" and not process(op["proc"]):
                return False
        return True

    def walk(spec, targets, acting):
        for op in spec.get("ops", ()):
            if op["op"] == "interrupt":
                targets.add(op["proc"])
            if op["op"] in ACTIONS:
                acting.add(spec["name"])
            if op["op"] == "spawn":
                walk(op["proc"], targets, acting)

    try:
        if not all(process(spec) for spec in case["scenario"]["processes"]):
            return False
        targets, acting = set(), set()
        for spec in case["scenario"]["processes"]:
            walk(spec, targets, acting)
        if targets & acting:
            return False      # an interrupted pause would move an action to a foreign instant
        if not _conditions_ok(case["scenario"], groups):
            return False
        until = case["scenario"].get("until")
        if isinstance(until, dict) and any(until.get("ev") in group for group in groups):
            return False      # stop event and another trigger in one step: open outcome
    except (KeyError, IndexError, TypeError):
        return False
    return len(delays) == len(set(delays))


def _conditions_ok(scenario, groups=()):
    """Members that can fail occur at most once per condition tree, and never nested; two
    events triggered in the same step never meet in an any-condition (or in nested ones)."""
    failing = set()
    conds = []

    def scan(spec):
        for op in spec.get("ops", ()):
            if op["op"] == "fail":
                failing.add("ev:" + op["ev"])
            elif op["op"] == "raise":
                failing.add("proc:" + spec["name"])
            elif op["op"] == "cond":
                conds.append(op)
            elif op["op"] == "spawn":
                scan(op["proc"])

    for spec in scenario["processes"]:
        scan(spec)

    def members(cond, depth, seen):
        for member in cond["of"]:
            label = "ev:" + member["ev"] if "ev" in member else \
                "proc:" + member["proc"] if "proc" in member else None
            if label in failing:
                if depth > 0 or label in seen:
                    return False
                seen.add(label)
            if "cond" in member and not members(member["cond"], depth + 1, seen):
                return False
        return True

    def events_of(cond, out, nested_any):
        for member in cond["of"]:
            if "ev" in member:
                out.add(member["ev"])
            if "cond" in member:
                events_of(member["cond"], out, nested_any)
        return out

    def any_inside(cond):
        return cond["kind"] == "any" or any("cond" in m and any_inside(m["cond"])
                                            for m in cond["of"])

    for cond in conds:
        if groups and any_inside(cond):
            used = events_of(cond, set(), False)
            if any(len(group & used) > 1 for group in groups):
                return False
    return all(members(cond, 0, set()) for cond in conds)


def _until_event_fails(scenario):
    until = scenario.get("until")
    if isinstance(until, dict) and "ev" in until:
        def walk(node):
            if isinstance(node, dict):
                if node.get("op") == "fail" and node.get("ev") == until["ev"]:
                    return True
                return any(walk(v) for v in node.values())
            if isinstance(node, list):
                return any(walk(v) for v in node)
            return False
        return walk(scenario["processes"])
    return False


def _native_names(scenario):
    names = set()

    def scan(spec):
        if spec.get("native"):
            names.add(spec["name"])
        for op in spec.get("ops", ()):
            if op.get("op") == "spawn":
                scan(op["proc"])
    for spec in scenario.get("processes", ()):
        scan(spec)
    return names


def compare(rec, scenario):
    out = []

    def bad(rule, msg):
        if len(out) < 5:
            out.append({"rule": "C18/" + rule, "msg": msg})

    for rule, msg in rec.kernel_violations:
        bad("kernel:" + rule, msg)
    for rule, msg in rec.monitor_violations:
        bad(rule, msg)
    model = Model(scenario)
    verdict, value, end = model.run()
    # outcome of env.run
    if verdict == "ok":
        if rec.outcome != ("ok",):
            bad("run-outcome", "env.run(until=%r) ended with %r, reference: returns None at %r"
                % (scenario.get("until"), rec.outcome, end))
    elif verdict == "value":
        want = ("ok",) if value is None else ("value", value)
        if rec.outcome != want:
            bad("run-outcome", "env.run(until=%r) ended with %r, reference: returns %r at %r"
                % (scenario.get("until"), rec.outcome, value, end))
    elif verdict == "raise":
        if rec.outcome != ("raise", ("SimProgError", value)):
            bad("run-outcome", "env.run ended with %r, reference: raises failure %r at %r"
                % (rec.outcome, value, end))
    elif verdict == "never-triggered":
        if rec.outcome[0] != "raise" or rec.outcome[1][0] != "RuntimeError":
            bad("run-outcome", "until-event never triggers but env.run ended with %r"
                % (rec.outcome,))
    stopped = getattr(rec, "env_now_after", None)
    if stopped is not None and not out and verdict != "never-triggered":
        if verdict == "ok" and scenario.get("until") is None:
            # "until nothing is left to do": an abandoned wait (e.g. the native activity of an
            # interrupted process) may or may not count as something left to do
            last = max([ev[2] for ev in rec.trace] or [end])
            if isinstance(stopped, tuple) or not last <= stopped <= end:
                bad("stop-time", "after env.run() ended env.now reads %r, but the last thing a "
                    "process did was at %r and the reference stops at %r" % (stopped, last, end))
        elif stopped != end:
            bad("stop-time", "after env.run(until=%r) ended (%s) env.now reads %r, reference: "
                "the run stops at %r" % (scenario.get("until"), verdict, stopped, end))
    if out:
        return out, model
    strict = verdict != "ok" or isinstance(scenario.get("until"), (int, float))
    observed = {}
    callbacks = {}
    for ev in rec.trace:
        actor, kind, now = ev[3], ev[4], ev[2]
        if actor == "~cb":
            callbacks.setdefault(ev[5], []).append(now)
            continue
        if kind in ("start", "end"):
            entry = (kind, now)
        elif kind == "interrupted":
            entry = (kind, now, ev[5])
        elif kind == "raise":
            entry = (kind, now, ev[5])
        elif kind == "retrigger-error":
            entry = (kind, now, ev[5])
        else:
            entry = (kind, now) + tuple(ev[5:])
        observed.setdefault(actor, []).append(entry)

    def cut(entries):
        return [e for e in entries if not strict or e[1] < end]

    for actor in sorted(set(observed) | set(model.log)):
        got = cut(observed.get(actor, []))
        want = cut([tuple(e) for e in model.log.get(actor, [])])
        if got != want:
            i = next((i for i, (a, b) in enumerate(zip(got, want)) if a != b),
                     min(len(got), len(want)))
            bad("history", "%s step %d: observed %r, reference %r"
                % (actor, i, got[i] if i < len(got) else "nothing",
                   want[i] if i < len(want) else "nothing"))
    for label in sorted(set(callbacks) | set(model.callbacks)):
        if label.startswith(("cond", "native:")):
            continue
        if label.startswith("proc:") and (not scenario.get("process_callbacks")
                                          or label[5:] in _native_names(scenario)):
            continue
        got = cut([("cb", t) for t in callbacks.get(label, [])])
        want = cut([("cb", t) for t in model.callbacks.get(label, [])])
        if got != want:
            bad("callbacks", "callbacks of %s ran at %r, reference: %r"
                % (label, [t for _, t in got], [t for _, t in want]))
    return out, model


def run_case(case):
    scenario = case["scenario"]
    rec = execute(case)
    out = Outcome()
    try:
        if _until_event_fails(scenario):
            out.violations, model = [], None
        else:
            out.violations, model = compare(rec, scenario)
        stats = {}
        for feature in case.get("features", ()):
            stats["probe.%s" % feature] = 1
        if model is not None:
            if model.retriggers:
                stats["probe.double-trigger"] = model.retriggers
            stats["probe.reference-steps"] = sum(len(v) for v in model.log.values())
        history = tuple(sorted((a, tuple(map(repr, v))) for a, v in
                               (model.log.items() if model else ())))
        out.info = {"stats": stats}
        out.stats = stats
        out.signature = history
        out.nontrivial = bool(case.get("features"))
        out.sim_time = max(0.0, rec.end_time - rec.start_time)
        out.ticks = rec.ticks
        out.digest = digest(rec.digest_items())
    finally:
        cleanup(rec)
    return out


def check(rec):
    return []


def _probe_abandoned_nested_condition():
    """F37: `timeout | (never & worker)` fires through the timeout; the nested condition is not
    detached and later fails with worker's exception - which the process did handle."""
    from .. import bind_repo
    bind_repo()
    from usim.py import Environment

    class Boom(Exception):
        pass

    env = Environment()
    log = []

    def worker(env):
        yield env.timeout(5)
        raise Boom()

    def main(env):
        job = env.process(worker(env))
        never = env.event()
        yield env.timeout(1) | (never & job)
        try:
            yield job
        except Boom:
            log.append("handled")
        yield env.timeout(10)
        log.append("went on")

    env.process(main(env))
    try:
        env.run()
    except Boom:
        return log == ["handled"]        # handled, and still the run died of it
    return False


def probe_finding(finding):
    if finding["id"] == "F37":
        return _probe_abandoned_nested_condition()
    return _probe_late_waiter(finding)


def _probe_late_waiter(finding):
    """F20: a process that starts waiting for an event in the time step in which the event
    failed (triggered, callbacks not yet run) and handles the exception does not save the run."""
    if finding["id"] != "F20":
        return False
    from .. import bind_repo
    bind_repo()
    from usim.py import Environment

    class Boom(Exception):
        pass

    env = Environment()
    event = env.event()
    log = []

    def breaker(env):
        yield env.timeout(1)
        event.fail(Boom())

    def late_waiter(env):
        yield env.timeout(1)
        try:
            yield event                  # triggered in this very step, not yet processed
        except Boom:
            log.append("handled")
        yield env.timeout(1)
        log.append("went on")

    env.process(breaker(env))
    env.process(late_waiter(env))
    try:
        env.run()
    except Boom:
        return True                      # SimPy: handled by the waiter, the run goes on
    return log != ["handled", "went on"]
