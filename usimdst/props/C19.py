"""C19 SimPy resources keep capacity, conserve content, serve requests in policy order."""
from ..simworld import execute, cleanup
from ..runner import Outcome, digest

ID = "C19"
LEVEL = "exploration"
RULE = ("seeded histories of put / get / request / release / cancel (give up after a patience "
        "timeout) with small integer amounts, items, priorities, preempt flags and filters "
        "issued by 2-5 generator processes against one Container, Store, PriorityStore, "
        "FilterStore, Resource, PriorityResource or PreemptiveResource of capacity 1-3 (or "
        "unbounded). Non-trivial = at least one request had to queue; distinct = distinct "
        "(resource type, operation history).")
BUDGET = {"quick": {"cases": 60000, "wall_s": 240, "chunk": 200},
          "thorough": {"cases": 800000, "wall_s": 1500, "chunk": 500}}
ASSUMPTIONS = ["requests are granted when issued or when a complementary request is processed "
               "(SimPy's two-phase scheme); the reference model is driven by the observed issue "
               "/ processed / cancel instants",
               "the state right after a cancel is not compared with 'head grantable' (the "
               "statement does not list cancel as a trigger)"]
LEVEL_TEXT = ("Exploration: after every issued operation, every processed request and every "
              "cancel, the public state (level / items / users / queues, which requests are "
              "triggered) is compared with a sequential reference model of that resource type "
              "(FIFO head-of-queue service; PriorityStore smallest first; FilterStore first "
              "matching item without head-of-line blocking; PriorityResource by (priority, "
              "time); PreemptiveResource eviction of the worst user with Preempted details); "
              "plus capacity and conservation invariants and delivered values.")
LEVEL_NOTE = "Trusts the reference models in usimdst/props/C19.py and the usim.py interpreter."
TECHNIQUE = "deterministic simulation, seeded operation histories, sequential reference model compared op by op"

TYPES = ["container", "store", "pstore", "fstore", "resource", "presource", "preemptive"]
DELAYS = [0.5, 1, 1, 2, 3]


# ---- reference models ----------------------------------------------------------------------
class Model:
    def __init__(self, kind, capacity, init=0):
        self.kind = kind
        self.capacity = capacity
        self.level = init
        self.items = []
        self.users = []          # request ids (preemptive: kept sorted by key)
        self.putq = []
        self.getq = []
        self.req = {}            # id -> dict
        self.granted = {}        # id -> value
        self.preempted = []      # (victim request id, by request id, usage_since, mark)
        self.seq = 0
        self.mark = lambda: 0

    # requests
    def issue(self, rid, kind, actor, data, now):
        self.seq += 1
        req = {"id": rid, "kind": kind, "actor": actor, "data": data, "time": now,
               "seq": self.seq}
        self.req[rid] = req
        if kind in ("put", "request"):
            if kind == "request":
                priority, preempt = data
                req["key"] = (priority, now, not preempt)
                req["preempt"] = preempt
            self.putq.append(rid)
            if self.kind in ("presource", "preemptive"):
                self.putq.sort(key=lambda r: (self.req[r]["key"], self.req[r]["seq"]))
            self.trigger_put(now)
        else:
            self.getq.append(rid)
            self.trigger_get(now)

    def processed(self, rid, now):
        kind = self.req[rid]["kind"]
        if kind in ("put", "request"):
            self.trigger_get(now)
        else:
            self.trigger_put(now)

    def cancel(self, rid):
        if rid in self.granted:
            return
        for queue in (self.putq, self.getq):
            if rid in queue:
                queue.remove(rid)

    def trigger_put(self, now):
        while self.putq and self.do_put(self.req[self.putq[0]], now):
            self.putq.pop(0)

    def trigger_get(self, now):
        if self.kind == "fstore":
            for rid in list(self.getq):
                if self.do_get(self.req[rid], now):
                    self.getq.remove(rid)
            return
        while self.getq and self.do_get(self.req[self.getq[0]], now):
            self.getq.pop(0)

    def do_put(self, req, now):
        kind = self.kind
        if kind == "container":
            if self.capacity - self.level >= req["data"]:
                self.level += req["data"]
                self.granted[req["id"]] = None
                return True
            return False
        if kind in ("store", "fstore", "pstore"):
            if len(self.items) < self.capacity:
                if kind == "pstore":
                    pos = len([i for i in self.items if i <= req["data"]])
                    self.items.insert(pos, req["data"])
                else:
                    self.items.append(req["data"])
                self.granted[req["id"]] = None
                return True
            return False
        # resources
        if kind == "preemptive" and len(self.users) >= self.capacity and req["preempt"]:
            worst = max(self.users, key=lambda r: (self.req[r]["key"], self.req[r]["seq"]))
            if req["key"] < self.req[worst]["key"]:
                self.users.remove(worst)
                self.preempted.append((worst, req["id"], self.req[worst]["since"], self.mark()))
        if len(self.users) < self.capacity:
            self.users.append(req["id"])
            req["since"] = now
            self.granted[req["id"]] = None
            return True
        return False

    def do_get(self, req, now):
        kind = self.kind
        if kind == "container":
            if self.level >= req["data"]:
                self.level -= req["data"]
                self.granted[req["id"]] = None
                return True
            return False
        if kind in ("store", "pstore"):
            if self.items:
                self.granted[req["id"]] = self.items.pop(0)
                return True
            return False
        if kind == "fstore":
            flt = req["data"]
            for index, item in enumerate(self.items):
                if _accepts(flt, item):
                    self.granted[req["id"]] = self.items.pop(index)
                    return True
            return False
        # release
        target = req["data"]
        if target in self.users:
            self.users.remove(target)
        self.granted[req["id"]] = None
        return True

    def state(self):
        if self.kind == "container":
            return {"level": self.level, "putq": list(self.putq), "getq": list(self.getq)}
        if self.kind in ("store", "pstore", "fstore"):
            return {"items": list(self.items), "putq": list(self.putq), "getq": list(self.getq)}
        return {"users": sorted(self.users), "count": len(self.users), "queue": list(self.putq)}


def _accepts(flt, item):
    if flt is None:
        return True
    if "eq" in flt:
        return item == flt["eq"]
    if "mod" in flt:
        return item % flt["mod"] == flt["rem"]
    if "type" in flt:
        return type(item).__name__ == flt["type"]
    return item >= flt["ge"]


def _canon(value):
    """Items that compare equal need not be the same item (1, 1.0, True): compare by type too."""
    if isinstance(value, dict):
        return {key: _canon(item) for key, item in value.items()}
    if isinstance(value, (list, tuple)):
        return [_canon(item) for item in value]
    if isinstance(value, (bool, float)):
        return (type(value).__name__, value)
    return value


# ---- generator ------------------------------------------------------------------------------
def _spec(rng, kind):
    capacity = rng.choice([1, 1, 2, 3])
    spec = {"type": kind, "capacity": capacity}
    if kind == "container":
        spec["capacity"] = rng.choice([2, 3, 4, 6])
        spec["init"] = rng.randint(0, spec["capacity"])
    if kind in ("store", "pstore", "fstore") and rng.random() < 0.3:
        spec["capacity"] = "inf"
    return spec


def generate(rng, tier):
    kind = rng.choice(TYPES)
    spec = _spec(rng, kind)
    resources = {"R": spec}
    if rng.random() < 0.35:
        # a second resource in the same environment - of the same type half of the time: whatever
        # happens on one must not show on the other (queues, users and items are per object)
        resources["R2"] = _spec(rng, kind if rng.random() < 0.5 else rng.choice(TYPES))
    serial = [0]

    def rid():
        serial[0] += 1
        return "q%d" % serial[0]

    item = [0]
    wrap_items = rng.random() < 0.3
    # a FilterStore holding items that compare equal without being the same item
    twins = kind == "fstore" and rng.random() < 0.3

    def make(res):
        kind = resources[res]["type"]
        capacity = resources[res]["capacity"]
        patience = rng.choice([None, None, 0.5, 1, 2])
        if kind == "container":
            op = {"op": rng.choice(["put", "get"]), "res": res, "id": rid(),
                  "amount": rng.randint(1, 3)}
        elif kind in ("store", "pstore", "fstore"):
            if rng.random() < 0.5:
                item[0] += 1
                value = item[0] if kind != "pstore" else rng.randint(0, 9) * 100 + item[0]
                if twins and kind == "fstore":
                    value = rng.choice([1, 1.0, True, 2, 2.0, 3, 3.0, 0, False])
                op = {"op": "put", "res": res, "id": rid(), "item": value}
                if kind == "pstore" and wrap_items:
                    op["wrap"] = True
            else:
                op = {"op": "get", "res": res, "id": rid()}
                if kind == "fstore" and rng.random() < 0.7:
                    op["filter"] = rng.choice([{"mod": 2, "rem": 0}, {"mod": 2, "rem": 1},
                                               {"mod": 3, "rem": 0}, {"ge": 4},
                                               {"eq": rng.randint(1, 8)}])
                    if twins:
                        op["filter"] = rng.choice([{"type": "int"}, {"type": "float"},
                                                   {"type": "bool"}, {"type": "float"},
                                                   {"eq": rng.randint(0, 3)}, {"ge": 2}])
        else:
            op = {"op": "request", "res": res, "id": rid(),
                  "hold": rng.choice([0, 0.5, 1, 2, 3])}     # 0: zero-length critical section
            if kind != "resource":
                op["priority"] = rng.randint(0, 3)
            if kind == "preemptive":
                op["preempt"] = rng.random() < 0.7
            if rng.random() < 0.15:
                op["release"] = False
            elif rng.random() < 0.15:
                op["release_twice"] = rng.choice([0, 0.5, 1, 2])
            elif rng.random() < 0.35:
                op["ctx"] = True         # `with resource.request() as req:`
            elif kind == "preemptive" and capacity >= 2 and rng.random() < 0.3:
                # a second slot of the same resource in a nested `with` block
                op["nested"] = {"id": rid(), "priority": rng.randint(0, 3),
                                "preempt": rng.random() < 0.7,
                                "hold": rng.choice([0.5, 1, 2, 3])}
                patience = None
        if patience is not None:
            op["patience"] = patience
        elif op["op"] in ("put", "get") and rng.random() < 0.12:
            op["wait"] = False        # fire and forget: the request is made, nobody yields it
        return op

    processes = []
    for p in range(rng.randint(2, 5)):
        ops = []
        if rng.random() < 0.5:
            ops.append({"op": "timeout", "d": rng.choice(DELAYS)})
        for _ in range(rng.randint(1, 4)):
            res = "R2" if "R2" in resources and rng.random() < 0.35 else "R"
            ops.append(make(res))
            if rng.random() < 0.5:
                ops.append({"op": "timeout", "d": rng.choice(DELAYS)})
        processes.append({"name": "p%d" % p, "ops": ops})
    return {"property": ID, "scenario": {"resources": resources, "processes": processes},
            "plan": [], "config": {}}


# ---- oracle ---------------------------------------------------------------------------------
class Follower:
    """Feeds the reference model with the observed instants and compares states."""

    def __init__(self, world):
        self.world = world
        self.models = {}
        for name, spec in world.scenario["resources"].items():
            capacity = spec.get("capacity")
            capacity = float("inf") if capacity in (None, "inf") else capacity
            model = self.models[name] = Model(spec["type"], capacity, spec.get("init", 0))
            model.mark = lambda: len(world.trace)
        self.model = self.models["R"]
        self.bad = world.monitor_violations
        self.after_cancel = False
        self.queued = False
        self.compared = 0

    def __call__(self, what, res, rid, kind, actor, data):
        world, model = self.world, self.models[res]
        now = world.env.now
        if what == "issue":
            if kind == "release":
                model.issue(rid, "release", actor, data, now)
            else:
                model.issue(rid, kind, actor, data, now)
        elif what == "processed":
            model.processed(rid, now)
        elif what == "cancel":
            model.cancel(rid)
        if getattr(world, "batching", False):
            return                 # more reports about this very instant follow
        self.compared += 1
        granted = set()
        for name, model in self.models.items():       # every resource, also the untouched ones
            observed = world.state(name)
            expected = model.state()
            granted |= set(model.granted)
            if model.putq or model.getq:
                self.queued = True
            if _canon(observed) != _canon(expected) and len(self.bad) < 5:
                self.bad.append(("state", "after %s of %s (%s) on %s at t=%r: %s observed %r, "
                                 "reference %r" % (what, rid, kind or "", res, now, name, observed,
                                                   expected)))
            spec = world.scenario["resources"][name]
            if spec["type"] == "container":
                cap = float("inf") if spec.get("capacity") in (None, "inf") else spec["capacity"]
                if not 0 <= observed["level"] <= cap:
                    self.bad.append(("capacity", "%s: level %r outside [0, %r]"
                                     % (name, observed["level"], cap)))
            elif "users" in observed and observed["count"] > spec["capacity"]:
                self.bad.append(("capacity", "%s: %d users with capacity %r"
                                 % (name, observed["count"], spec["capacity"])))
        triggered = {r for r, ev in world.requests.items() if ev.triggered}
        if triggered != granted and len(self.bad) < 5:
            self.bad.append(("grants", "after %s of %s at t=%r: triggered %r, reference grants %r"
                             % (what, rid, now, sorted(triggered ^ granted), None)))


def setup(world):
    follower = Follower(world)
    world.notes["follower"] = follower
    world.on_event = follower


def check(rec):
    out = []

    def bad(rule, msg):
        if len(out) < 5:
            out.append({"rule": "C19/" + rule, "msg": msg})

    for rule, msg in rec.kernel_violations:
        bad("kernel:" + rule, msg)
    if rec.outcome != ("ok",):
        bad("run-outcome", "env.run() ended with %r" % (rec.outcome,))
        return out
    for rule, msg in rec.monitor_violations:
        bad(rule, msg)
    follower = rec.notes["follower"]
    # delivered values
    for ev in rec.trace:
        if ev[4] == "get.done":
            model = follower.models.get(ev[5], follower.model)
            want = model.granted.get(ev[6], "<not granted>")
            if model.kind != "container" and _canon(ev[7]) != _canon(want):
                bad("value", "%s received %r from %s, reference %r" % (ev[3], ev[7], ev[6], want))
    # preemptions
    seen = [(ev[3], ev[5]) for ev in rec.trace if ev[4] == "interrupted"
            and isinstance(ev[5], tuple) and ev[5][0] == "preempted"]
    want = []
    marks = sorted((mark, name, victim, by, since) for name, model in follower.models.items()
                   for victim, by, since, mark in model.preempted)
    for mark, res_name, victim, by, since in marks:
        model = follower.models[res_name]
        actor = model.req[victim]["actor"]
        if any(ev[3] == actor and ev[4] in ("end", "interrupted") and ev[4] == "end"
               for ev in rec.trace[:mark]):
            continue                 # the victim's process had finished: nobody to interrupt
        when = rec.trace[min(mark, len(rec.trace) - 1)][2] if rec.trace else None
        want.append((actor, ("preempted", model.req[by]["actor"], since, res_name), when))
    ended_at = {ev[3]: ev[2] for ev in rec.trace if ev[4] == "end"}
    for actor in sorted({a for a, _ in seen} | {a for a, _, _ in want}):
        mine = [report for a, report in seen if a == actor]
        theirs = [(report, when) for a, report, when in want if a == actor]
        expected = [report for report, _ in theirs]
        ok = mine == expected[:len(mine)] and all(
            # an interrupt still pending when the process ends in that time step is dropped
            # ("one per yield ... ignored for a finished process", C18)
            ended_at.get(actor) == when for _, when in theirs[len(mine):])
        if not ok:
            bad("preemption", "%s: observed preemptions %r, reference %r"
                % (actor, mine, expected))
            break
    # at quiescence nothing grantable is left waiting
    for res_name, model in follower.models.items():
        probe = Model(model.kind, model.capacity)
        probe.__dict__.update({k: (list(v) if isinstance(v, list) else dict(v)
                                   if isinstance(v, dict) else v)
                               for k, v in model.__dict__.items()})
        before = set(probe.granted)
        probe.trigger_put(rec.end_time)
        probe.trigger_get(rec.end_time)
        if set(probe.granted) != before and not follower.after_cancel:
            late = sorted(set(probe.granted) - before)
            cancelled = any(ev[4] == "cancel" and (len(ev) < 6 or ev[5] == res_name or
                                                   ev[5] not in follower.models)
                            for ev in rec.trace)
            if not cancelled:
                bad("left-waiting", "requests %r on %s are grantable at quiescence but still "
                    "pending" % (late, res_name))
    return out


def run_case(case):
    rec = execute(case, setup=setup)
    out = Outcome()
    try:
        out.violations = check(rec)
        follower = rec.notes.get("follower")
        stats = {"probe.type.%s" % case["scenario"]["resources"]["R"]["type"]: 1}
        if follower is not None:
            stats["probe.states-compared"] = follower.compared
            n_pre = sum(len(m.preempted) for m in follower.models.values())
            if n_pre:
                stats["probe.preemptions"] = n_pre
            if len(follower.models) > 1:
                stats["probe.two-resources"] = 1
        if any(ev[4] == "cancel" for ev in rec.trace):
            stats["probe.cancelled-requests"] = 1
        history = tuple((ev[3], ev[4]) + tuple(map(repr, ev[5:8])) for ev in rec.trace
                        if ev[4].endswith(".issue") or ev[4] in ("cancel", "processed"))
        out.info = {"stats": stats}
        out.stats = stats
        out.signature = (case["scenario"]["resources"]["R"]["type"], history)
        out.nontrivial = bool(follower and follower.queued)
        out.sim_time = rec.end_time - rec.start_time
        out.ticks = rec.ticks
        out.digest = digest(rec.digest_items())
    finally:
        cleanup(rec)
    return out
