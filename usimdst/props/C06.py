"""C06 Task lifecycle: forward-only status, stable result, precise cancellation."""
import copy

from ..world import execute, cleanup
from ..runner import Outcome, digest

ID = "C06"
LEVEL = "fault_enumeration"
RULE = ("seeded scenarios with one observed task (payload from sleeps, postponements, a contended "
        "lock, a queue get, a nested scope, optionally failing or returning a value; optional "
        "start delay), 0-4 awaiters (before/after completion, repeatedly, via the task and via "
        "task.done) in an outer scope and 0-2 bystander siblings; run fault-free and once per "
        "kernel event with task.cancel(token) injected there, plus seeded pairs of cancels with "
        "distinct tokens. Task.status is sampled before every activation. Non-trivial = the "
        "cancel was delivered inside the payload or prevented its start; distinct = distinct "
        "(observed-task event sequence, awaiter results, fault positions).")
BUDGET = {"quick": {"cases": 1200, "wall_s": 240, "chunk": 3, "per_group": 60},
          "thorough": {"cases": 8000, "wall_s": 1500, "chunk": 5, "per_group": 500}}
ASSUMPTIONS = ["each faulted run is compared with a fault-free twin run of the same scenario "
               "(bystanders and parent must behave identically)"]
LEVEL_TEXT = ("Fault enumeration: task.cancel(token) injected at every kernel event of a seeded "
              "scenario (sampled to 60 in quick; all in thorough), plus double cancels; status is "
              "sampled before every activation (forward-only, single terminal state), all "
              "awaiters must obtain the identical value / exception object, a pre-start cancel "
              "must keep the payload's first statement from running, a cancel of a suspended "
              "task must surface inside the payload within that time step with the token of the "
              "first effective cancel, a late cancel must change nothing, and parent scope and "
              "siblings must behave exactly as in the fault-free twin run.")
LEVEL_NOTE = "Trusts the seam's event order, the interpreter and the public Task.status property."
TECHNIQUE = ("deterministic simulation, cancel sweep over kernel events, status monitor, "
             "twin-run comparison")

DELAYS = [0.25, 0.5, 1, 1.5, 2]
ORDER = {"CREATED": 0, "RUNNING": 1, "CANCELLED": 2, "FAILED": 2, "SUCCESS": 2}


def _payload(rng):
    ops = []
    for _ in range(rng.randint(0, 4)):
        r = rng.random()
        if r < 0.3:
            ops.append({"op": "sleep", "d": rng.choice(DELAYS)})
        elif r < 0.5:
            ops.append({"op": "postpone", "k": rng.randint(1, 3)})
        elif r < 0.65:
            ops.append({"op": "lock", "on": "L", "body": [{"op": "sleep", "d": 0.5}]})
        elif r < 0.78:
            ops.append({"op": "get", "on": "Q"})
        elif r < 0.9:
            ops.append({"op": "scope", "label": "inner%d" % len(ops),
                        "children": [{"name": "g%d" % len(ops),
                                      "ops": [{"op": "sleep", "d": rng.choice(DELAYS)}]}],
                        "body": [{"op": "postpone", "k": 1}]})
        elif r < 0.94:
            ops.append({"op": "now"})
        else:
            # further places to be suspended in when a cancellation arrives: a ticker, a
            # connective, an iteration, another task, a borrow block, collect(), an until-block
            n = len(ops)
            ops.append(rng.choice([
                {"op": "ticker", "kind": rng.choice(["interval", "delay"]), "p": 0.5,
                 "bodies": [0, 0.25, 0]},
                {"op": "wait", "id": "tw%d" % n, "x": {"k": "and", "xs": [
                    {"k": "flag", "n": "A"}, {"k": "flag", "n": "G"}]}},
                {"op": "iter", "on": "Q", "n": 1},
                {"op": "await_task", "task": "partner"},
                {"op": "borrow", "on": "R", "id": "tb%d" % n, "mode": "borrow",
                 "amounts": {"a": 1}, "body": [{"op": "sleep", "d": 0.5}]},
                {"op": "collect", "id": "tc%d" % n, "acts": [
                    {"name": "ca%d" % n, "ops": [{"op": "sleep", "d": 0.5}], "ret": 1},
                    {"name": "cb%d" % n, "ops": [{"op": "sleep", "d": 1}], "ret": 2}]},
                {"op": "scope", "label": "iu%d" % n, "children": [],
                 "until": {"k": "delay", "d": 1}, "body": [{"op": "sleep", "d": 2}]}]))
    if rng.random() < 0.12:
        ops.append({"op": "raise", "type": rng.choice(["E", "A", "K", "Z"])})
    if rng.random() < 0.3 and ops:
        # a cleanup that suspends: the task survives its cancellation for a while
        handler = [{"op": "sleep", "d": rng.choice(DELAYS)}] if rng.random() < 0.6 \
            else [{"op": "postpone", "k": rng.randint(1, 2)}]
        if rng.random() < 0.3:
            handler.append({"op": "sleep", "d": rng.choice(DELAYS)})
        ops = [{"op": "finally", "body": ops, "handler": handler}]
    return ops


def generate(rng, tier):
    target = {"name": "t", "ops": _payload(rng), "ret": 42}
    r = rng.random()
    if r < 0.2:
        target["after"] = rng.choice(DELAYS)
    elif r < 0.3:
        target["at"] = rng.choice([0.5, 1, 2])
    siblings = [target]
    for i in range(rng.randint(0, 2)):
        ops = []
        for _ in range(rng.randint(1, 3)):
            ops.append({"op": "sleep", "d": rng.choice(DELAYS)})
            ops.append({"op": "now"})
        siblings.append({"name": "s%d" % i, "ops": ops})
    # partner that contends for the lock and feeds the queue
    siblings.append({"name": "partner", "ops": [
        {"op": "lock", "on": "L", "body": [{"op": "sleep", "d": rng.choice(DELAYS)}]},
        {"op": "put", "on": "Q", "v": 1}, {"op": "sleep", "d": 1},
        {"op": "put", "on": "Q", "v": 2}, {"op": "put", "on": "Q", "v": 3},
        {"op": "put", "on": "Q", "v": 4}, {"op": "flag_set", "on": "A", "to": True}]})
    rng.shuffle(siblings)
    watched = [spec["name"] for spec in siblings if spec["name"].startswith("s")]
    if watched and rng.random() < 0.15:
        # a watcher task whose payload is a sibling *task* (`scope.do(task)`): cancelling the
        # watcher is cancelling a child like any other - the watched sibling carries on
        target_name = rng.choice(watched)
        index = next(i for i, spec in enumerate(siblings) if spec["name"] == target_name)
        siblings.insert(index + 1, {"name": "wr", "wraps": target_name, "ops": []})
    host_body = []
    if rng.random() < 0.4:
        host_body.append({"op": "sleep", "d": rng.choice(DELAYS)})
    if rng.random() < 0.3:
        host_body.append({"op": "status", "task": "t"})
    if rng.random() < 0.3:
        host_body.append({"op": "await_task", "task": "t"})
    inner = {"op": "scope", "label": "inner", "children": siblings, "body": host_body}
    resources = {"L": {"kind": "lock"}, "Q": {"kind": "queue"}, "A": {"kind": "flag"},
                 "G": {"kind": "flag", "init": True},
                 "R": {"kind": "capacities", "levels": {"a": 2}}}
    r = rng.random()
    if r < 0.1:
        # the scope of the task is torn down in the very turn in which its children were
        # started (and possibly cancelled): the body fails at once ...
        host_body.insert(0, {"op": "raise", "type": "E"})
    elif r < 0.2:
        # ... or the block is interrupted at its first suspension / after a while
        resources["STOP"] = {"kind": "flag", "init": rng.random() < 0.6}
        inner["until"] = {"k": "flag", "n": "STOP"}
        if not resources["STOP"]["init"]:
            siblings.append({"name": "stopper", "ops": [{"op": "sleep", "d": rng.choice(DELAYS)},
                                                        {"op": "flag_set", "on": "STOP"}]})
    host = {"name": "host", "ops": [{"op": "try", "body": [inner]},
                                    {"op": "now", "tag": "after-inner"}]}
    outer = [host]
    for i in range(rng.randint(0, 4)):
        ops = []
        r = rng.random()
        if r < 0.25:
            pass                      # awaits while the task may still be CREATED
        elif r < 0.5:
            ops.append({"op": "postpone", "k": rng.randint(1, 2)})
        elif r < 0.9:
            ops.append({"op": "sleep", "d": rng.choice(DELAYS + [3, 6])})
        else:
            ops.append({"op": "sleep", "d": 50})
        for _ in range(rng.randint(1, 3)):
            r = rng.random()
            if r < 0.6:
                ops.append({"op": "await_task", "task": "t"})
            elif r < 0.8:
                ops.append({"op": "await_done", "task": "t"})
            else:
                ops.append({"op": "status", "task": "t"})
        outer.append({"name": "w%d" % i, "ops": ops})
    actors = [{"name": "par", "ops": [{"op": "scope", "label": "outer", "children": outer,
                                        "body": []}]}]
    return {"property": ID,
            "scenario": {"resources": resources, "actors": actors},
            "plan": [], "config": {"waitq": rng.choice(["heap", "sd"])}}


def explore(case, base, rng, tier, one):
    n_ticks = base.ticks
    ticks = list(range(1, n_ticks + 1))
    cap = BUDGET[tier]["per_group"]
    singles = ticks if len(ticks) <= cap else sorted(rng.sample(ticks, cap))
    for tick in singles:
        variant = dict(case)
        variant["plan"] = [{"tick": tick, "kind": "cancel", "victim": "t", "token": ["c1", tick]}]
        if one(variant).violations:
            return
    if any(a.get("name") == "wr" for a in _walk_actors(case["scenario"])):
        for tick in (ticks if len(ticks) <= cap // 2 else sorted(rng.sample(ticks, cap // 2))):
            variant = dict(case)
            variant["plan"] = [{"tick": tick, "kind": "cancel", "victim": "wr",
                                "token": ["cw", tick]}]
            if one(variant).violations:
                return
    for _ in range(min(cap // 3, len(ticks))):
        first = rng.choice(ticks)
        second = min(n_ticks, first + rng.choice([0, 1, 1, 2, 3, 5, 9]))
        variant = dict(case)
        variant["plan"] = [
            {"tick": first, "kind": "cancel", "victim": "t", "token": ["c1", first]},
            {"tick": second, "kind": "cancel", "victim": "t", "token": ["c2", second]}]
        if one(variant).violations:
            return


def _walk_actors(node):
    if isinstance(node, dict):
        if "name" in node and "ops" in node:
            yield node
        for value in node.values():
            yield from _walk_actors(value)
    elif isinstance(node, list):
        for item in node:
            yield from _walk_actors(item)


class StatusMonitor:
    def __init__(self, world):
        self.world = world
        self.seq = []          # compressed sequence of observed status names
        self.bad = world.monitor_violations

    def __call__(self, seam, loop, target, signal):
        task = self.world.tasks.get("t")
        if task is None:
            return
        status = task.status.name
        if not self.seq or self.seq[-1] != status:
            if self.seq:
                prev = self.seq[-1]
                if ORDER[status] < ORDER[prev] or ORDER[prev] == 2:
                    self.bad.append(("status-regressed", "status of t went %s -> %s at tick %d"
                                     % (prev, status, seam.tick)))
            self.seq.append(status)


def setup(world):
    monitor = StatusMonitor(world)
    world.notes["status"] = monitor
    world.seam.monitors.append(monitor)
    world.seam.post_monitors.append(monitor)


def _by_actor(rec, skip=()):
    out = {}
    for ev in rec.trace:
        if ev[3] in skip:
            continue
        out.setdefault(ev[3], []).append((ev[2],) + tuple(ev[4:]))
    return out


def check(rec, twin=None):
    out = []

    def bad(rule, msg):
        if len(out) < 5:
            out.append({"rule": "C06/" + rule, "msg": msg})

    for rule, msg in rec.kernel_violations:
        bad("kernel:" + rule, msg)
    if rec.outcome != ("ok",):
        bad("run-outcome", "run() ended with %r" % (rec.outcome,))
    for rule, msg in rec.monitor_violations:
        bad(rule, msg)
    cancels = [f for f in rec.fault_log if f["kind"] == "cancel" and f["victim"] == "t"]
    t_events = [ev for ev in rec.trace if ev[3] == "t"]
    started = any(ev[4] == "start" for ev in t_events)
    t_exc = next((ev for ev in t_events if ev[4] == "exc"), None)
    observed = [ev for ev in t_events if ev[4] in ("exc", "cleanup+") and ev[5]
                and ev[5][0] == "CancelTask"]
    seen_tokens = {}
    for ev in t_events:
        # (any record of a cancellation reaching code of t: exc, cleanup+, <block>.body!, ...)
        for field in ev[5:]:
            if isinstance(field, tuple) and len(field) > 2 and field[0] == "CancelTask" \
                    and field[1] == "task:t":
                seen_tokens.setdefault(tuple(field[2]), ev[2])   # first time each token surfaced
    t_end = next((ev for ev in t_events if ev[4] == "end"), None)
    final = rec.final_status.get("t")
    # what do awaiters see
    results = []
    for ev in rec.trace:
        if ev[4] == "await_task-" and ev[5] == "t":
            results.append(("value", ev[6], None, ev[2], ev[3]))
        elif ev[4] == "await_task.exc" and ev[5] == "t":
            results.append(("exc", ev[6], ev[7], ev[2], ev[3]) + (ev[8],))
    kinds = {(r[0], r[1], r[2]) for r in results}
    if len(kinds) > 1:
        bad("awaiters-disagree", "awaiters of t obtained different outcomes: %r" % sorted(
            kinds, key=repr))
    # effective cancel
    first_live = next((f for f in cancels if f["status"] in ("CREATED", "RUNNING")), None)
    if not started:
        if "t" in rec.final_status:
            pre = next((f for f in cancels), None)
            if pre is None:
                if final != "CANCELLED" and rec.outcome == ("ok",) and twin is None:
                    bad("never-started", "t never ran its first statement (status %s)" % final)
            elif final != "CANCELLED":
                bad("prestart-cancel-status", "t cancelled before start but status is %s" % final)
    else:
        pre = [f for f in cancels if f["status"] == "CREATED"]
        if pre:
            bad("prestart-cancel-ran-payload",
                "t was cancelled while CREATED (tick %d) but its payload ran" % pre[0]["tick"])
        # a task waiting for its start date (after= / at=) has not started either, whatever
        # its status says: its first statement logs "start"
        first_tick = min(ev[0] for ev in t_events if ev[4] == "start")
        early = [f for f in cancels if f["status"] == "RUNNING" and f["tick"] < first_tick]
        if early and not pre:
            bad("prestart-cancel-ran-payload",
                "t was cancelled at t=%r (tick %d) before any of its code had run, but its "
                "payload started afterwards (tick %d)" % (early[0]["time"], early[0]["tick"],
                                                           first_tick))
    if t_exc is not None and t_exc[5][0] == "CancelTask":
        meta = t_exc[5]
        if meta[1] != "task:t":
            bad("foreign-cancel", "t received the cancellation of %s" % meta[1])
        match = [f for f in cancels if f["token"] == meta[2]]
        if not match:
            bad("unknown-token", "t received CancelTask%r which nobody sent" % (meta[2],))
        else:
            surfaced = seen_tokens.get(tuple(meta[2]), t_exc[2])
            if match[0]["time"] != surfaced:
                bad("cancel-late", "cancel sent at %r surfaced in t at %r"
                    % (match[0]["time"], surfaced))
            if first_live is not None and match[0] is not first_live and len(seen_tokens) < 2:
                bad("wrong-cancel-won", "t reports token %r but the first effective cancel "
                    "carried %r" % (meta[2], first_live["token"]))
        if final != "CANCELLED":
            bad("cancelled-status", "t was cancelled but its status is %s" % final)
        for res in results:
            if res[0] != "exc" or res[1][0] != "TaskCancelled":
                bad("awaiter-result", "%s awaited cancelled t and got %r" % (res[4], res[:2]))
            elif res[1][1] != "task:t" or tuple(res[1][2]) != tuple(meta[2]):
                bad("awaiter-token", "%s got %r, expected subject t and token %r"
                    % (res[4], res[1], meta[2]))
    elif t_exc is not None and t_exc[5][0] in ("ProgError", "ProgErrorA", "ProgErrorZ", "ProgKeyError"):
        if final != "FAILED":
            bad("failed-status", "t raised %r but its status is %s" % (t_exc[5], final))
        for res in results:
            if res[0] != "exc" or res[1] != t_exc[5]:
                bad("awaiter-result", "%s awaited failed t and got %r, expected %r"
                    % (res[4], res[:2], t_exc[5]))
    elif t_end is not None:
        if final != "SUCCESS":
            bad("success-status", "t finished but its status is %s" % final)
        for res in results:
            if res[0] != "value" or res[1] != 42:
                bad("awaiter-result", "%s awaited finished t and got %r" % (res[4], res[:2]))
    if not started and first_live is not None and "t" in rec.final_status:
        # the first cancel that met a live task decides; one that arrives after the task was
        # closed by its scope changes nothing, and a later close must not replace it either
        token = first_live["token"]
        for res in results:
            if first_live["status"] == "RUNNING" and res[0] == "exc" and \
                    res[1] == ("TaskClosed",):
                # waiting for its start date: the cancel is a pending signal, and a forceful close
                # of the scope in that time step may reach the task first (as for a started task)
                continue
            if res[0] != "exc" or res[1][0] != "TaskCancelled" or \
                    tuple(res[1][2]) != tuple(token) or res[1][1] != "task:t":
                bad("awaiter-token", "%s awaited pre-start-cancelled t and got %r (token %r)"
                    % (res[4], res[:2], token))
    # a cancel sent to a live, suspended task is raised inside it within that time step (the
    # task may survive it in a cleanup handler, where the next cancel must reach it as well)
    for fault in cancels:
        if fault["status"] != "RUNNING":
            continue
        later = [ev for ev in t_events if ev[2] > fault["time"]]
        seen_at = seen_tokens.get(tuple(fault["token"]))
        if later and seen_at is None:
            bad("cancel-ignored", "t was cancelled at %r (tick %d, token %r) but never saw that "
                "cancellation and still acted at %r: %r" % (
                    fault["time"], fault["tick"], fault["token"], later[0][2], later[0][4]))
        elif seen_at is not None and seen_at != fault["time"]:
            bad("cancel-late", "cancel sent at %r surfaced in t at %r" % (fault["time"], seen_at))
    # every awaiter is served once the task is done
    if final in ("SUCCESS", "FAILED", "CANCELLED") and rec.outcome == ("ok",):
        waiting = {}
        for ev in rec.trace:
            if ev[4] in ("await_task+", "await_done+") and ev[5] == "t":
                waiting[ev[3]] = ev
            elif ev[4] in ("await_task-", "await_task.exc", "await_task!", "await_done-") \
                    and ev[5] == "t":
                waiting.pop(ev[3], None)
            elif ev[4] == "exc":
                waiting.pop(ev[3], None)
        for actor, ev in waiting.items():
            bad("awaiter-never-resumed", "%s awaits t since t=%r (tick %d); t is %s but the "
                "awaiter was never resumed" % (actor, ev[2], ev[0], final))
    # done-waiters
    for ev in rec.trace:
        if ev[4] == "await_done-" and ev[5] == "t" and ev[6] in ("CREATED", "RUNNING"):
            bad("done-early", "%s passed `await t.done` while t is %s" % (ev[3], ev[6]))
    status_seq = rec.notes["status"].seq
    if status_seq and final is not None and status_seq[-1] != final and ORDER[status_seq[-1]] == 2:
        bad("status-changed-after-done", "t was %s, is %s at the end" % (status_seq[-1], final))
    # twin comparison: a cancelled child never disturbs parent and siblings
    wr_cancels = [f for f in rec.fault_log if f["kind"] == "cancel" and f["victim"] == "wr"]
    if twin is not None and (cancels or wr_cancels):
        mine = _by_actor(rec, skip=("t",))
        theirs = _by_actor(twin, skip=("t",))
        failed = t_exc is not None and t_exc[5][0].startswith("Prog")
        twin_failed = any(ev[3] == "t" and ev[4] == "exc" and ev[5][0].startswith("Prog")
                          for ev in twin.trace)
        for actor in theirs:
            if actor.startswith("s") and not twin_failed and not failed:
                if mine.get(actor) != theirs[actor]:
                    bad("sibling-disturbed", "%s behaves differently when t is cancelled: %r"
                        % (actor, _first_diff(mine.get(actor, []), theirs[actor])))
        twin_raised = {(ev[5], ev[6]) for ev in twin.trace if ev[4] == "scope!"}
        twin_caught = {(ev[3], ev[5]) for ev in twin.trace if ev[4] == "caught"}
        if not failed and not twin_failed:
            for ev in rec.trace:
                if ev[4] == "scope!" and ev[5] in ("inner", "outer") \
                        and (ev[5], ev[6]) not in twin_raised:
                    bad("parent-aborted", "scope %s raised %r after t was cancelled"
                        % (ev[5], ev[6]))
        if not twin_failed:
            for ev in rec.trace:
                if ev[4] == "caught" and (ev[3], ev[5]) not in twin_caught:
                    bad("parent-aborted", "%s caught %r after t was cancelled" % (ev[3], ev[5]))
    return out


def _first_diff(a, b):
    for i, (x, y) in enumerate(zip(a, b)):
        if x != y:
            return (i, x, y)
    return (min(len(a), len(b)), "length", len(a), len(b))


def run_case(case):
    twin = None
    if case.get("plan"):
        base = dict(case)
        base["plan"] = []
        twin = execute(base, setup=setup)
    rec = execute(case, setup=setup)
    out = Outcome()
    try:
        out.violations = check(rec, twin)
        out.info = observe(rec)
        out.stats = out.info["stats"]
        out.signature = out.info["signature"]
        out.nontrivial = out.info["nontrivial"]
        out.sim_time = rec.end_time - rec.start_time
        out.ticks = rec.ticks
        out.digest = digest(rec.digest_items())
    finally:
        cleanup(rec)
        if twin is not None:
            cleanup(twin)
    return out


def observe(rec):
    stats = {}
    t_events = tuple((ev[4],) + tuple(ev[5:6]) for ev in rec.trace if ev[3] == "t")
    results = tuple(sorted({(ev[4], repr(ev[6])) for ev in rec.trace
                            if ev[4] in ("await_task-", "await_task.exc") and ev[5] == "t"}))
    nontrivial = False
    for fault in rec.fault_log:
        key = "fault.cancel.while-%s" % fault.get("status", "?")
        stats[key] = stats.get(key, 0) + 1
    started = any(ev[0] == "start" for ev in t_events)
    if rec.fault_log and not started:
        stats["probe.start-prevented"] = 1
        nontrivial = True
    if any(ev[0] == "exc" and ev[1] and ev[1][0] == "CancelTask" for ev in t_events):
        stats["fault.observed.CancelTask"] = 1
        nontrivial = True
    stats["probe.awaiter-results"] = len([1 for ev in rec.trace
                                          if ev[4] in ("await_task-", "await_task.exc")])
    plan = tuple((f["kind"], f["tick"]) for f in rec.case.get("plan") or ())
    seq = tuple(rec.notes["status"].seq)
    return {"stats": stats, "signature": (t_events, results, plan, seq),
            "nontrivial": nontrivial, "states": [seq]}
