"""C03 The kernel never fails on its own: no leaked signal, internal error or livelock."""
from .. import union
from ..runner import Outcome, digest
from ..faults import iter_actors
from ..patterns import displaced_close, DISPLACED_CLOSE_KEY

ID = "C03"
LEVEL = "exploration"
RULE = ("seeded programs of the union workload (every family of the other checks: timers with "
        "now / past / infinite dates, scope trees with failures, task cancellation, until blocks "
        "over all notification kinds incl. already-true ones, condition trees, locks, queues, "
        "channels, resources, pipes, tickers, collect/first, the operation table, usim.py "
        "resources) with 0-3 injected faults per run (cancel / until-interrupt / forceful close "
        "at seeded kernel events, the same victim twice, faults before start and racing with "
        "completion, gc.collect()). Non-trivial = at least one fault was observed by its victim "
        "or a block ended by an exception; distinct = distinct observable trace digest.")
BUDGET = {"quick": {"cases": 90000, "wall_s": 240, "chunk": 200},
          "thorough": {"cases": 1200000, "wall_s": 1500, "chunk": 500}}
ASSUMPTIONS = ["programs only make valid API calls (the generators' validity rules)",
               "known finding F11 (first() with a failing contestant and a suspended consumer) "
               "is not generated here; it is probed by C16"]
LEVEL_TEXT = ("Exploration: run() must end normally or with an exception object raised by the "
              "program (or Concurrent of such); every exception an activity sees at an await "
              "must be a program exception, a documented API exception, a cancellation of its "
              "own task, the signal of a scope on its own stack, or a forceful close; every "
              "activation carrying a signal must be addressed to its target; a run must not "
              "exceed 20 000 activations within one virtual time step (livelock).")
LEVEL_NOTE = ("Trusts the classification of exceptions by their metadata (World.meta) and the "
              "soft addressee monitor (reads Interrupt.token / .subject; switches itself off if "
              "those attributes disappear).")
TECHNIQUE = "deterministic simulation, whole-API programs with random fault plans, exception-provenance and addressee monitors, livelock cap"

PROGRAM = ("ProgError", "ProgErrorA", "ProgErrorB", "ProgErrorZ", "ProgKeyError", "ProgAssertion", "ProgAssertionZ",
           "ProgSystemExit", "ProgKeyboardInterrupt", "SimProgError")
PRIVILEGED = ("AssertionError", "SystemExit", "KeyboardInterrupt")
API = ("TaskCancelled", "TaskClosed", "VolatileTaskClosed", "StreamClosed", "ResourcesUnavailable",
       "ScopeClosed", "IntervalExceeded", "SimProgError", "Interrupt")


def generate(rng, tier):
    case = union.generate(rng, faults=True)
    case["property"] = ID
    return case


def program_made(meta):
    """Is this (metadata of an) exception one the program raised itself?"""
    if meta is None:
        return True
    name = meta[0]
    if name in PROGRAM:
        return True
    if name in PRIVILEGED:
        return len(meta) > 1 and isinstance(meta[1], int)
    if name == "Concurrent":
        return all(program_made(child) for child in meta[1:])
    return False


class Addressee:
    """Soft monitor: a signal is only ever thrown into the activity it was created for."""

    def __init__(self, world):
        self.world = world
        self.enabled = True
        self.checked = 0

    def __call__(self, seam, loop, target, signal):
        if signal is None or not self.enabled:
            return
        try:
            subject = getattr(signal, "subject", None)
            if subject is not None:
                owner = getattr(subject, "__runner__", None)
                if owner is None:
                    owner = getattr(subject, "_activity", None)
                if owner is None:
                    return
            else:
                token = signal.token
                owner = token[-1] if len(token) >= 2 else None
                if owner is None or not hasattr(owner, "cr_frame"):
                    return
        except Exception:
            self.enabled = False
            return
        self.checked += 1
        if owner is not target:
            self.world.monitor_violations.append((
                "signal-misdelivered", "%s created for %s was thrown into %s"
                % (type(signal).__name__, seam.name_of(owner), seam.name_of(target))))


def setup(world):
    monitor = Addressee(world)
    world.notes["addressee"] = monitor
    world.seam.monitors.append(monitor)


def check(rec):
    out = []

    def bad(rule, msg):
        if len(out) < 5:
            out.append({"rule": "C03/" + rule, "msg": msg})

    for rule, msg in rec.kernel_violations:
        bad("kernel:" + rule, msg)
    for rule, msg in rec.monitor_violations:
        bad(rule, msg)
    outcome = rec.outcome
    if outcome[0] == "abort":
        if outcome[1] == "Livelock":
            bad("livelock", outcome[2])
    elif outcome[0] == "raise":
        meta = outcome[1]
        documented = meta[0] == "RuntimeError" and len(meta) > 1 and \
            str(meta[1]).startswith("'until' event was not triggered")
        if not program_made(meta) and not documented:
            bad("foreign-exception-escaped-run", "run() ended with %r, which no program raised"
                % (meta,))
    if rec.case.get("engine") == "sim":
        return out
    caged = {spec["name"]: spec.get("cage") for spec in iter_actors(rec.case["scenario"])}
    stack = {}
    for ev in rec.trace:
        actor, kind = ev[3], ev[4]
        if kind == "scope+":
            stack.setdefault(actor, []).append(ev[5])
        elif kind in ("scope-", "scope!"):
            if stack.get(actor) and stack[actor][-1] == ev[5]:
                meta = ev[6] if kind == "scope!" else None
                _judge(bad, actor, kind, meta, stack.get(actor, ()), caged)
                stack[actor].pop()
            continue
        meta = None
        if kind == "exc" or kind == "caught":
            meta = ev[5]
        elif kind in ("await_task.exc", "flow.exc"):
            meta = ev[6]        # what an awaiting side / a flow helper was handed
        elif kind.endswith("!") or kind.endswith(".abort"):
            meta = ev[-1] if isinstance(ev[-1], tuple) else None
        if meta is not None:
            _judge(bad, actor, kind, meta, stack.get(actor, ()), caged)
    victims = displaced_close(rec)
    for violation in out:
        if violation["rule"] == "C03/internal-error-surfaced" and "RuntimeError" in violation["msg"] \
                and any(violation["msg"].startswith(actor + " saw") for actor in victims):
            violation["key"] = "%s (%s): %s" % (DISPLACED_CLOSE_KEY, ", ".join(victims),
                                               violation["msg"])
    return out


F38_CASE = None      # set below: the smallest history found by the thorough tier


def _judge(bad, actor, kind, meta, scopes, caged):
    if meta is None or program_made(meta):
        return
    name = meta[0]
    base = actor.split(":")[-1]
    if name == "Concurrent":
        for child in meta[1:]:
            _judge(bad, actor, kind, child, scopes, caged)
        return
    if name == "Interrupt":
        # world programs never raise usim.py's Interrupt: this is the kernel's own wake-up signal
        # (postpone / suspend / a notification), which its wait consumes - one that is raised
        # *out of* a wait was delivered after the activity had left the wait it belongs to
        bad("foreign-signal", "%s saw the kernel's wake-up signal %r (at %s): it was delivered "
            "after the wait it belongs to had been left" % (actor, meta, kind))
        return
    if name in API or name == "GeneratorExit":
        return
    if name == "CancelTask":
        if meta[1] in ("task:" + actor, "task:" + base, "task:cage:" + base):
            return
        bad("foreign-signal", "%s saw %r (at %s) which belongs to another task" % (actor, meta, kind))
        return
    if name == "CancelScope":
        label = meta[1][len("scope:"):]
        if label in scopes or (label == "?" and caged.get(base) == "body") or \
                (label == "?" and actor.startswith("cage:")):
            return
        bad("foreign-signal", "%s saw %r (at %s) but is inside %r only" % (actor, meta, kind,
                                                                          list(scopes)))
        return
    bad("internal-error-surfaced", "%s saw %r (at %s), which no program raised" % (actor, meta, kind))


def run_case(case):
    rec, cleanup = union.execute(case, setup=setup)
    out = Outcome()
    try:
        out.violations = check(rec)
        stats = {"probe.family.%s" % case.get("family", "?"): 1}
        observed = 0
        for ev in rec.trace:
            if ev[4] == "exc" and ev[5] and ev[5][0] in ("CancelTask", "CancelScope",
                                                        "GeneratorExit"):
                observed += 1
                key = "fault.observed.%s" % ev[5][0]
                stats[key] = stats.get(key, 0) + 1
        for tick, fault, outcome in rec.fired:
            key = "fault.%s.%s" % (fault.get("as", fault["kind"]), outcome.split(":")[0])
            stats[key] = stats.get(key, 0) + 1
        if rec.outcome[0] == "abort":
            stats["probe.%s" % rec.outcome[1].lower()] = 1
        if rec.outcome[0] == "raise":
            stats["probe.run-raised-program-exception"] = 1
        if rec.unraisable:
            stats["probe.unraisable-during-run"] = len(rec.unraisable)
        monitor = rec.notes.get("addressee") if rec.notes else None
        if monitor is not None:
            stats["probe.signals-addressee-checked"] = monitor.checked
            if not monitor.enabled:
                stats["probe.addressee-monitor-off"] = 1
        raised = any(ev[4] in ("scope!", "caught") for ev in rec.trace)
        out.info = {"stats": stats}
        out.stats = stats
        out.digest = digest((rec.digest_items(), rec.outcome))
        out.signature = out.digest
        out.nontrivial = observed > 0 or raised
        out.sim_time = rec.end_time - rec.start_time if rec.end_time != float("inf") else 0.0
        out.ticks = rec.ticks
    finally:
        cleanup(rec)
    return out


F38_CASE = {"config": {}, "engine": "world", "family": "C05", "plan": [], "property": ID, "scenario": {
    "resources": {}, "actors": [{"name": "own", "ops": [{"op": "scope", "label": "S1", "body": [], "children": [
        {"name": "c2", "ops": [{"op": "postpone", "k": 2}, {"op": "raise", "type": "exit"}]},
        {"name": "c3", "ops": [{"op": "finally", "handler": [{"op": "sleep", "d": 1}], "body": [
            {"op": "scope", "label": "S4", "body": [], "children": [
                {"name": "c6", "ops": [{"op": "scope", "label": "S7", "children": [], "body": []},
                                       {"op": "raise", "type": "kbd"}]}]}]}]}]}]}]}}


def probe_finding(finding):
    """F38: re-demonstrate the listed finding on the current tree."""
    if finding["id"] != "F38":
        return False
    import copy
    out = run_case(copy.deepcopy(F38_CASE))
    return any(DISPLACED_CLOSE_KEY in v.get("key", "") for v in out.violations)
