"""C07 until()/run(till) end the block exactly when the notification fires, else never."""
import copy
import math

from ..world import execute, cleanup
from ..runner import Outcome, digest
from ..gen_scopes import structure
from ..patterns import tag_overtaken, OVERTAKEN_KEY

from ..faults import iter_actors

ID = "C07"
LEVEL = "exploration"
RULE = ("seeded programs with one *subject* `until(n)` block (n in: delay, time ==/>=/< with "
        "future, now and past dates, flags and inverted flags set before / during / toggled, "
        "tracked comparisons, task.done, instant, eternity, & and | of monotone atoms), bodies "
        "with sleeps, children (volatile or not, delayed), clean-up handlers that suspend "
        "within the time step while an exception passes through, and nested until-blocks with "
        "equal or different deadlines, optionally inside an enclosing until-block; the actor keeps "
        "sleeping across the trigger time afterwards. Each program runs twice: as is, and as a "
        "twin in which the subject is a plain Scope. A second mode runs a program with "
        "run(till=T) against its twin without till, T in {start, between events, on an event, "
        "beyond the end}. Non-trivial = trigger and completion both finite or the notification "
        "holds on entry; distinct = distinct (notification kind, relative order, event "
        "sequence).")
BUDGET = {"quick": {"cases": 100000, "wall_s": 240, "chunk": 120},
          "thorough": {"cases": 500000, "wall_s": 1500, "chunk": 300}}
ASSUMPTIONS = ["setters and the observed task are top-level activities independent of the block, "
               "so their timeline is the same in the twin run",
               "when trigger and completion coincide either outcome is accepted"]
LEVEL_TEXT = ("Exploration: the block's exit time must equal min(trigger time from an independent "
              "notification model, completion time measured in the twin run); no exception may "
              "leave the block, nothing of body or children may run in a later time step than "
              "the trigger, an untriggered block must leave the actor exactly as in the twin; "
              "under run(till=T) the trace must be the twin's trace cut at T and no activation "
              "may run later than T.")
LEVEL_NOTE = ("Trusts the notification model in usimdst/props/C07.py and the twin-run "
              "construction; connectives only over monotone atoms.")
TECHNIQUE = "deterministic simulation, twin-run differential (until vs. Scope), notification trigger model"

DELAYS = [0.25, 0.5, 1, 1.5, 2, 3]
INF = math.inf
F25_RULES = ("C07/block-never-ended", "C07/exit-time")
# known finding F25, smallest history found by this check: both notifications hold on entry, the
# outer interrupt arrives first and is lost when the inner one overtakes the clean-up handler
F25_CASE = {"property": ID, "mode": "until", "plan": [], "config": {"waitq": "heap"}, "scenario": {
    "resources": {}, "actors": [
        {"name": "d2", "ops": []},
        {"name": "u", "ops": [{"op": "sleep", "d": 2}, {
            "op": "scope", "label": "S1", "subject": True, "children": [],
            "until": {"k": "done", "task": "d2"},
            "body": [{"op": "scope", "label": "S5", "children": [],
                      "until": {"k": "time", "op": ">=", "t": 2},
                      "body": [{"op": "finally", "body": [{"op": "sleep", "d": 1}],
                                "handler": [{"op": "postpone", "k": 1}]}]},
                     {"op": "eternity"}]}]}]}}


def _probe_connective_late():
    """F36: `until(a & b)` is served by a helper activity that needs a turn of its own: the body
    passes more suspension points of the time step in which the notification became true than
    with the atom `until(b)` under the very same schedule."""
    from .. import bind_repo
    usim = bind_repo()

    def passed_with(connective):
        passed = []

        async def setter(a, b):
            await (usim.time + 1)
            await a.set()
            await b.set()

        async def main():
            a, b = usim.Flag(), usim.Flag()
            async with usim.Scope() as scope:
                scope.do(setter(a, b))
                async with usim.until((a & b) if connective else b):
                    await (usim.time + 1)
                    for _ in range(12):                  # bounded: never starves the clock
                        if a and b:
                            passed.append(usim.time.now)  # holds, and we are still running
                        await usim.instant
        usim.run(main())
        return len(passed)
    return passed_with(True) > passed_with(False)


def probe_finding(finding):
    """Re-demonstrate a listed finding on the current tree (True if it still shows)."""
    if finding["id"] == "F36":
        return _probe_connective_late()
    if finding["id"] != "F25":
        return False
    out = run_case(copy.deepcopy(F25_CASE))
    return any(v["rule"] in F25_RULES and OVERTAKEN_KEY in v.get("key", "")
               for v in out.violations)


# ---- generator ----------------------------------------------------------------------------
DEC_DELAYS = [0.1, 0.2, 0.3, 0.7, 0.9, 1.1]
DEC_DATES = [0.3, 0.9, 1.3, 1.7, 2.9, 0.1, -0.1]


class Gen:
    def __init__(self, rng, decimal=False):
        self.rng = rng
        # decimal (non-dyadic) delays, dates and start times: `now + (date - now)` is not `date`
        # for many of them, so any detour through a relative delay shows as a one-ulp difference
        self.delays = DEC_DELAYS if decimal else DELAYS
        self.dates = DEC_DATES if decimal else [0, 0.5, 1, 2, 3, 4, 6, -1]
        self.n = 0
        self.resources = {}
        self.setters = []
        self.tasks = []
        self.hosts = []          # started first: their children exist before anybody looks for them

    def fresh(self, prefix):
        self.n += 1
        return "%s%d" % (prefix, self.n)

    def atom(self, monotone=False):
        rng = self.rng
        r = rng.random()
        if r < 0.18 and not monotone:       # a Delay is no Condition: not allowed in & and |
            return {"k": "delay", "d": rng.choice(self.delays)}
        if r < 0.42:
            op = rng.choice([">=", "=="]) if monotone else rng.choice([">=", "==", "==", "<"])
            if monotone:
                op = ">="
            return {"k": "time", "op": op, "t": rng.choice(self.dates)}
        if r < 0.66:
            name = self.fresh("F")
            init = rng.random() < 0.2
            self.resources[name] = {"kind": "flag", "init": init}
            ops = []
            for i in range(rng.choice([0, 1, 1, 1, 2, 3]) if not monotone else rng.choice([0, 1])):
                ops.append({"op": "sleep", "d": rng.choice(self.delays)})
                to = (i % 2 == 0) if not init else (i % 2 == 1)
                if monotone:
                    to = True
                ops.append({"op": "flag_set", "on": name, "to": to})
            self.setters.append({"name": "set" + name, "ops": ops})
            atom = {"k": "flag", "n": name}
            if not monotone and rng.random() < 0.3:
                atom = {"k": "not", "x": atom}
            return atom
        if r < 0.8 and not monotone:
            name = self.fresh("X")
            self.resources[name] = {"kind": "tracked", "init": rng.randint(0, 3)}
            ops = []
            for _ in range(rng.randint(0, 3)):
                ops.append({"op": "sleep", "d": rng.choice(self.delays)})
                ops.append({"op": "tr_set", "on": name, "to": rng.randint(0, 4)})
                if rng.random() < 0.3:
                    ops.append({"op": "tr_set", "on": name, "to": rng.randint(0, 4)})
            self.setters.append({"name": "set" + name, "ops": ops})
            return {"k": "cmp", "l": name, "op": rng.choice([">=", "==", "<", "!=", ">"]),
                    "r": rng.randint(1, 3)}
        if r < 0.92:
            name = self.fresh("d")
            if rng.random() < 0.3:
                # a task that does not end by itself: it is closed forcefully when the until-block
                # it is a child of is cut off (a task is done however it ended)
                kid = {"name": name, "ops": [rng.choice([{"op": "eternity"},
                                                         {"op": "sleep", "d": 64}])]}
                if rng.random() < 0.4:
                    kid["volatile"] = True
                self.hosts.append({"name": "h" + name, "ops": [{
                    "op": "scope", "label": self.fresh("H"), "children": [kid],
                    "until": {"k": "delay", "d": rng.choice(self.delays)},
                    "body": [{"op": "eternity"}]}]})
                return {"k": "done", "task": name}
            ops = [{"op": "sleep", "d": rng.choice(self.delays)} for _ in range(rng.randint(0, 2))]
            self.tasks.append({"name": name, "ops": ops})
            return {"k": "done", "task": name}
        if r < 0.96:
            return {"k": "instant"}
        return {"k": "eternity"}

    def notification(self):
        rng = self.rng
        r = rng.random()
        if r < 0.8:
            return self.atom()
        kind = "and" if r < 0.9 else "or"
        return {"k": kind, "xs": [self.atom(monotone=True) for _ in range(rng.randint(2, 3))]}

    def body(self, depth):
        rng = self.rng
        ops = []
        for _ in range(rng.randint(0, 3)):
            r = rng.random()
            if r < 0.5:
                ops.append({"op": "sleep", "d": rng.choice(self.delays)})
            elif r < 0.65:
                ops.append({"op": "postpone", "k": rng.randint(1, 2)})
            elif r < 0.8:
                ops.append({"op": "now"})
            elif depth < 2:
                ops.append(self.scope(depth + 1, subject=False))
        if ops and rng.random() < 0.08:
            # clean-up that suspends (within the time step) while an exception passes through
            ops = [{"op": "finally", "body": ops,
                    "handler": [{"op": "postpone", "k": rng.randint(1, 2)}]}]
        return ops

    def scope(self, depth, subject):
        rng = self.rng
        op = {"op": "scope", "label": self.fresh("S"), "children": []}
        if subject:
            op["subject"] = True
            op["until"] = self.notification()
        elif rng.random() < 0.5:
            op["until"] = {"k": "delay", "d": rng.choice(self.delays)} if rng.random() < 0.6 else \
                {"k": "time", "op": ">=", "t": rng.choice([1, 2, 3, 4])}
        for _ in range(rng.choice([0, 0, 1, 2])):
            child = {"name": self.fresh("c"), "ops": self.body(depth + 1)}
            if rng.random() < 0.25:
                child["volatile"] = True
                if rng.random() < 0.5:
                    child["ops"].append({"op": "eternity"})
            if rng.random() < 0.25:
                child["after"] = rng.choice(self.delays)
            if subject and rng.random() < 0.12:
                # a child that, when it is closed, starts a replacement in the very scope that is
                # closing it (from its clean-up handler, without suspending): refused
                late = {"name": self.fresh("l"), "ops": [{"op": "now", "tag": "late"},
                                                         {"op": "sleep", "d": 1},
                                                         {"op": "now", "tag": "late"}]}
                child["ops"] = [{"op": "finally", "handler": [],
                                 "body": child["ops"] + [{"op": "sleep", "d": rng.choice([1, 2, 4])}],
                                 "sync": [{"op": "spawn", "into": op["label"], "actor": late}]}]
            op["children"].append(child)
        op["body"] = self.body(depth)
        if subject and op["until"]["k"] == "flag" and rng.random() < 0.3 \
                and not self.resources[op["until"]["n"]].get("init"):
            # the notification is fired from inside the block: by its own body (which is cut off
            # at that very statement) or by one of its children - nobody outside sets the flag
            name = op["until"]["n"]
            self.setters = [spec for spec in self.setters if spec["name"] != "set" + name]
            fire = [{"op": "sleep", "d": rng.choice(self.delays)},
                    {"op": "flag_set", "on": name, "to": True},
                    {"op": "now", "tag": "after-own-trigger"}]
            if rng.random() < 0.5:
                op["body"] = op["body"] + fire + [{"op": "sleep", "d": 1}]
            else:
                op["children"].append({"name": self.fresh("c"), "ops": fire})
                op["body"].append({"op": "sleep", "d": rng.choice([4, 8])})
        if subject and rng.random() < 0.15:
            op["body"].append({"op": "eternity"})
        if subject and rng.random() < 0.1:
            # the body ends up waiting for a connective that never holds: only the notification
            # of the block can get it out of there
            for name in ("N1", "N2"):
                self.resources[name] = {"kind": "flag"}
            op["body"].append({"op": "wait", "id": self.fresh("w"), "x": {
                "k": rng.choice(["or", "and"]),
                "xs": [{"k": "flag", "n": "N1"}, {"k": "flag", "n": "N2"}]}})
        if subject and op["until"]["k"] in ("and", "or") and rng.random() < 0.35:
            # the connective object has been used before: by a block on it that was entered and
            # left within one turn (its body raised at once)
            shared = {"k": "shared", "n": op["label"] + "R", "x": op["until"]}
            op["until"] = shared
            self.prelude = [{"op": "try", "body": [{
                "op": "scope", "label": self.fresh("S"), "children": [], "until": shared,
                "body": [{"op": "raise", "type": "E"}]}]}]
        if subject and rng.random() < 0.15 and op["until"]["k"] not in ("delay", "shared"):
            # the very same notification object guards a block nested in the body as well (a
            # module-level `DEADLINE = time >= 10` / one Flag used at two levels of one activity)
            shared = {"k": "shared", "n": op["label"] + "N", "x": op["until"]}
            op["until"] = shared
            inner = {"op": "scope", "label": self.fresh("S"), "children": [], "until": shared,
                     "body": [rng.choice([{"op": "sleep", "d": rng.choice(self.delays + [4])},
                                          {"op": "eternity"}])]}
            op["body"].insert(rng.randint(0, len(op["body"])), inner)
            if rng.random() < 0.5:
                op["body"].append({"op": "sleep", "d": rng.choice(self.delays + [4])})
                op["body"].append({"op": "now", "tag": "late"})
        return op

    def program(self):
        rng = self.rng
        pre = []
        for _ in range(rng.choice([0, 0, 1, 2])):
            pre.append({"op": "sleep", "d": rng.choice(self.delays)})
        self.prelude = []
        subject = self.scope(0, subject=True)
        pre = pre + self.prelude
        block = subject
        if rng.random() < 0.25:
            outer = {"op": "scope", "label": self.fresh("O"), "children": [],
                     "until": {"k": "delay", "d": rng.choice(self.delays + [4, 6])},
                     "body": [{"op": "sleep", "d": rng.choice(self.delays)}] * rng.randint(0, 1)
                     + [subject, {"op": "now", "tag": "in-outer"}]}
            block = outer
        post = [{"op": "now", "tag": "post"}]
        for _ in range(rng.randint(1, 3)):
            post.append({"op": "sleep", "d": rng.choice(self.delays + [4])})
            post.append({"op": "now", "tag": "post"})
        actors = [{"name": "u", "ops": pre + [block] + post}]
        actors += self.tasks + self.setters
        rng.shuffle(actors)
        return {"resources": self.resources, "actors": self.hosts + actors}


def generate(rng, tier):
    decimal = rng.random() < 0.2
    gen = Gen(rng, decimal)
    scenario = gen.program()
    mode = "until"
    if decimal:
        scenario["start"] = rng.choice([0.2, 0.3, 0.6, 0.7, 0])
    if rng.random() < 0.15:
        mode = "till"
        if decimal:
            scenario["till"] = rng.choice([0.9, 1.7, 2.9, 1.3, scenario["start"]])
        else:
            scenario["start"] = rng.choice([0, 0, -1, 2])
            scenario["till"] = scenario["start"] + rng.choice([0, 0.25, 0.5, 1, 1.25, 2, 3, 5, 40])
    return {"property": ID, "mode": mode, "scenario": scenario, "plan": [],
            "config": {"waitq": rng.choice(["heap", "sd"])}}


# ---- model --------------------------------------------------------------------------------
def find_subject(node):
    if isinstance(node, dict):
        if node.get("op") == "scope" and node.get("subject"):
            return node
        for value in node.values():
            found = find_subject(value)
            if found is not None:
                return found
    elif isinstance(node, list):
        for item in node:
            found = find_subject(item)
            if found is not None:
                return found
    return None


def twin_of(case):
    twin = copy.deepcopy(case)
    if case.get("mode") == "till":
        twin["scenario"].pop("till", None)
    else:
        subject = find_subject(twin["scenario"])
        if subject is not None:
            subject.pop("until", None)
    return twin


CMP = {"<": lambda a, b: a < b, "<=": lambda a, b: a <= b, "==": lambda a, b: a == b,
       "!=": lambda a, b: a != b, ">=": lambda a, b: a >= b, ">": lambda a, b: a > b}


def trigger_time(expr, rec, twin, entry_pos, entry_time, resources):
    """Earliest virtual time >= entry at which the notification fires; inf if never."""
    kind = expr["k"]
    if kind == "shared":
        return trigger_time(expr["x"], rec, twin, entry_pos, entry_time, resources)
    if kind == "delay":
        return entry_time + expr["d"]
    if kind == "instant":
        return entry_time
    if kind == "eternity":
        return INF
    if kind == "time":
        date = expr["t"]
        if expr["op"] == ">=":
            return max(date, entry_time)
        if expr["op"] == "==":
            return date if date >= entry_time else INF
        return entry_time if entry_time < date else INF
    if kind in ("flag", "not"):
        invert = kind == "not"
        name = expr["x"]["n"] if invert else expr["n"]
        value = bool(resources[name].get("init"))
        for ev in rec.trace[:entry_pos]:
            if ev[4] == "flag_set+" and ev[5] == name:
                value = bool(ev[6])
        if value != invert:
            return entry_time
        # later changes: taken from the twin (setters are independent of the block)
        for ev in _after_entry(twin, rec, entry_pos):
            if ev[4] == "flag_set+" and ev[5] == name:
                new = bool(ev[6])
                if new != value:
                    value = new
                    if value != invert:
                        return ev[2]
        return INF
    if kind == "cmp":
        name = expr["l"]
        value = resources[name].get("init", 0)
        test = CMP[expr["op"]]
        for ev in rec.trace[:entry_pos]:
            if ev[4] == "tr_set+" and ev[5] == name:
                value = ev[6]
        if test(value, expr["r"]):
            return entry_time
        for ev in _after_entry(twin, rec, entry_pos):
            if ev[4] == "tr_set+" and ev[5] == name:
                if test(ev[6], expr["r"]):
                    return ev[2]
        return INF
    if kind == "done":
        if not any(a["name"] == expr["task"] for a in iter_actors(rec.case["scenario"])):
            return INF
        for ev in twin.trace:
            if ev[3] == expr["task"] and ev[4] in ("end", "exc"):
                return max(ev[2], entry_time)
        return INF
    if kind == "and":
        return max(trigger_time(x, rec, twin, entry_pos, entry_time, resources)
                   for x in expr["xs"])
    if kind == "or":
        return min(trigger_time(x, rec, twin, entry_pos, entry_time, resources)
                   for x in expr["xs"])
    raise ValueError(kind)


def _after_entry(twin, rec, entry_pos):
    """Twin events after the point at which the block was entered (identical prefix)."""
    return twin.trace[entry_pos:]


def check_until(rec, twin):
    out = []

    def bad(rule, msg):
        if len(out) < 5:
            out.append({"rule": "C07/" + rule, "msg": msg})

    for rule, msg in rec.kernel_violations:
        bad("kernel:" + rule, msg)
    if rec.outcome != ("ok",):
        bad("run-outcome", "run() ended with %r" % (rec.outcome,))
        return out, {}
    subject = find_subject(rec.case["scenario"])
    if subject is None:
        return out, {}
    label = subject["label"]
    entry_pos = next((i for i, ev in enumerate(rec.trace)
                      if ev[4] == "scope+" and ev[5] == label), None)
    if entry_pos is None:
        return out, {"entered": False}
    if rec.trace[:entry_pos] != twin.trace[:entry_pos]:
        bad("twin-diverged-before-entry", "harness: prefix differs")     # cannot happen
        return out, {}
    entry_time = rec.trace[entry_pos][2]
    exit_ev = next((ev for ev in rec.trace[entry_pos:]
                    if ev[4] in ("scope-", "scope!") and ev[5] == label), None)
    twin_exit = next((ev for ev in twin.trace[entry_pos:]
                      if ev[4] in ("scope-", "scope!") and ev[5] == label), None)
    completion = twin_exit[2] if twin_exit is not None else INF
    trigger = trigger_time(subject["until"], rec, twin, entry_pos, entry_time,
                           rec.case["scenario"]["resources"])
    info = {"entered": True, "trigger": trigger, "completion": completion,
            "kind": subject["until"]["k"]}
    expected = min(trigger, completion)
    if exit_ev is None:
        if expected != INF:
            bad("block-never-ended", "block %s entered at %r should end at %r (trigger %r, "
                "completion %r) but never did" % (label, entry_time, expected, trigger, completion))
        return out, info
    if exit_ev[2] != expected:
        bad("exit-time", "block %s entered at %r ended at %r; trigger %r, completion %r"
            % (label, entry_time, exit_ev[2], trigger, completion))
        return out, info
    if exit_ev[4] == "scope!":
        # an exception may leave only if the twin's block is left by the same one not later
        same = twin_exit is not None and twin_exit[4] == "scope!" and \
            twin_exit[6] == exit_ev[6] and completion <= trigger
        if not same:
            bad("until-raised", "block %s raised %r (trigger %r, completion %r)"
                % (label, exit_ev[6], trigger, completion))
    # nothing of body / children after the trigger step
    owner, children, volatile, descendants = structure(rec)
    if trigger < completion:
        for name in descendants(label):
            late = [ev for ev in rec.trace if ev[3] == name and ev[2] > trigger]
            if late:
                bad("ran-after-trigger", "%s acted at %r after block %s was triggered at %r"
                    % (name, late[0][2], label, trigger))
    # afterwards
    post = [(ev[2], ev[4]) + tuple(ev[5:]) for ev in rec.trace
            if ev[3] == "u" and ev[0] >= exit_ev[0]
            and (ev[4] == "now" and ev[5] == "post")]
    twin_post = [(ev[2], ev[4]) + tuple(ev[5:]) for ev in twin.trace
                 if twin_exit is not None and ev[3] == "u" and ev[0] >= twin_exit[0]
                 and (ev[4] == "now" and ev[5] == "post")]
    if completion < trigger:
        mine = [(ev[2], ev[3], ev[4]) for ev in rec.trace if ev[3] == "u"]
        theirs = [(ev[2], ev[3], ev[4]) for ev in twin.trace if ev[3] == "u"]
        if mine != theirs:
            bad("untriggered-block-disturbed", "block %s completed at %r before its trigger %r, "
                "yet the actor behaves differently from the twin without until()"
                % (label, completion, trigger))
    elif twin_exit is not None and exit_ev[4] == "scope-" and twin_exit[4] == "scope-" \
            and not _inside_outer(rec.case["scenario"]):
        shift = exit_ev[2] - twin_exit[2]
        # (decimal programs: the shifted twin times are not bit-exact, the rule is about the actor
        # carrying on as before, so a rounding error is tolerated here and only here)
        mine_post = [(t, k) for (t, k, *_) in post]
        want_post = [(t + shift, k) for (t, k, *_) in twin_post]
        if len(mine_post) != len(want_post) or any(
                ka != kb or abs(ta - tb) > 1e-9 * max(1.0, abs(ta))
                for (ta, ka), (tb, kb) in zip(mine_post, want_post)):
            bad("after-block", "after block %s (ended %r) the actor's later waits are off: %r vs "
                "twin %r shifted by %r" % (label, exit_ev[2], post, twin_post, shift))
    return out, info


def _inside_outer(scenario):
    for actor in scenario["actors"]:
        if actor["name"] == "u":
            return any(op.get("op") == "scope" and not op.get("subject")
                       for op in actor["ops"])
    return False


def check_till(rec, twin):
    out = []

    def bad(rule, msg):
        if len(out) < 5:
            out.append({"rule": "C07/" + rule, "msg": msg})

    for rule, msg in rec.kernel_violations:
        bad("kernel:" + rule, msg)
    if rec.outcome != ("ok",):
        bad("till-run-outcome", "run(till=%r) ended with %r"
            % (rec.case["scenario"]["till"], rec.outcome,))
        return out, {}
    till = rec.case["scenario"]["till"]
    # kernel-internal helpers (e.g. the trigger of an abandoned `time >= t`) may still fire
    # later without any effect visible through the API; activities of the program may not
    late = [a for a in rec.acts if a[1] > till and not a[2].startswith("~")]
    if late:
        bad("ran-after-till", "activation of %s at %r although till=%r" % (late[0][2], late[0][1],
                                                                            till))
    skip = ("root",)
    mine = [(ev[2], ev[3], ev[4]) for ev in rec.trace if ev[3] not in skip]
    theirs = [(ev[2], ev[3], ev[4]) for ev in twin.trace if ev[3] not in skip]
    before = [e for e in theirs if e[0] < till]
    if mine[:len(before)] != before:
        i = next((i for i, (a, b) in enumerate(zip(mine, before)) if a != b),
                 min(len(mine), len(before)))
        bad("till-changed-history", "with till=%r event %d is %r, without it %r"
            % (till, i, mine[i] if i < len(mine) else None,
               before[i] if i < len(before) else None))
    rest = mine[len(before):]
    if any(e[0] != till for e in rest):
        bad("ran-after-till", "events after till=%r: %r" % (till, [e for e in rest if e[0] != till][:2]))
    return out, {"till": till, "cut": len(theirs) - len(before)}


def run_case(case):
    twin = execute(twin_of(case))
    rec = execute(case)
    out = Outcome()
    try:
        if case.get("mode") == "till":
            out.violations, info = check_till(rec, twin)
        else:
            out.violations, info = check_until(rec, twin)
            tag_overtaken(rec, out.violations, F25_RULES)
        stats = {}
        if any(ev[4] == "cleanup+" for ev in rec.trace):
            stats["probe.signal-through-suspending-cleanup"] = 1
        nontrivial = False
        if case.get("mode") == "till":
            stats["probe.till-runs"] = 1
            if info.get("cut"):
                stats["probe.till-cut-something"] = 1
                nontrivial = True
            sig = ("till", info.get("till"), digest(rec.digest_items()))
        else:
            kind = info.get("kind", "?")
            stats["probe.kind.%s" % kind] = 1
            trig, comp = info.get("trigger", INF), info.get("completion", INF)
            if info.get("entered"):
                rel = "tie" if trig == comp and trig != INF else \
                    "trigger-first" if trig < comp else \
                    "completion-first" if comp < trig else "both-never"
                stats["probe.%s" % rel] = 1
                nontrivial = rel in ("tie", "trigger-first", "completion-first") and \
                    (trig != INF)
            sig = (kind, trig, comp, digest(rec.digest_items()))
        out.info = {"stats": stats}
        out.stats = stats
        out.signature = sig
        out.nontrivial = nontrivial
        out.sim_time = rec.end_time - rec.start_time if rec.end_time != INF else 0.0
        out.ticks = rec.ticks
        out.digest = digest(rec.digest_items())
    finally:
        cleanup(rec)
        cleanup(twin)
    return out


def check(rec):          # used by the generic replay printer only
    return []
