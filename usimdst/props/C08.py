"""C08 Awaiting a condition returns only when it is true, and is never missed."""
ID = "C08"
LEVEL = "exploration"
RULE = ("seeded programs with 1-2 condition expression trees of depth <= 3 over 3 flags, 2 "
        "tracked integers (compared with constants and with each other), a two-field resource "
        "supply, task completion and time atoms, combined by &, | and ~; 1-4 concurrent waiters "
        "per expression (sharing one condition object or building their own); 1-3 setter "
        "activities apply a seeded schedule of value changes including set-and-revert within "
        "one time step with 0-2 postponements in between. Non-trivial = some waiter had to "
        "suspend until a later change; distinct = distinct (expression shape, per-actor event "
        "sequence).")
BUDGET = {"quick": {"cases": 100000, "wall_s": 240, "chunk": 200},
          "thorough": {"cases": 900000, "wall_s": 1500, "chunk": 500}}
ASSUMPTIONS = ["the evaluator reads atom values through the public API (bool(flag), "
               "tracked.value, supply.levels, task.status, time.now) and combines them with "
               "Python's and/or/not"]
LEVEL_TEXT = ("Exploration: an independent evaluator gives the truth of each expression tree; at "
              "every resume of `await c` the tree must be true and the waiter must have "
              "suspended at least once; whenever the clock advances, and at quiescence, no waiter "
              "may still be waiting on a tree that is true; at every wait entry and resume "
              "usim's own bool() of the derived condition (with ~, &, |) must equal the "
              "evaluator's value.")
LEVEL_NOTE = "Trusts the evaluator in usimdst/world.py (World.truth) and the interpreter."
TECHNIQUE = "deterministic simulation, seeded value-change schedules, independent boolean evaluator at resume and at every clock advance"

DELAYS = [0.25, 0.5, 1, 1.5, 2, 3]
OPS = [">=", "<", "==", "!=", ">", "<="]


DEC_DELAYS = [0.1, 0.2, 0.3, 0.7, 0.9, 1.1]
DEC_DATES = [0.3, 0.9, 1.3, 1.7, 2.9, 0.1]


class Gen:
    delays = DELAYS
    dates = [0, 0.5, 1, 2, 3, 4]

    def __init__(self, rng):
        self.rng = rng
        self.use_res = rng.random() < 0.4
        self.use_task = rng.random() < 0.3

    def atom(self, under_not):
        rng = self.rng
        r = rng.random()
        if r < 0.35:
            return {"k": "flag", "n": "f%d" % rng.randrange(3)}
        if r < 0.6:
            right = rng.randint(0, 3) if rng.random() < 0.75 else {"tr": "x1"}
            left = "x0" if isinstance(right, dict) else "x%d" % rng.randrange(2)
            return {"k": "cmp", "l": left, "op": rng.choice(OPS), "r": right}
        if r < 0.72 and self.use_res:
            amounts = {"a": rng.randint(0, 3)}
            if rng.random() < 0.6:
                amounts["b"] = rng.randint(0, 3)
            return {"k": "levels", "res": "R", "op": rng.choice(OPS), "amounts": amounts}
        if r < 0.8 and self.use_task:
            return {"k": "done", "task": "d"}
        if r < 0.95:
            op = rng.choice([">=", "<"] if under_not else [">=", ">=", "<", "=="])
            return {"k": "time", "op": op, "t": rng.choice(self.dates)}
        return {"k": "flag", "n": "f0"}

    def expr(self, depth, under_not=False):
        rng = self.rng
        r = rng.random()
        if depth >= 3 or r < 0.3:
            return self.atom(under_not)
        if r < 0.45:
            return {"k": "not", "x": self.expr(depth + 1, True)}
        kind = "and" if r < 0.72 else "or"
        return {"k": kind, "xs": [self.expr(depth + 1, under_not)
                                   for _ in range(rng.randint(2, 3))]}

    def setter(self, index):
        rng = self.rng
        ops = []
        for _ in range(rng.randint(1, 5)):
            r = rng.random()
            if r < 0.55:
                ops.append({"op": "sleep", "d": rng.choice(self.delays)})
            elif r < 0.7:
                ops.append({"op": "postpone", "k": rng.randint(1, 2)})
            ops.extend(self.change())
            if rng.random() < 0.35:      # set and revert within the time step
                if rng.random() < 0.6:
                    ops.append({"op": "postpone", "k": rng.randint(1, 2)})
                ops.extend(self.change())
        return {"name": "set%d" % index, "ops": ops}

    def change(self):
        rng = self.rng
        r = rng.random()
        if r < 0.45:
            return [{"op": "flag_set", "on": "f%d" % rng.randrange(3),
                     "to": rng.random() < 0.65}]
        if r < 0.85 or not self.use_res:
            if rng.random() < 0.7:
                return [{"op": "tr_set", "on": "x%d" % rng.randrange(2), "to": rng.randint(0, 4)}]
            return [{"op": "tr_add", "on": "x%d" % rng.randrange(2), "by": rng.choice([-1, 1, 2])}]
        how = rng.choice(["increase", "decrease", "set"])
        amounts = {key: rng.randint(0, 2) for key in ("a", "b") if rng.random() < 0.7} or {"a": 1}
        return [{"op": "adjust", "on": "R", "how": how, "amounts": amounts}]


def generate(rng, tier):
    gen = Gen(rng)
    decimal = rng.random() < 0.15
    if decimal:
        # non-dyadic delays, dates and start time (a detour of a date through a relative delay
        # is off by an ulp for many of them)
        gen.delays, gen.dates = DEC_DELAYS, DEC_DATES
    DELAYS = gen.delays
    resources = {"f%d" % i: {"kind": "flag", "init": rng.random() < 0.2} for i in range(3)}
    resources["x0"] = {"kind": "tracked", "init": rng.randint(0, 3)}
    resources["x1"] = {"kind": "tracked", "init": rng.randint(0, 3)}
    if gen.use_res:
        resources["R"] = {"kind": "resources",
                          "levels": {"a": rng.randint(0, 3), "b": rng.randint(0, 3)}}
    actors = []
    if gen.use_task:
        actors.append({"name": "d", "ops": [{"op": "sleep", "d": rng.choice(DELAYS)}
                                             for _ in range(rng.randint(0, 2))]})
        if rng.random() < 0.3:
            actors[-1]["after"] = rng.choice(DELAYS)
        if rng.random() < 0.4:
            # the task is cancelled - depending on the (shuffled) start order before its first
            # turn, with waiters of `d.done` already subscribed, or somewhere in its payload
            ops = [{"op": "postpone", "k": rng.randint(0, 2)}] if rng.random() < 0.6 else \
                [{"op": "sleep", "d": rng.choice(DELAYS)}]
            ops.append({"op": "cancel", "task": "d", "token": ["c08"]})
            actors.append({"name": "canc", "ops": ops})
    wid = 0
    for e in range(rng.randint(1, 2)):
        tree = gen.expr(0)
        if tree["k"] == "not" and rng.random() < 0.3:
            tree = {"k": "not", "x": tree}         # double inversion
        shared = rng.random() < 0.5
        for _ in range(rng.randint(1, 4)):
            ops = []
            r = rng.random()
            if r < 0.3:
                ops.append({"op": "postpone", "k": rng.randint(1, 2)})
            elif r < 0.6:
                ops.append({"op": "sleep", "d": rng.choice(DELAYS)})
            expr = {"k": "shared", "n": "E%d" % e, "x": tree} if shared else tree
            for _ in range(rng.choice([1, 1, 2])):
                wid += 1
                if rng.random() < 0.2:
                    # an impatient waiter: abandons the wait after a while (the others must still
                    # be woken) and waits for the same condition again
                    ops.append({"op": "scope", "label": "T%d" % wid, "children": [],
                                "until": {"k": "delay", "d": rng.choice(DELAYS)},
                                "body": [{"op": "wait", "id": "w%d" % wid, "x": expr}]})
                    wid += 1
                ops.append({"op": "wait", "id": "w%d" % wid, "x": expr})
                ops.append({"op": "now"})
                if rng.random() < 0.5:
                    ops.append({"op": "sleep", "d": rng.choice(DELAYS)})
            actors.append({"name": "w%da%d" % (e, wid), "ops": ops})
    if gen.use_res and rng.random() < 0.4:
        # levels also change because a borrower is torn down: a volatile task holding part of R is
        # closed when its scope ends, another one is cancelled while it holds or acquires
        amounts = {"a": rng.randint(1, 2)}
        holder = {"op": "borrow", "on": "R", "id": "vb", "mode": "borrow", "amounts": amounts,
                  "body": [{"op": "sleep", "d": 64}]}
        actors.append({"name": "vs", "ops": [
            {"op": "sleep", "d": rng.choice(gen.delays)},
            {"op": "scope", "label": "VS", "body": [{"op": "sleep", "d": rng.choice(gen.delays)}],
             "children": [{"name": "vb", "volatile": True, "ops": [holder]}]}]})
        if rng.random() < 0.5:
            actors.append({"name": "cb", "ops": [
                {"op": "borrow", "on": "R", "id": "cb", "mode": "borrow",
                 "amounts": {"a": 1, "b": rng.randint(0, 1)}, "body": [{"op": "sleep", "d": 64}]}]})
            actors.append({"name": "ck", "ops": [{"op": "sleep", "d": rng.choice(gen.delays)},
                                                 {"op": "postpone", "k": rng.randint(0, 2)},
                                                 {"op": "cancel", "task": "cb", "token": ["k"]}]})
    if rng.random() < 0.3:
        actors.extend(_diamond(rng, wid))
    for i in range(rng.randint(1, 3)):
        actors.append(gen.setter(i))
    rng.shuffle(actors)
    scenario = {"resources": resources, "actors": actors}
    if decimal:
        scenario["start"] = rng.choice([0.2, 0.3, 0.6, 0.7])
    elif rng.random() < 0.1:
        scenario["start"] = rng.choice([-1, -5])        # the date 0 lies ahead
    case = {"property": ID, "scenario": scenario,
            "plan": [], "config": {"waitq": rng.choice(["heap", "sd"])}}
    if rng.random() < 0.1:
        # the time conditions of the program are module-level objects that an earlier simulation
        # has used already - one that an activity's failure aborted while their dates were still
        # to come: this replication must be served all the same
        scenario["share_conditions"] = "history"
        scenario["share_time_only"] = True
        case["aborted_first"] = rng.choice([0.125, 0.375, 1.125])
    return case


def run_case(case):
    import sys
    from ..runner import run_one
    from ..world import SHARED_CONDITIONS, execute, cleanup
    P = sys.modules[__name__]
    if not case.get("aborted_first"):
        return run_one(P, case)
    import copy
    SHARED_CONDITIONS.clear()
    try:
        aborted = copy.deepcopy(case)
        aborted["scenario"]["actors"].append({"name": "zfail", "ops": [
            {"op": "sleep", "d": case["aborted_first"]}, {"op": "raise", "type": "E"}]})
        cleanup(execute(aborted))     # ends with zfail's exception; what it did is not judged
        out = run_one(P, case)
        for violation in out.violations:
            violation["msg"] = "after an aborted simulation around the same time conditions: " \
                + violation["msg"]
        out.stats = dict(out.stats or {})
        out.stats["probe.replication-after-aborted-run"] = 1
        return out
    finally:
        SHARED_CONDITIONS.clear()


def _diamond(rng, wid):
    """Two shared connectives over a common leaf; one waiter on their combination, others on
    each of them (also through until-blocks): wake-up order must not depend on addresses."""
    leaf = {"k": "flag", "n": "f0"}
    kind = rng.choice(["and", "or"])
    left = {"k": "shared", "n": "DL", "x": {"k": kind, "xs": [
        leaf, {"k": "flag", "n": "f1"} if kind == "or" else {"k": "not", "x": {"k": "flag", "n": "f2"}}]}}
    right = {"k": "shared", "n": "DR", "x": {"k": kind, "xs": [
        leaf, {"k": "cmp", "l": "x0", "op": rng.choice([">=", "<"]), "r": rng.randint(0, 3)}]}}
    combo = {"k": rng.choice(["and", "or"]), "xs": [left, right]}
    actors = [{"name": "dz", "ops": [{"op": "wait", "id": "w%d" % (wid + 1), "x": combo},
                                     {"op": "now", "tag": "dz"}]}]
    for name, expr, ident in (("dx", left, wid + 2), ("dy", right, wid + 3)):
        ops = [{"op": "postpone", "k": rng.randint(1, 2)}]
        if rng.random() < 0.6:
            ops.append({"op": "scope", "label": "U" + name, "until": expr, "children": [],
                        "body": [{"op": "eternity"}]})
        else:
            ops.append({"op": "wait", "id": "w%d" % ident, "x": expr})
        ops.append({"op": "now", "tag": name})
        actors.append({"name": name, "ops": ops})
    return actors


def _waits(scenario):
    out = {}

    def scan(name, ops):
        for op in ops:
            if op["op"] == "wait":
                out[op["id"]] = (name, op["x"])
            elif op["op"] == "scope":
                scan(name, op.get("body", ()))
    for actor in scenario["actors"]:
        scan(actor["name"], actor["ops"])
    return out


class Monitor:
    """At every clock advance: no waiter may wait on a tree that is true."""

    def __init__(self, world):
        self.world = world
        self.pos = 0
        self.waiting = {}         # wait id -> (actor, expr)
        self.last_time = None
        self.bad = world.monitor_violations
        self.waits = _waits(world.scenario)

    def absorb(self):
        trace = self.world.trace
        while self.pos < len(trace):
            ev = trace[self.pos]
            self.pos += 1
            if ev[4] == "wait+":
                self.waiting[ev[5]] = self.waits.get(ev[5])
            elif ev[4] in ("wait-", "wait!"):
                self.waiting.pop(ev[5], None)

    def __call__(self, seam, loop, target, signal):
        if seam.name_of(target) == "root" and not self.world.res:
            return
        self.absorb()
        now = loop.time
        if self.last_time is not None and now != self.last_time:
            self.sweep(self.last_time, "the clock advanced from %r to %r" % (self.last_time, now))
        self.last_time = now

    def sweep(self, when, why):
        for wid, entry in self.waiting.items():
            if entry is None:
                continue
            actor, expr = entry
            try:
                value = self.world.truth(expr, when)
            except KeyError:
                continue
            if value and len(self.bad) < 5:
                self.bad.append(("left-waiting", "%s still waits (%s) although its condition is "
                                 "true when %s" % (actor, wid, why)))


def setup(world):
    monitor = Monitor(world)
    world.notes["monitor"] = monitor
    world.seam.monitors.append(monitor)


def check(rec):
    out = []

    def bad(rule, msg):
        if len(out) < 5:
            out.append({"rule": "C08/" + rule, "msg": msg})

    for rule, msg in rec.kernel_violations:
        bad("kernel:" + rule, msg)
    if rec.outcome != ("ok",):
        bad("run-outcome", "run() ended with %r" % (rec.outcome,))
    for rule, msg in rec.monitor_violations:
        bad(rule, msg)
    began = {}
    for ev in rec.trace:
        if ev[4] == "wait+":
            began[ev[5]] = ev
            if ev[6] != ev[7]:
                bad("algebra", "%s %s: usim says bool(condition)=%r, the evaluator %r at t=%r on entry"
                    % (ev[3], ev[5], ev[6], ev[7], ev[2]))
        elif ev[4] == "wait-":
            if not ev[7]:
                bad("resumed-while-false", "%s resumed from %s at t=%r although the condition is "
                    "false" % (ev[3], ev[5], ev[2]))
            if ev[6] != ev[7]:
                bad("algebra", "%s %s: usim says bool(condition)=%r, the evaluator %r at t=%r on "
                    "resume" % (ev[3], ev[5], ev[6], ev[7], ev[2]))
            start = began.get(ev[5])
            if start is not None and start[1] == ev[1]:
                bad("no-yield", "%s passed %s without suspending" % (ev[3], ev[5]))
        elif ev[4] == "wait!":
            timeout = isinstance(ev[6], tuple) and ev[6][0] == "CancelScope" and \
                str(ev[6][1]).startswith("scope:T")       # the waiter's own patience ran out
            if not timeout:
                bad("wait-failed", "%s: await raised %r" % (ev[3], ev[6]))
    # quiescence: values are final now
    if rec.outcome == ("ok",):
        monitor = rec.notes["monitor"]
        monitor.absorb()
        world = rec.world
        for wid, entry in monitor.waiting.items():
            if entry is None:
                continue
            actor, expr = entry
            try:
                value = world.truth(expr, rec.end_time)
            except Exception:
                continue
            if value:
                bad("left-waiting", "%s still waits (%s) at quiescence although its condition is "
                    "true" % (actor, wid))
    return out


def _shape(expr):
    k = expr["k"]
    if k in ("and", "or"):
        return (k,) + tuple(_shape(x) for x in expr["xs"])
    if k in ("not", "shared"):
        return (k, _shape(expr["x"]))
    return k


def observe(rec):
    stats = {}
    suspended = 0
    began = {}
    per_actor = {}
    for ev in rec.trace:
        per_actor.setdefault(ev[3], []).append((ev[4], ev[2]))
        if ev[4] == "wait+":
            began[ev[5]] = ev
        elif ev[4] == "wait-":
            start = began.get(ev[5])
            if start is not None and not start[7]:
                suspended += 1
    shapes = tuple(sorted({repr(_shape(x)) for _, x in _waits(rec.case["scenario"]).values()}))
    for shape in shapes:
        if "not" in shape and ("and" in shape or "or" in shape):
            stats["probe.not-over-connective"] = 1
        if "levels" in shape:
            stats["probe.levels-atom"] = 1
        if shape.count("and") + shape.count("or") >= 2:
            stats["probe.nested-connectives"] = 1
    stats["probe.waiters-resumed-after-change"] = suspended
    monitor = rec.notes["monitor"]
    stats["probe.waiters-never-resumed"] = len(monitor.waiting)
    sig = (shapes, tuple(sorted((k, tuple(v)) for k, v in per_actor.items())))
    return {"stats": stats, "signature": sig, "nontrivial": suspended > 0}
