"""C05 A scope fails as itself or as Concurrent: promptly, with exactly right content."""
from ..gen_scopes import Gen, structure
from ..world import PRIVILEGED_NAMES

ID = "C05"
LEVEL = "exploration"
RULE = ("seeded trees of Scope / until blocks (depth <= 3) in which bodies and children raise "
        "tagged exceptions (five regular types, SystemExit / KeyboardInterrupt / AssertionError "
        "and a subclass) at dyadic times with many ties, during graceful shutdown and from "
        "nested scopes (Concurrent inside Concurrent), with 0-2 seeded task cancellations mixed "
        "in; every block's outcome is compared with a decision table computed from what the "
        "wrappers saw leave the body and the children. Non-trivial = at least one block ended "
        "with an exception; distinct = distinct (per-actor event sequence, fault positions).")
BUDGET = {"quick": {"cases": 150000, "wall_s": 240, "chunk": 200},
          "thorough": {"cases": 900000, "wall_s": 1500, "chunk": 500}}
ASSUMPTIONS = ["exception identity is checked through unique serial numbers carried by the "
               "exceptions the programs raise",
               "when both the body and a child raise a privileged exception either one is accepted"]
LEVEL_TEXT = ("Exploration: seeded failure-time assignments over scope trees, each block's "
              "observed outcome (exception object identity via serials, Concurrent.children in "
              "order) checked against a decision table written from docs/topics/exceptions.rst, "
              "plus: the block ends at the virtual time of the first failure.")
LEVEL_NOTE = "Trusts the interpreter's wrappers to see every exception leaving a body / payload."
TECHNIQUE = "deterministic simulation, seeded failure schedules, decision-table outcome model"

SIGNAL_NAMES = ("CancelTask", "CancelScope", "GeneratorExit")
SUPPRESSED = ("TaskCancelled", "TaskClosed", "VolatileTaskClosed", "GeneratorExit")


def _closed_while_failing(rng):
    """Directed shape (found by the thorough tier of C03): an owner is closed forcefully while its
    inner scope has a privileged child failure pending, and its clean-up suspends for anything
    but a forceful close."""
    k = rng.randint(0, 3)
    inner_child = {"name": "c6", "ops": [{"op": "postpone", "k": rng.randint(0, 2)},
                                         {"op": "raise", "type": rng.choice(["kbd", "exit", "A"])}]}
    if rng.random() < 0.5:
        inner_child["ops"].insert(0, {"op": "scope", "label": "S7", "children": [], "body": []})
    victim = {"name": "c3", "ops": [{
        "op": "finally", "handler": [rng.choice([{"op": "sleep", "d": 1}, {"op": "postpone", "k": 1}])],
        "body": [{"op": "scope", "label": "S4", "children": [inner_child], "body": []}]}]}
    killer = {"name": "c2", "ops": [{"op": "postpone", "k": k},
                                    {"op": "raise", "type": rng.choice(["exit", "kbd", "E"])}]}
    kids = [killer, victim]
    rng.shuffle(kids)
    scenario = {"resources": {}, "actors": [{"name": "own", "ops": [
        {"op": "try", "all": True, "body": [
            {"op": "scope", "label": "S1", "children": kids, "body": []}]}]}]}
    return {"property": ID, "scenario": scenario, "plan": [],
            "config": {"waitq": rng.choice(["heap", "sd"])}}


def _closure_awaiters(rng):
    """Directed shape: children of a scope fail with the *closure or cancellation of another
    task* (they awaited a task that was closed with its scope, or cancelled, and do not handle
    that): such failures stop the scope but never show in a Concurrent, and the scope's own cancel
    signal - queued once per failing child - must be gone when the block has been left."""
    mode = rng.choice(["closed", "closed", "cancelled", "failed", "failed"])
    pre = []
    if mode == "failed":
        # t failed in an earlier scope (whose Concurrent the owner handled): everybody who awaits
        # it afterwards fails with the very same exception object
        t = {"name": "t", "ops": [{"op": "sleep", "d": rng.choice([0.5, 1])},
                                  {"op": "raise", "type": rng.choice(["E", "A", "Z"])}]}
        pre.append({"op": "try", "all": True, "body": [
            {"op": "scope", "label": "S0", "children": [t],
             "body": [{"op": "sleep", "d": 2}]}]})
        outer_children = []
    elif mode == "closed":
        # t is a volatile child of an earlier scope: closed when that scope ends
        t = {"name": "t", "volatile": True, "ops": [{"op": "sleep", "d": 64}]}
        pre.append({"op": "scope", "label": "S0", "children": [t],
                    "body": [{"op": "sleep", "d": rng.choice([0.5, 1])}]})
        outer_children = []
    else:
        # t runs next to the scope and is cancelled while the children wait for it
        t = {"name": "t", "ops": [{"op": "sleep", "d": 64}]}
        outer_children = [t, {"name": "canc", "ops": [
            {"op": "sleep", "d": rng.choice([2, 3])},
            {"op": "cancel", "task": "t", "token": ["stop"]}]}]
    kids = []
    for i in range(rng.randint(1, 3)):
        ops = [{"op": "postpone", "k": rng.randint(0, 2)}] if rng.random() < 0.5 else []
        ops.append({"op": "await_task", "task": "t", "reraise": True})
        kids.append({"name": "a%d" % i, "ops": ops})
    for i in range(rng.randint(0, 2)):
        kids.append({"name": "b%d" % i, "ops": [{"op": "sleep", "d": rng.choice([1, 4, 8])},
                                                {"op": "now"}]})
    rng.shuffle(kids)
    block = {"op": "scope", "label": "S1", "children": kids,
             "body": [{"op": "sleep", "d": rng.choice([1, 4, 8])}, {"op": "now"}]}
    after = [{"op": "now", "tag": "after"}]
    for _ in range(rng.randint(1, 3)):
        after.append(rng.choice([{"op": "sleep", "d": 1}, {"op": "postpone", "k": 2}]))
        after.append({"op": "now", "tag": "after"})
    own = {"name": "own", "ops": pre + [{"op": "try", "all": True, "body": [block]}] + after}
    if outer_children:
        actors = [{"name": "top", "ops": [{"op": "scope", "label": "SX",
                                           "children": outer_children + [own], "body": []}]}]
    else:
        actors = [own]
    return {"property": ID, "scenario": {"resources": {}, "actors": actors}, "plan": [],
            "config": {"waitq": rng.choice(["heap", "sd"])}}


def generate(rng, tier):
    if rng.random() < 0.02:
        return _closed_while_failing(rng)
    if rng.random() < 0.04:
        return _closure_awaiters(rng)
    gen = Gen(rng, fail_rate=rng.choice([0.15, 0.3, 0.5]), priv_rate=rng.choice([0.0, 0.15, 0.4]),
              until_rate=rng.choice([0.0, 0.3]), max_depth=2, cancel_rate=0.1,
              convert_rate=rng.choice([0.0, 0.0, 0.1, 0.25]))
    scenario, label = gen.program()
    plan = []
    if rng.random() < 0.4:
        for _ in range(rng.randint(1, 2)):
            plan.append({"tick": rng.randint(1, 60), "kind": "cancel",
                         "victim": rng.choice(gen.actors), "token": ["fault"]})
    return {"property": ID, "scenario": scenario, "plan": plan,
            "config": {"waitq": rng.choice(["heap", "sd"])}}


def _privileged(meta):
    return meta is not None and meta[0] in PRIVILEGED_NAMES


def check(rec):
    out = []

    def bad(rule, msg):
        if len(out) < 5:
            out.append({"rule": "C05/" + rule, "msg": msg})

    for rule, msg in rec.kernel_violations:
        bad("kernel:" + rule, msg)
    if rec.outcome[0] == "abort":
        bad("run-outcome", "run() ended with %r" % (rec.outcome,))
    owner, children, volatile, descendants = structure(rec)
    body = {}      # label -> (meta or None, time)
    for ev in rec.trace:
        if ev[4] == "scope.body!":
            body[ev[5]] = (ev[6], ev[2])
        elif ev[4] == "scope.body-":
            body[ev[5]] = (None, ev[2])
    child_exc = {}
    for pos, ev in enumerate(rec.trace):
        if ev[4] == "exc":
            child_exc.setdefault(ev[3], (pos, ev[2], ev[5]))
    for tick, ev in enumerate(rec.trace):
        if ev[4] not in ("scope-", "scope!"):
            continue
        now, label = ev[2], ev[5]      # `tick` is the position in the trace
        if label not in body:
            continue          # failed while entering; not a block outcome
        observed = ev[6] if ev[4] == "scope!" else None
        b_meta, b_time = body[label]
        failures = []
        for kid in children.get(label, ()):
            if kid in child_exc:
                etick, etime, meta = child_exc[kid]
                if etick < tick and meta[0] not in SIGNAL_NAMES and meta[0] not in SUPPRESSED:
                    failures.append((etick, etime, meta))
        failures.sort()
        metas = [f[2] for f in failures]
        own_signal = b_meta is not None and b_meta[0] == "CancelScope" and \
            b_meta[1] == "scope:" + label
        priv_children = [m for m in metas if _privileged(m)]
        if b_meta is not None and b_meta in metas and not _privileged(b_meta):
            # the body was suspended on its own failing child (`await task`): that failure aborts
            # the body, it must not be handed to it as a result
            bad("body-got-child-failure", "scope %s: the body left with %r, the failure of its "
                "own child, instead of being aborted by it (expected Concurrent)"
                % (label, b_meta))
            continue
        accept = None
        if _privileged(b_meta):
            accept = [b_meta] + priv_children[:1]
        elif priv_children:
            accept = [priv_children[0]]
            if b_meta is not None and b_meta[0] == "GeneratorExit" or \
                    observed is not None and observed[0] == "GeneratorExit":
                # closed forcefully: the close itself may (and for the sake of clean-up code
                # around the block should, C03) be what leaves the block
                accept.append(("GeneratorExit",))
        elif b_meta is not None and not own_signal:
            accept = [b_meta]
        elif observed is not None and observed[0] in SIGNAL_NAMES and not (
                observed[0] == "CancelScope" and observed[1] == "scope:" + label):
            accept = [observed]       # foreign teardown signal reached the owner in the exit
        elif metas:
            accept = [("Concurrent",) + tuple(metas)]
        else:
            accept = [None]
        if observed not in accept:
            bad("outcome", "scope %s ended with %r; body left %r, children failed with %r; "
                "expected %r" % (label, observed, b_meta, metas, accept[0]))
        elif observed is not None and observed[0] == "Concurrent" and observed != b_meta:
            # "each once": once per failed child - an object shows twice only if two children
            # failed with that very object (both had awaited the same failed task)
            leaves = list(observed[1:])
            for meta in set(leaves):
                if leaves.count(meta) > max(1, metas.count(meta)):
                    bad("duplicate-child-exception", "scope %s: %r" % (label, observed))
        # promptness: the block ends in the time step of the first failure
        firsts = [f[1] for f in failures[:1]]
        if b_meta is not None and not own_signal and b_meta[0] not in SIGNAL_NAMES:
            firsts.append(b_time)
        if firsts and observed is not None and observed[0] not in SIGNAL_NAMES:
            if now != min(firsts):
                bad("late-abort", "scope %s: first failure at t=%r but the block ended at t=%r"
                    % (label, min(firsts), now))
    return out


def observe(rec):
    stats = {}
    per_actor = {}
    raised = 0
    for ev in rec.trace:
        per_actor.setdefault(ev[3], []).append(ev[4])
        if ev[4] == "scope!":
            raised += 1
            kind = ev[6][0]
            key = "probe.scope-ended-with-%s" % kind
            stats[key] = stats.get(key, 0) + 1
            if kind == "Concurrent":
                if len(ev[6]) > 2:
                    stats["probe.concurrent-multi"] = stats.get("probe.concurrent-multi", 0) + 1
                if any(c[0] == "Concurrent" for c in ev[6][1:]):
                    stats["probe.concurrent-nested"] = stats.get("probe.concurrent-nested", 0) + 1
    for tick, fault, outcome in rec.fired:
        key = "fault.%s.injected" % fault.get("as", fault["kind"])
        stats[key] = stats.get(key, 0) + 1
    plan = tuple((f["kind"], f.get("victim"), f["tick"]) for f in rec.case.get("plan") or ())
    sig = (tuple(sorted((k, tuple(v)) for k, v in per_actor.items())), plan,
           tuple(ev[6] for ev in rec.trace if ev[4] == "scope!"))
    return {"stats": stats, "signature": sig, "nontrivial": raised > 0}
