"""Call-through seam on usim's kernel (no change to /repo needed).

``Loop._run_coroutine`` and ``Loop.schedule`` (and ``Loop.__init__``) are looked up on the
class at every call, so call-through wrappers can be assigned on the class for the duration
of one simulated run.  The wrappers

* keep the global event counter ``tick`` (one tick per activation start and per ``schedule``
  call) against which every history is ordered and at which faults are injected,
* keep an independent model of the kernel's run queue (who was made runnable for which date,
  in which order) and compare every executed activation against it (clock monotone, nothing
  skipped, nothing run early or late, FIFO within a time step),
* enforce step caps (a same-time spin is a livelock verdict, a long run a budget outcome),
* never read a wall clock or draw a random number.
"""
import math
import signal
import sys
import threading


class HarnessAbort(BaseException):
    """Raised by the seam *through* Loop.run to end a run; never by usim."""


class Livelock(HarnessAbort):
    pass


class Budget(HarnessAbort):
    pass


class SeamMissing(Exception):
    pass


def _live(entry, revoked=None):
    """Would a sane kernel still run this queued activation? (not revoked, target not closed)

    Revocation is for good: an activation whose signal was revoked after it had been queued stays
    dead even if the signal object is later made valid again (`revoked`: id(signal) -> tick of its
    last observed revoke(), fed by the soft wrapper on Interrupt.revoke)."""
    target, signal = entry[0], entry[1]
    if signal is not None and not signal:
        return False
    if revoked and signal is not None and len(entry) > 2:
        seen = revoked.get(id(signal))
        # (only the tick is kept, not the object - pinning every revoked signal would change the
        # heap layout of the run; a stale record of a dead signal whose id was re-used is older
        # than any entry queued for the new one)
        if seen is not None and seen >= entry[2]:
            return False
    return getattr(target, "cr_frame", entry) is not None


def _frame_of(target):
    for attr in ("cr_frame", "gi_frame", "ag_frame"):
        frame = getattr(target, attr, None)
        if frame is not None:
            return frame
    return None


def _sigkind(signal):
    if signal is None:
        return "-"
    return type(signal).__name__


class _LoopModel:
    """Independent model of one Loop's wait queue, driven only by observed calls."""
    __slots__ = ("queues", "time", "tainted", "loop", "started")

    def __init__(self, loop, time):
        self.loop = loop
        self.queues = {}      # due time -> list of [target, signal]
        self.time = time
        self.tainted = False
        self.started = False


class Seam:
    SAME_TIME_CAP = 20000
    TOTAL_CAP = 200000
    CPU_CAP = 20.0        # CPU seconds one run may burn (normal runs need milliseconds)

    def __init__(self, plan=(), inject=None, same_time_cap=None, total_cap=None,
                 record=True, cpu_cap=CPU_CAP):
        self.cpu_cap = cpu_cap
        self._old_handler = None
        self.tick = 0
        self.n_act = 0
        self.names = {}           # id(coroutine) -> actor name (objects pinned by the world)
        self.pins = []
        self.acts = [] if record else None   # (tick, time, turnname, sigkind, id(target))
        self.sched = [] if record else None  # (tick, time, name, sigkind, due, id(target))
        self.plan = sorted(plan, key=lambda f: f["tick"])
        self._next = 0
        self._inject = inject
        self._injecting = False
        self.fired = []           # (tick, fault, outcome)
        self.monitors = []        # f(seam, loop, target, signal) before every activation
        self.post_monitors = []   # f(seam, loop, target, signal) after every activation
        self.same_time_cap = same_time_cap or self.SAME_TIME_CAP
        self.total_cap = total_cap or self.TOTAL_CAP
        self._same = 0
        self._same_key = None
        self.models = {}          # id(loop) -> _LoopModel
        self.kernel_violations = []   # (rule, message)
        self.max_time = -math.inf
        self.time_steps = 0
        self.installed = False
        self.current = None       # name of the actor being activated
        self.current_target = None
        self.verdict = None
        self.revoked = {}         # id(signal) -> tick of the last observed revoke()
        self.fallback = False
        self._orig_revoke = None

    # -- names -------------------------------------------------------------------------
    def name_of(self, target):
        name = self.names.get(id(target))
        if name is not None:
            return name
        code = getattr(target, "cr_code", None) or getattr(target, "gi_code", None)
        if code is not None:
            return "~" + getattr(code, "co_qualname", code.co_name)
        return "~" + type(target).__name__

    def register(self, target, name):
        if target is not None:
            self.names[id(target)] = name
            self.pins.append(target)

    # -- install -----------------------------------------------------------------------
    def install(self):
        from usim._core import loop as L
        cls = L.Loop
        for attr in ("schedule", "__init__", "run"):
            if not callable(getattr(cls, attr, None)):
                raise SeamMissing("usim._core.loop.Loop.%s" % attr)
        # A kernel without a per-activation method (the loop body inlined into run()) is observed
        # from outside instead: see _install_profile (fallback seam, slower, same callbacks).
        self.fallback = not callable(getattr(cls, "_run_coroutine", None))
        self._cls = cls
        self._orig = (getattr(cls, "_run_coroutine", None), cls.schedule, cls.__init__, cls.run)
        orig_run, orig_sched, orig_init, orig_loop_run = self._orig
        seam = self

        def _run_coroutine(loop, target, signal=None):
            outer = (seam.current, seam.current_target)     # a nested run() inside an activation
            seam._on_activation(loop, target, signal)
            try:
                return orig_run(loop, target, signal)
            finally:
                seam.current, seam.current_target = outer
                for mon in seam.post_monitors:
                    mon(seam, loop, target, signal)

        def schedule(loop, target, signal=None, *, delay=None, at=None):
            result = orig_sched(loop, target, signal, delay=delay, at=at)
            seam._on_schedule(loop, target, signal, delay, at)
            return result

        def __init__(loop, *coroutines, start=0):
            orig_init(loop, *coroutines, start=start)
            seam._on_loop_init(loop, coroutines, start)

        def run(loop):
            try:
                orig_loop_run(loop)
            except BaseException:
                # a failed run legitimately abandons whatever was still queued
                seam._model(loop).tainted = True
                raise
            seam._finish_loop(loop)

        if not self.fallback:
            cls._run_coroutine = _run_coroutine
        else:
            self._install_profile(L)
        cls.schedule = schedule
        cls.__init__ = __init__
        cls.run = run
        # soft seam point (absent after a refactoring: the model falls back to asking the signal
        # at execution time): remember when a wake-up signal was revoked
        signal_cls = getattr(L, "Interrupt", None)
        orig_revoke = getattr(signal_cls, "revoke", None)
        if callable(orig_revoke):
            def revoke(signal, *args, **kwargs):
                seam.revoked[id(signal)] = seam.tick
                return orig_revoke(signal, *args, **kwargs)
            self._orig_revoke = (signal_cls, orig_revoke)
            signal_cls.revoke = revoke
        self.installed = True
        self._arm_cpu_watchdog()
        return self

    def _arm_cpu_watchdog(self):
        """A synchronous spin inside one activation never returns to the kernel, so no step cap
        can see it: bound the CPU time of the run instead (process CPU time, not wall time)."""
        if not self.cpu_cap or threading.current_thread() is not threading.main_thread():
            return

        def on_alarm(signum, frame):
            self.verdict = "livelock"
            raise Livelock("the run burned %.0f CPU-seconds without finishing (last activation: "
                           "%s at tick %d)" % (self.cpu_cap, self.current, self.tick))
        try:
            self._old_handler = signal.signal(signal.SIGVTALRM, on_alarm)
            signal.setitimer(signal.ITIMER_VIRTUAL, self.cpu_cap, 2.0)
        except (ValueError, OSError, AttributeError):
            self._old_handler = None

    def _disarm_cpu_watchdog(self):
        if self._old_handler is not None:
            try:
                signal.setitimer(signal.ITIMER_VIRTUAL, 0)
                signal.signal(signal.SIGVTALRM, self._old_handler)
            except (ValueError, OSError):
                pass
            self._old_handler = None

    def uninstall(self):
        self._disarm_cpu_watchdog()
        if self.installed:
            cls = self._cls
            if self.fallback:
                self._remove_profile()
            else:
                cls._run_coroutine = self._orig[0]
            cls.schedule, cls.__init__, cls.run = self._orig[1:]
            if self._orig_revoke is not None:
                self._orig_revoke[0].revoke = self._orig_revoke[1]
                self._orig_revoke = None
            self.installed = False

    def __enter__(self):
        return self.install()

    def __exit__(self, *exc):
        self.uninstall()
        return False

    # -- fallback seam: activations observed through sys.setprofile ------------------------
    def _install_profile(self, L):
        """Loop has no per-activation method to wrap: an activation is then "code of
        usim._core.loop calls send()/throw() of a coroutine" (the c_call event of the profiler,
        whose argument is the bound builtin method - its __self__ is the activity) and it ends
        with the matching c_return / c_exception. The signal is not visible in that event; it is
        taken from the run-queue model (the oldest live entry for that target), so the model
        cannot tell a wrong signal from the right one in this mode - every other rule is
        evaluated as usual."""
        seam = self
        loopfile = L.__file__
        local = self._local = threading.local()
        state = getattr(L, "__LOOP_STATE__", None)

        def current_loop(back):
            loop = getattr(state, "loop", None) if state is not None else None
            if isinstance(loop, seam._cls):
                return loop
            while back is not None:
                cand = back.f_locals.get("self")
                if isinstance(cand, seam._cls):
                    return cand
                back = back.f_back
            return None

        def profile(frame, event, arg):
            if event == "c_call":
                if frame.f_code.co_filename != loopfile:
                    return
                kind = getattr(arg, "__name__", None)
                if kind != "send" and kind != "throw":
                    return
                target = getattr(arg, "__self__", None)
                if _frame_of(target) is None and not hasattr(target, "cr_frame"):
                    return
                loop = current_loop(frame)
                if loop is None:
                    return
                stack = local.__dict__.setdefault("stack", [])
                signal = seam._expected_signal(loop, target) if kind == "throw" else None
                outer = (seam.current, seam.current_target)
                entry = [frame, loop, target, signal, outer, None]
                stack.append(entry)
                try:
                    seam._on_activation(loop, target, signal)
                except HarnessAbort as err:
                    entry[5] = err        # raised to the kernel when this activation is over
            elif event == "c_return" or event == "c_exception":
                stack = local.__dict__.get("stack")
                if stack and stack[-1][0] is frame and \
                        getattr(arg, "__self__", None) is stack[-1][2]:
                    _, loop, target, signal, outer, abort = stack.pop()
                    seam.current, seam.current_target = outer
                    for mon in seam.post_monitors:
                        mon(seam, loop, target, signal)
                    if abort is not None:
                        raise abort

        self._profile = profile
        self._old_profile = sys.getprofile()
        threading.setprofile(profile)
        sys.setprofile(profile)

    def _remove_profile(self):
        sys.setprofile(self._old_profile)
        threading.setprofile(None)

    def _expected_signal(self, loop, target):
        model = self.models.get(id(loop))
        if model is None or model.loop is not loop:
            return None
        for entry in model.queues.get(loop.time, ()):
            if entry[0] is target and _live(entry, self.revoked):
                return entry[1]
        return None

    # -- kernel model ------------------------------------------------------------------
    def _model(self, loop):
        model = self.models.get(id(loop))
        if model is None or model.loop is not loop:
            model = self.models[id(loop)] = _LoopModel(loop, loop.time)
            model.tainted = True      # a loop we did not see being created
        return model

    def _on_loop_init(self, loop, coroutines, start):
        model = self.models[id(loop)] = _LoopModel(loop, start)
        model.queues[start] = [[c, None] for c in coroutines]

    def _kv(self, rule, message):
        if len(self.kernel_violations) < 20:
            self.kernel_violations.append((rule, message))

    def _on_schedule(self, loop, target, signal, delay, at):
        self.tick += 1
        model = self._model(loop)
        now = loop.time
        if delay is None and at is None:
            due = now
        elif delay is not None:
            due = now + delay
        else:
            due = at
        if self.sched is not None:
            self.sched.append((self.tick, now, self.name_of(target), _sigkind(signal), due,
                               id(target)))
        if not model.tainted:
            if due == now and (delay == 0 or (at is not None and delay is None)):
                # "in no time at all" / "at the present date" is the current time step: such an
                # activation takes its turn in the order in which it was made runnable (C02)
                model.queues.setdefault(due, []).append([target, signal, self.tick])
            elif due == now and not (delay is None and at is None):
                # now + d == now for a positive d (inf + d, 2**60 + 1): re-queued behind the
                # current step under an equal key; the model does not follow that corner
                # (recorded, not asserted)
                model.tainted = True
            elif due < now:
                self._kv("C01/schedule-into-past",
                         "activation scheduled for %r at time %r" % (due, now))
                model.tainted = True
            else:
                model.queues.setdefault(due, []).append([target, signal, self.tick])
        self._fire_due()

    def _on_activation(self, loop, target, signal):
        self.tick += 1
        self.n_act += 1
        now = loop.time
        name = self.current = self.name_of(target)
        self.current_target = target
        if self.acts is not None:
            self.acts.append((self.tick, now, name, _sigkind(signal), id(target)))
        # step caps
        key = (id(loop), now)
        if key == self._same_key:
            self._same += 1
            if self._same > self.same_time_cap:
                self.verdict = "livelock"
                raise Livelock("more than %d activations at virtual time %r; last: %s"
                               % (self.same_time_cap, now, name))
        else:
            self._same_key = key
            self._same = 1
            self.time_steps += 1
        if self.n_act > self.total_cap:
            self.verdict = "budget"
            raise Budget("more than %d activations" % self.total_cap)
        # kernel model: clock and queue discipline
        model = self._model(loop)
        if now < model.time:
            self._kv("C01/clock-backwards", "clock went from %r to %r" % (model.time, now))
            model.tainted = True
        if not model.tainted:
            if now != model.time or not model.started:
                self._advance(model, now)
            queue = model.queues.get(now)
            while queue and not _live(queue[0], self.revoked):
                queue.pop(0)          # revoked or target closed before its turn: dropped
            if not queue:
                self._kv("C02/unscheduled-activation",
                         "%s activated at %r without having been scheduled for it"
                         % (name, now))
                model.tainted = True
            else:
                exp_target, exp_signal = queue.pop(0)[:2]
                if exp_target is not target or exp_signal is not signal:
                    self._kv("C02/fifo",
                             "at %r turn of %s(%s) but %s(%s) was made runnable first"
                             % (now, name, _sigkind(signal), self.name_of(exp_target),
                                _sigkind(exp_signal)))
                    model.tainted = True
        if now > self.max_time:
            self.max_time = now
        for mon in self.monitors:
            mon(self, loop, target, signal)
        self._fire_due()

    def _advance(self, model, now):
        """The clock moves from model.time to now: nothing live may be left behind."""
        model.started = True
        for due in [d for d in model.queues if d < now]:
            left = [e for e in model.queues.pop(due) if _live(e, self.revoked)]
            if left:
                self._kv("C01/skipped",
                         "clock moved to %r although %d activation(s) were still due at %r"
                         " (first: %s)" % (now, len(left), due, self.name_of(left[0][0])))
                model.tainted = True
        model.time = now

    def finish(self, loop_time=None):
        """Kept for callers: every loop is checked when its own run() returns."""

    def _finish_loop(self, loop):
        """Loop.run() returned normally: nothing live may be left in that loop."""
        model = self.models.get(id(loop))
        if model is None or model.loop is not loop or model.tainted:
            return
        for due, queue in model.queues.items():
            left = [e for e in queue if _live(e, self.revoked)]
            if left:
                self._kv("C15/run-returned-with-pending-work",
                         "run() returned with %d live activation(s) due at %r (first: %s)"
                         % (len(left), due, self.name_of(left[0][0])))
                break

    # -- faults ------------------------------------------------------------------------
    def _fire_due(self):
        if self._injecting or self._next >= len(self.plan):
            return
        self._injecting = True
        try:
            while self._next < len(self.plan) and self.plan[self._next]["tick"] <= self.tick:
                fault = self.plan[self._next]
                self._next += 1
                outcome = self._inject(fault) if self._inject is not None else "no-injector"
                self.fired.append((self.tick, fault, outcome))
        finally:
            self._injecting = False
