"""Scenario interpreter: scenario JSON -> real usim activities that log what they observe.

A *case* is ``{"property": .., "scenario": {..}, "plan": [..], "config": {..}}`` - plain JSON.
Nothing here draws a random number or reads a wall clock: replay is a pure function of the
case and of the code under /repo.
"""
import gc
import sys
import inspect
import math
import warnings
import operator

from . import bind_repo
from .seam import Seam, HarnessAbort

usim = bind_repo()
from usim import (  # noqa: E402
    time, eternity, instant, until, Scope, Flag, Tracked, Lock, Queue, Channel,
    StreamClosed, Capacities, Resources, ResourcesUnavailable, Pipe, UnboundedPipe,
    TaskCancelled, TaskClosed, VolatileTaskClosed, CancelTask, Concurrent, TaskState,
    interval, delay, IntervalExceeded, first, collect,
)
from usim._core.loop import Interrupt as KernelInterrupt  # noqa: E402
try:
    from usim._primitives.context import CancelScope, ScopeClosed
except ImportError:                                        # pragma: no cover
    CancelScope = ScopeClosed = None

warnings.simplefilter("ignore", RuntimeWarning)

CMP = {"<": operator.lt, "<=": operator.le, "==": operator.eq, "!=": operator.ne,
       ">=": operator.ge, ">": operator.gt}


# ---- exceptions raised by generated programs -----------------------------------------
class ProgError(Exception):
    """Raised by a generated program; carries a unique serial."""
    def __init__(self, serial, tag=""):
        super().__init__(serial, tag)
        self.serial = serial
        self.tag = tag


class ProgErrorA(ProgError):
    pass


class ProgErrorB(ProgError):
    pass


class ProgErrorZ(ProgError):
    """A falsy exception object (a collection-like error that reports no items)."""
    def __bool__(self):
        return False

    def __len__(self):
        return 0


class ProgKeyError(KeyError):
    def __init__(self, serial, tag=""):
        super().__init__(serial, tag)
        self.serial = serial
        self.tag = tag


class ProgAssertion(AssertionError):
    def __init__(self, serial, tag=""):
        super().__init__(serial, tag)
        self.serial = serial
        self.tag = tag


class ProgAssertionZ(ProgAssertion):
    """A falsy privileged exception (an `AssertionError` subclass that reports no items)."""
    def __bool__(self):
        return False

    def __len__(self):
        return 0


class ProgSystemExit(SystemExit):
    def __init__(self, serial, tag=""):
        super().__init__(serial, tag)
        self.serial = serial
        self.tag = tag


class ProgKeyboardInterrupt(KeyboardInterrupt):
    def __init__(self, serial, tag=""):
        super().__init__(serial, tag)
        self.serial = serial
        self.tag = tag


PROG_TYPES = {"E": ProgError, "A": ProgErrorA, "B": ProgErrorB, "Z": ProgErrorZ, "K": ProgKeyError,
              "assert": AssertionError, "exit": SystemExit, "kbd": KeyboardInterrupt,
              "assert_sub": ProgAssertion, "assert_z": ProgAssertionZ, "exit_sub": ProgSystemExit,
              "kbd_sub": ProgKeyboardInterrupt}
PROG_CLASSES = (ProgError, ProgKeyError, ProgAssertion, ProgSystemExit, ProgKeyboardInterrupt)
PRIVILEGED = (SystemExit, KeyboardInterrupt, AssertionError)
PRIVILEGED_NAMES = ("AssertionError", "SystemExit", "KeyboardInterrupt", "ProgAssertion", "ProgAssertionZ",
                    "ProgSystemExit", "ProgKeyboardInterrupt")


def is_prog(exc):
    """Was this exception object raised by a generated program (not by usim or Python)?"""
    if isinstance(exc, PROG_CLASSES):
        return True
    return type(exc) in PRIVILEGED and len(exc.args) == 2 and exc.args[1] == "prog" \
        and isinstance(exc.args[0], int)


def is_signal(exc):
    return isinstance(exc, (KernelInterrupt, GeneratorExit))


#: condition objects shared by the runs of one history (cleared by whoever starts a history)
SHARED_CONDITIONS = {}


class Record:
    """What one simulated run produced."""
    __slots__ = ("case", "trace", "acts", "sched", "outcome", "kernel_violations", "fired",
                 "final_status", "monitor_violations", "notes", "fault_log",
                 "unraisable", "ticks", "n_act", "end_time", "start_time", "time_steps",
                 "world", "raised", "env_now_after")

    def digest_items(self):
        """Observable event log without tick numbers or addresses."""
        return [(e[2], e[3], e[4]) + tuple(e[5:]) for e in self.trace]


class World:
    def __init__(self, case, record_kernel=True, seam=None):
        self.case = case
        self.scenario = case["scenario"]
        self.config = case.get("config") or {}
        self.plan = case.get("plan") or []
        self.trace = []
        self.res = {}
        self.tasks = {}        # actor name -> Task
        self.task_name = {}    # id(Task) -> actor name   (tasks pinned in self.tasks)
        self.scopes = {}       # label -> Scope
        self.scope_label = {}  # id(Scope) -> label
        self.scope_children = {}   # label -> [child actor names]
        self.root_scope = None
        self.serial = 0
        self.junk = []
        self.conds = {}        # shared condition objects by name
        self.held = {}         # (actor, name) -> condition object kept in a "variable"
        self.ctxs = {}         # name -> borrow/claim context object used by several blocks
        self.seam = seam if seam is not None else Seam(
            plan=self.plan, inject=self.inject, record=record_kernel,
            same_time_cap=self.config.get("same_time_cap"),
            total_cap=self.config.get("total_cap"))
        self.ops = {name[3:]: getattr(self, name) for name in dir(self)
                    if name.startswith("op_")}
        self.raised = {}       # serial -> (class name, actor)
        self.monitor_violations = []   # (rule, message) found by property monitors
        self.notes = {}            # free-form data collected by property monitors
        self.faulted = {}      # actor -> list of (tick, kind)
        self.fault_log = []    # dicts: tick, time, kind, victim, token, outcome, status
        self.obj_ids = {}      # id(object) -> small serial (objects pinned by their owners)

    # ---- logging ---------------------------------------------------------------------
    def log(self, actor, ev, *data):
        seam = self.seam
        self.trace.append((seam.tick, seam.n_act, time.now, actor, ev) + data)

    def meta(self, exc):
        """Metadata of an exception object; never keeps the object or its traceback."""
        if exc is None:
            return None
        name = type(exc).__name__
        if is_prog(exc):
            return (name, exc.args[0])
        if isinstance(exc, Concurrent):
            return ("Concurrent",) + tuple(self.meta(c) for c in exc.children)
        if isinstance(exc, CancelTask):
            return (name, "task:" + str(self.task_name.get(id(exc.subject), "?")),
                    tuple(exc.token))
        if CancelScope is not None and isinstance(exc, CancelScope):
            return (name, "scope:" + str(self.scope_label.get(id(exc.subject), "?")))
        if isinstance(exc, TaskCancelled):
            return (name, "task:" + str(self.task_name.get(id(exc.subject), "?")),
                    tuple(exc.args))
        if isinstance(exc, KernelInterrupt):
            return (name, "interrupt")
        return (name,)

    def oid(self, obj):
        """Small serial for an object that is kept alive by its owner (never by us)."""
        key = id(obj)
        if key not in self.obj_ids:
            self.obj_ids[key] = len(self.obj_ids) + 1
        return self.obj_ids[key]

    # ---- resources -------------------------------------------------------------------
    def make_resources(self):
        junk = self.config.get("junk", 0)
        for i, (name, spec) in enumerate(self.scenario.get("resources", {}).items()):
            if junk:
                self.junk.append([object() for _ in range((junk * (i + 3)) % 11)])
            kind = spec["kind"]
            if kind == "flag" and self.scenario.get("share_conditions") \
                    and not self.scenario.get("share_time_only"):
                # module-level flags used by several runs of one history
                obj = SHARED_CONDITIONS.get(("flag", name))
                if obj is None:
                    obj = SHARED_CONDITIONS[("flag", name)] = Flag()
            elif kind == "flag":
                obj = Flag()               # flags with "init" are set by root() via the API
            elif kind == "tracked":
                obj = Tracked(spec.get("init", 0))
            elif kind in ("lock", "pipe", "upipe") and self.scenario.get("reuse_objects"):
                # module-level primitives used by one simulation after the other (replications of
                # a model around the same Lock / Pipe objects; idle again after every run)
                obj = SHARED_CONDITIONS.get((kind, name))
                if obj is None:
                    if kind == "lock":
                        obj = Lock()
                    elif kind == "pipe":
                        tp = spec["throughput"]
                        obj = Pipe(throughput=math.inf if tp == "inf" else tp)
                    else:
                        obj = UnboundedPipe()
                    SHARED_CONDITIONS[(kind, name)] = obj
            elif kind == "lock":
                obj = Lock()
            elif kind == "queue":
                obj = Queue()
            elif kind == "channel":
                obj = Channel()
            elif kind == "capacities":
                obj = Capacities(**spec["levels"])
            elif kind == "resources":
                obj = Resources(**spec["levels"])
            elif kind == "pipe":
                tp = spec["throughput"]
                obj = Pipe(throughput=math.inf if tp == "inf" else tp)
            elif kind == "upipe":
                obj = UnboundedPipe()
            else:
                raise ValueError("unknown resource kind %r" % kind)
            self.res[name] = obj

    # ---- conditions ------------------------------------------------------------------
    def build(self, expr):
        """Build a usim notification from an expression tree."""
        k = expr["k"]
        if k == "flag":
            return self.res[expr["n"]]
        if k == "not":
            return ~self.build(expr["x"])
        if k == "and":
            xs = [self.build(x) for x in expr["xs"]]
            out = xs[0]
            for x in xs[1:]:
                out = out & x
            return out
        if k == "or":
            xs = [self.build(x) for x in expr["xs"]]
            out = xs[0]
            for x in xs[1:]:
                out = out | x
            return out
        if k == "cmp":
            left = self.res[expr["l"]]
            right = expr["r"]
            if isinstance(right, dict):
                right = self.res[right["tr"]]
            return CMP[expr["op"]](left, right)
        if k == "levels":
            return CMP[expr["op"]](self.res[expr["res"]], dict(expr["amounts"]))
        if k == "time":
            date = self.num(expr["t"])
            if self.scenario.get("share_conditions"):
                # the same object as the one awaited by `at` ops for this (comparison, date)
                cond = SHARED_CONDITIONS.get((expr["op"], date))
                if cond is None:
                    cond = SHARED_CONDITIONS[(expr["op"], date)] = \
                        (time == date) if expr["op"] == "==" else (time >= date) \
                        if expr["op"] == ">=" else (time < date)
                return cond
            if expr["op"] == ">=":
                return time >= date
            if expr["op"] == "==":
                return time == date
            if expr["op"] == "<":
                return time < date
            raise ValueError(expr["op"])
        if k == "delay":
            if self.scenario.get("share_conditions"):
                pause = SHARED_CONDITIONS.get(("delay", self.num(expr["d"])))
                if pause is None:
                    pause = SHARED_CONDITIONS[("delay", self.num(expr["d"]))] = \
                        time + self.num(expr["d"])
                return pause
            return time + self.num(expr["d"])
        if k == "done":
            task = self.tasks.get(expr["task"])
            return eternity if task is None else task.done
        if k == "instant":
            return instant
        if k == "eternity":
            return eternity
        if k == "shared":
            name = expr["n"]
            if name not in self.conds:
                self.conds[name] = self.build(expr["x"])
            return self.conds[name]
        raise ValueError("unknown expression %r" % k)

    @staticmethod
    def num(value):
        if value == "inf":
            return math.inf
        return value

    def truth(self, expr, now=None):
        """Independent evaluator: plain booleans over values read through the public API."""
        k = expr["k"]
        if k == "flag":
            return bool(self.res[expr["n"]])
        if k == "not":
            return not self.truth(expr["x"], now)
        if k == "and":
            return all([self.truth(x, now) for x in expr["xs"]])
        if k == "or":
            return any([self.truth(x, now) for x in expr["xs"]])
        if k == "cmp":
            left = self.res[expr["l"]].value
            right = expr["r"]
            if isinstance(right, dict):
                right = self.res[right["tr"]].value
            return CMP[expr["op"]](left, right)
        if k == "levels":
            levels = dict(self.res[expr["res"]].levels)
            pairs = [(levels[key], value) for key, value in expr["amounts"].items()]
            for key in levels:
                if key not in expr["amounts"]:
                    pairs.append((levels[key], 0))
            if expr["op"] == "!=":
                return any(a != b for a, b in pairs)
            return all(CMP[expr["op"]](a, b) for a, b in pairs)
        if k == "time":
            now = time.now if now is None else now
            return CMP[expr["op"]](now, self.num(expr["t"]))
        if k == "done":
            task = self.tasks.get(expr["task"])
            return False if task is None else task.status.name not in ("CREATED", "RUNNING")
        if k == "instant":
            return True
        if k == "eternity":
            return False
        if k == "shared":
            return self.truth(expr["x"], now)
        raise ValueError("unknown expression %r" % k)

    # ---- fault injection (called by the seam between/inside activations) --------------
    def inject(self, fault):
        kind = fault["kind"]
        try:
            if kind == "cancel":
                task = self.tasks.get(fault["victim"])
                if task is None:
                    return "no-victim"
                done = bool(task.done)
                status = task.status.name
                task.cancel(*fault.get("token", ("fault",)))
                self.faulted.setdefault(fault["victim"], []).append((self.seam.tick, kind))
                self.fault_log.append({"tick": self.seam.tick, "time": time.now, "kind": kind,
                                       "victim": fault["victim"], "status": status,
                                       "token": tuple(fault.get("token", ("fault",)))})
                return "late" if done else "sent"
            if kind == "set_flag":
                flag = self.res.get(fault["flag"])
                scope = self.root_scope
                if flag is None or scope is None:
                    return "no-victim"
                scope.do(self._saboteur(flag, fault.get("to", True), fault["flag"]))
                if fault.get("victim"):
                    self.faulted.setdefault(fault["victim"], []).append(
                        (self.seam.tick, fault.get("as", kind)))
                    self.fault_log.append({"tick": self.seam.tick, "time": time.now,
                                           "kind": fault.get("as", kind),
                                           "victim": fault["victim"]})
                return "sent"
            if kind == "gc":
                gc.collect()
                return "sent"
            if kind == "junk":
                self.junk.append([object() for _ in range(fault.get("n", 7))])
                return "sent"
        except HarnessAbort:
            raise
        except Exception as err:   # e.g. ScopeClosed: the run is already shutting down
            return "refused:" + type(err).__name__
        return "unknown-kind"

    async def _saboteur(self, flag, to, name):
        await flag.set(to)

    # ---- actors ----------------------------------------------------------------------
    def next_serial(self):
        self.serial += 1
        return self.serial

    def _current_activity(self):
        # the coroutine the kernel is activating right now, as seen by the seam (no usim internals)
        return self.seam.current_target

    async def actor(self, spec):
        name = spec["name"]
        self.seam.register(self._current_activity(), name)
        self.log(name, "start")
        try:
            await self.run_ops(name, spec.get("ops", ()))
        except BaseException as err:
            self.log(name, "exc", self.meta(err))
            raise
        else:
            self.log(name, "end")
            if "ret" in spec:
                return spec["ret"]

    def spawn(self, scope, spec, parent, label=None):
        """Start an actor as a child task of ``scope``; returns the Task."""
        name = spec["name"]
        cage = spec.get("cage")
        kwargs = {}
        if spec.get("after") is not None:
            kwargs["after"] = spec["after"]
        if spec.get("at") is not None:
            kwargs["at"] = self.num(spec["at"])
        if spec.get("volatile"):
            kwargs["volatile"] = True
        if cage and "kill:" + name not in self.res:
            self.res["kill:" + name] = Flag()
        if cage == "body":
            coro = self._cage_body(spec)
        elif cage == "child":
            coro = self._cage_child(spec)
        elif spec.get("wraps") and spec["wraps"] in self.tasks:
            coro = self.tasks[spec["wraps"]]     # the payload is another Task: `scope.do(task)`
        elif spec.get("payload") is not None:
            # the documented idiom `scope.do(time + 20)` / `scope.do(eternity, volatile=True)`:
            # the payload is a notification, not a coroutine
            coro = self.build(spec["payload"])
        else:
            coro = self.actor(spec)
        self.last_payload = coro
        task = scope.do(coro, **kwargs)
        if cage != "child":
            self.tasks[name] = task
            self.task_name[id(task)] = name
            self.seam.register(getattr(task, "__runner__", None), name)
        else:
            self.tasks["cage:" + name] = task
            self.task_name[id(task)] = "cage:" + name
            self.seam.register(getattr(task, "__runner__", None), "cage:" + name)
        self.log(parent, "spawn", name, label, bool(spec.get("volatile")))
        if label is not None:
            self.scope_children.setdefault(label, []).append(name)
        return task

    async def _cage_body(self, spec):
        name = spec["name"]
        flag = self.res["kill:" + name]
        async with until(flag):
            await self.actor(spec)
        self.log(name, "cage.exit")

    async def _cage_child(self, spec):
        name = spec["name"]
        flag = self.res["kill:" + name]
        self.seam.register(self._current_activity(), "cage:" + name)
        async with until(flag) as scope:
            task = scope.do(self.actor(spec))
            self.tasks[name] = task
            self.task_name[id(task)] = name
            self.seam.register(getattr(task, "__runner__", None), name)
            self.log("cage:" + name, "spawn", name, "cage:" + name, False)
        self.log("cage:" + name, "cage.exit")

    async def root(self):
        if self.config.get("junk"):
            self.junk.append([object() for _ in range(self.config["junk"])])
        self.make_resources()
        self.seam.register(self._current_activity(), "root")
        for name, spec in self.scenario.get("resources", {}).items():
            if spec.get("kind") == "flag" and spec.get("init"):
                await self.res[name].set()       # before any actor exists
        async with Scope() as scope:
            self.root_scope = scope
            self.scopes["root"] = scope
            self.scope_label[id(scope)] = "root"
            for spec in self.scenario.get("actors", ()):
                self.spawn(scope, spec, "root", "root")
        self.log("root", "root.exit")

    # ---- op interpreter ---------------------------------------------------------------
    async def run_ops(self, actor, ops):
        table = self.ops
        for op in ops:
            await table[op["op"]](actor, op)

    async def op_sleep(self, a, op):
        d = self.num(op["d"])
        self.log(a, "sleep+", d)
        if self.scenario.get("share_conditions"):
            # one `pause = time + d` object for every wait of that length (a Delay counts from
            # the moment each wait starts, however many are pending on it)
            pause = SHARED_CONDITIONS.get(("delay", d))
            if pause is None:
                pause = SHARED_CONDITIONS[("delay", d)] = time + d
            await pause
        else:
            await (time + d)
        self.log(a, "sleep-", d)

    async def op_thread_probe(self, a, op):
        """A helper thread started from inside an activity (optionally running in a copy of the
        activity's context, as `asyncio.to_thread` and similar executors do) looks for a
        simulation: there is none in that thread."""
        import threading
        import contextvars
        seen = []

        def probe():
            try:
                seen.append(("sees", time.now))
            except RuntimeError:
                seen.append(("none", None))
        if op.get("ctx"):
            thread = threading.Thread(target=contextvars.copy_context().run, args=(probe,))
        else:
            thread = threading.Thread(target=probe)
        thread.start()
        thread.join()
        self.log(a, "thread_probe", bool(op.get("ctx")), seen[0][0] if seen else "?")

    async def op_postpone(self, a, op):
        for _ in range(op.get("k", 1)):
            await instant

    async def op_now(self, a, op):
        self.log(a, "now", op.get("tag"))

    async def op_at(self, a, op):
        date = self.num(op["t"])
        cmp = op["cmp"]
        self.log(a, "at+", cmp, date)
        if self.scenario.get("share_conditions"):
            # one condition object per (comparison, date) for all runs of a history, like a
            # module-level `DEADLINE = time >= 10` used by several replications
            cond = SHARED_CONDITIONS.get((cmp, date))
            if cond is None:
                cond = SHARED_CONDITIONS[(cmp, date)] = \
                    (time == date) if cmp == "==" else (time >= date) if cmp == ">=" \
                    else (time < date)
            await cond
        elif cmp == "==":
            await (time == date)
        elif cmp == ">=":
            await (time >= date)
        else:
            await (time < date)
        self.log(a, "at-", cmp, date)

    async def op_eternity(self, a, op):
        self.log(a, "eternity+")
        await eternity
        self.log(a, "eternity-")

    async def op_raise(self, a, op):
        serial = self.next_serial()
        cls = PROG_TYPES[op.get("type", "E")]
        self.raised[serial] = (cls.__name__, a)
        if op.get("chained"):
            # raised while handling another exception: the failure carries it as its context
            context = self.next_serial()
            self.log(a, "raise", cls.__name__, serial, context)
            try:
                raise PROG_TYPES["K"](context, "context")
            except PROG_TYPES["K"]:
                raise cls(serial, "prog")
        self.log(a, "raise", cls.__name__, serial)
        raise cls(serial, "prog")

    async def op_try(self, a, op):
        try:
            await self.run_ops(a, op["body"])
        except BaseException as err:
            if isinstance(err, HarnessAbort):
                raise
            if is_signal(err):
                if op.get("convert") and not isinstance(err, GeneratorExit):
                    # `except BaseException: raise Mine()` - a signal turned into a failure
                    self.log(a, "converted", self.meta(err))
                    await self.op_raise(a, op["convert"])
                raise
            if op.get("convert"):
                raise            # a converting handler handles signals only
            if not op.get("all") and not isinstance(err, (Exception, Concurrent)):
                raise
            self.log(a, "caught", self.meta(err))
            await self.run_ops(a, op.get("handler", ()))

    async def op_finally(self, a, op):
        """try: body / finally: handler. A forceful close may only run the non-suspending
        `sync` ops; any other exit runs the (possibly suspending) `handler` ops first."""
        try:
            await self.run_ops(a, op["body"])
        except GeneratorExit:
            self.log(a, "cleanup+", ("GeneratorExit",))
            if op.get("always"):
                # `finally: await ...` written for cancellations: also reached by a forceful close
                await self.run_ops(a, op.get("handler", ()))
            for sub in op.get("sync", ()):
                await self.ops[sub["op"]](a, sub)        # these ops never suspend
            self.log(a, "cleanup-")
            if op.get("convert"):
                # clean-up that fails: the close / signal is answered with a program exception
                await self.op_raise(a, op["convert"])
            raise
        except BaseException as err:
            self.log(a, "cleanup+", self.meta(err))
            await self.run_ops(a, op.get("handler", ()))
            for sub in op.get("sync", ()):
                await self.ops[sub["op"]](a, sub)
            self.log(a, "cleanup-")
            if op.get("convert") and is_signal(err):
                await self.op_raise(a, op["convert"])
            raise
        else:
            await self.run_ops(a, op.get("handler", ()))
            for sub in op.get("sync", ()):
                await self.ops[sub["op"]](a, sub)

    # -- flags / tracked / conditions
    async def op_flag_set(self, a, op):
        flag = self.res[op["on"]]
        to = op.get("to", True)
        self.log(a, "flag_set+", op["on"], to)
        await flag.set(to)
        self.log(a, "flag_set-", op["on"], to)

    async def op_tr_set(self, a, op):
        tracked = self.res[op["on"]]
        self.log(a, "tr_set+", op["on"], op["to"])
        await tracked.set(op["to"])
        self.log(a, "tr_set-", op["on"], op["to"])

    async def op_tr_add(self, a, op):
        tracked = self.res[op["on"]]
        self.log(a, "tr_add+", op["on"], op["by"])
        await (tracked + op["by"])
        self.log(a, "tr_add-", op["on"], tracked.value)

    async def op_hold(self, a, op):
        """c = <condition expression>: build it, look at it (`if c:`), keep it in a variable"""
        cond = self.build(op["x"])
        self.held[(a, op["as"])] = cond
        self.log(a, "hold", op["as"], bool(cond))

    async def op_drop(self, a, op):
        """del c.  Under config "retain" the object stays referenced from elsewhere (an
        unrelated reference: the memory layout differs, the program does not)."""
        cond = self.held.pop((a, op["as"]), None)
        if cond is not None and self.config.get("retain"):
            self.junk.append(cond)

    async def op_wait(self, a, op):
        """await <condition expression>"""
        cond = self.build(op["x"])
        if self.config.get("retain"):
            self.junk.append(cond)
        self.log(a, "wait+", op.get("id"), bool(cond), self.truth(op["x"]))
        try:
            await cond
        except BaseException as err:
            self.log(a, "wait!", op.get("id"), self.meta(err))
            raise
        self.log(a, "wait-", op.get("id"), bool(cond), self.truth(op["x"]))

    # -- lock
    async def op_lock(self, a, op):
        name = op["on"]
        lock = self.res[name]
        entered = False
        self.log(a, "lock.req", name)
        try:
            async with lock:
                entered = True
                self.log(a, "lock.enter", name)
                try:
                    await self.run_ops(a, op.get("body", ()))
                finally:
                    self.log(a, "lock.leave", name)
        except BaseException as err:
            if not entered:
                self.log(a, "lock.abort", name, self.meta(err))
            raise

    async def op_avail(self, a, op):
        self.log(a, "lock.avail", op["on"], self.res[op["on"]].available)

    # -- queue / channel
    async def op_put(self, a, op):
        name = op["on"]
        stream = self.res[name]
        self.log(a, "put+", name, op["v"])
        try:
            await stream.put(op["v"])
        except StreamClosed:
            self.log(a, "put.closed", name, op["v"])
        except BaseException as err:
            self.log(a, "put!", name, op["v"], self.meta(err))
            raise
        else:
            self.log(a, "put-", name, op["v"])

    async def op_get(self, a, op):
        name = op["on"]
        stream = self.res[name]
        self.log(a, "get+", name)
        try:
            value = await stream
        except StreamClosed:
            self.log(a, "get.closed", name)
        except BaseException as err:
            self.log(a, "get!", name, self.meta(err))
            raise
        else:
            self.log(a, "get-", name, value)

    async def op_iter(self, a, op):
        name = op["on"]
        stream = self.res[name]
        limit = op.get("n")
        count = 0
        if limit == 0:
            return
        self.log(a, "iter+", name)
        try:
            async for value in stream:
                self.log(a, "iter.item", name, value)
                count += 1
                await self.run_ops(a, op.get("body", ()))
                if limit is not None and count >= limit:
                    break
                self.log(a, "iter.next", name)
        except BaseException as err:
            self.log(a, "iter!", name, self.meta(err))
            raise
        finally:
            self.log(a, "iter-", name, count)

    async def op_close(self, a, op):
        name = op["on"]
        self.log(a, "close+", name)
        await self.res[name].close()
        self.log(a, "close-", name)

    # -- resources
    async def op_borrow(self, a, op):
        name = op.get("nested") or op["on"]
        amounts = dict(op["amounts"])
        ident = op.get("id")
        mode = op.get("mode", "borrow")
        entered = False
        if name not in self.res:
            self.log(a, mode + ".nosupply", name, ident, amounts)     # block never reached
            return
        supply = self.res[name]
        try:
            key = op.get("ctx")
            if key is not None and key in self.ctxs:
                ctx = self.ctxs[key]       # `lease = supply.borrow(...)` entered by several blocks
            else:
                ctx = supply.borrow(**amounts) if mode == "borrow" else supply.claim(**amounts)
                if key is not None:
                    self.ctxs[key] = ctx
            if op.get("share"):
                # `share = supply.borrow(...)`: the object is known to others from now on
                self.res[op["share"]] = ctx
            if op.get("defer"):
                # the context object is made now and entered later
                self.log(a, mode + ".made", name, ident, amounts)
                await self.run_ops(a, op["defer"])
            self.log(a, mode + ".req", name, ident, amounts, dict(supply.levels))
            async with ctx as share:
                entered = True
                if op.get("share"):
                    self.res[op["share"]] = share
                self.log(a, mode + ".enter", name, ident, amounts, op.get("share"))
                try:
                    await self.run_ops(a, op.get("body", ()))
                except BaseException as err:
                    # what ends the body is on record before the (suspending) exit begins: a
                    # second signal may replace it while the amounts are handed back
                    self.log(a, mode + ".body!", name, ident, self.meta(err))
                    raise
                finally:
                    self.log(a, mode + ".leave", name, ident, amounts, op.get("share"))
            self.log(a, mode + ".done", name, ident, amounts)
        except ResourcesUnavailable:
            self.log(a, mode + ".unavailable", name, ident, amounts)
        except BaseException as err:
            self.log(a, mode + ("!" if entered else ".abort"), name, ident, amounts,
                     self.meta(err))
            raise

    async def op_adjust(self, a, op):
        name = op["on"]
        supply = self.res[name]
        how = op["how"]
        amounts = dict(op["amounts"])
        before = dict(supply.levels)
        if how == "decrease" and any(before[key] < amounts[key] for key in amounts):
            self.log(a, "adjust.skip", name, how, amounts)
            await instant
            return
        self.log(a, "adjust+", name, how, amounts, before)
        try:
            await getattr(supply, how)(**amounts)
        except BaseException as err:
            self.log(a, "adjust!", name, how, amounts, self.meta(err))
            raise
        self.log(a, "adjust-", name, how, amounts)

    async def op_levels(self, a, op):
        self.log(a, "levels", op["on"], dict(self.res[op["on"]].levels))

    # -- pipe
    async def op_transfer(self, a, op):
        name = op["on"]
        pipe = self.res[name]
        total = math.inf if op["total"] == "inf" else op["total"]
        tp = op.get("tp")
        tp = math.inf if tp == "inf" else tp
        coro = None
        if op.get("defer") is not None or op.get("abandon"):
            # `job = pipe.transfer(...)` made now, started later (or dropped unstarted): a
            # transfer occupies the pipe from the moment it runs, not from when it is written down
            coro = pipe.transfer(total=total, throughput=tp)
            self.log(a, "transfer.made", name, op.get("id"))
            try:
                await self.run_ops(a, op.get("defer") or ())
            except BaseException:
                coro.close()
                raise
            if op.get("abandon"):
                coro.close()
                self.log(a, "transfer.dropped", name, op.get("id"))
                return
        self.log(a, "transfer+", name, op.get("id"), total, tp)
        try:
            await (coro if coro is not None else pipe.transfer(total=total, throughput=tp))
        except BaseException as err:
            self.log(a, "transfer!", name, op.get("id"), self.meta(err))
            raise
        self.log(a, "transfer-", name, op.get("id"))

    # -- scopes
    async def op_scope(self, a, op):
        label = op["label"]
        if op.get("until") is not None:
            ctx = until(self.build(op["until"]))
        else:
            ctx = Scope()
        self.scopes[label] = ctx
        self.scope_label[id(ctx)] = label
        self.log(a, "scope+", label)
        try:
            async with ctx as scope:
                self.log(a, "scope.in", label)
                try:
                    for child in op.get("children", ()):
                        self.spawn(scope, child, a, label)
                    await self.run_ops(a, op.get("body", ()))
                except BaseException as err:
                    self.log(a, "scope.body!", label, self.meta(err))
                    raise
                else:
                    self.log(a, "scope.body-", label)
        except BaseException as err:
            self.log(a, "scope!", label, self.meta(err))
            self._log_children(a, label)
            raise
        else:
            self.log(a, "scope-", label)
            self._log_children(a, label)

    def _log_children(self, a, label):
        states = []
        for name in self.scope_children.get(label, ()):
            task = self.tasks.get(name)
            if task is not None:
                states.append((name, task.status.name, bool(task.done)))
        self.log(a, "scope.children", label, tuple(states))

    async def op_spawn(self, a, op):
        scope = self.scopes.get(op["into"])
        spec = op["actor"]
        if scope is None:
            self.log(a, "spawn.noscope", op["into"], spec["name"])
            return
        try:
            self.spawn(scope, spec, a, op["into"])
        except Exception as err:
            if ScopeClosed is not None and isinstance(err, ScopeClosed):
                # "the payload is discarded": a refused coroutine is closed, not merely ignored
                payload, self.last_payload = getattr(self, "last_payload", None), None
                state = inspect.getcoroutinestate(payload) if inspect.iscoroutine(payload) \
                    else None
                self.log(a, "spawn.refused", op["into"], spec["name"], state)
            else:
                raise

    async def op_cancel(self, a, op):
        task = self.tasks.get(op["task"])
        if task is None:
            self.log(a, "cancel.notask", op["task"])
            return
        self.log(a, "cancel", op["task"], tuple(op.get("token", ())), bool(task.done))
        task.cancel(*op.get("token", ()))

    async def op_await_task(self, a, op):
        task = self.tasks.get(op["task"])
        if task is None:
            self.log(a, "await_task.notask", op["task"])
            return
        self.log(a, "await_task+", op["task"])
        try:
            value = await task
        except BaseException as err:
            if is_signal(err):
                self.log(a, "await_task!", op["task"], self.meta(err))
                raise
            self.log(a, "await_task.exc", op["task"], self.meta(err), self.oid(err),
                     self.task_name.get(id(getattr(err, "subject", None))))
            if op.get("reraise"):
                raise
        else:
            self.log(a, "await_task-", op["task"], value)

    async def op_await_done(self, a, op):
        task = self.tasks.get(op["task"])
        if task is None:
            return
        self.log(a, "await_done+", op["task"])
        await task.done
        self.log(a, "await_done-", op["task"], task.status.name)

    async def op_await_scope(self, a, op):
        scope = self.scopes.get(op["scope"])
        if scope is None:
            return
        self.log(a, "await_scope+", op["scope"])
        await scope
        self.log(a, "await_scope-", op["scope"])

    async def op_status(self, a, op):
        task = self.tasks.get(op["task"])
        if task is not None:
            self.log(a, "status", op["task"], task.status.name)

    # -- nested simulation
    async def op_nested_run(self, a, op):
        """Run a complete inner simulation from inside an activity."""
        outer = self
        start = op.get("start", 0)
        self.log(a, "nested+", start)

        async def inner(tag, delays, fail):
            outer.log(a + ":" + tag, "inner.start")
            for d in delays:
                await (time + d)
                outer.log(a + ":" + tag, "inner.step", d)
            if fail:
                serial = outer.next_serial()
                outer.log(a + ":" + tag, "raise", "ProgError", serial)
                raise ProgError(serial, "prog")
            outer.log(a + ":" + tag, "inner.end")

        coros = [inner("i%d" % i, spec.get("delays", ()), spec.get("fail", False))
                 for i, spec in enumerate(op.get("roots", ()))]
        kwargs = {"start": start}
        if op.get("till") is not None:
            kwargs["till"] = op["till"]
        try:
            usim.run(*coros, **kwargs)
        except ProgError as err:
            self.log(a, "nested!", self.meta(err))
        else:
            self.log(a, "nested-", start)

    # -- tickers
    async def op_ticker(self, a, op):
        kind = op["kind"]
        period = op["p"]
        bodies = op["bodies"]
        self.log(a, kind + "+", period)
        index = 0
        try:
            source = interval(period) if kind == "interval" else delay(period)
            if op.get("defer"):
                # `ticker = interval(p)` made now, iterated later: the grid starts with the loop
                await (time + op["defer"])
            if op.get("split") is not None or op.get("helper"):
                # the ticker object is stepped by hand: a second loop over the very same object
                # (`split`: the loop is left after that tick and entered again - what lies between
                # is a long body run), single steps taken by a child task (`helper`)
                stepper = source.__aiter__()
                helpers = set(op.get("helper") or ())
                while True:
                    try:
                        if index in helpers:
                            now = await self._step_in_child(a, stepper)
                        else:
                            now = await stepper.__anext__()
                    except StopAsyncIteration:
                        break
                    self.log(a, kind + ".tick", index, now)
                    if index >= len(bodies):
                        break
                    body = bodies[index]
                    index += 1
                    if body == "postpone":
                        await instant
                    elif body:
                        await (time + body)
                    self.log(a, kind + ".bodyend", index - 1)
                    if op.get("split") == index:
                        stepper = source.__aiter__()      # `async for now in ticker:` once more
            else:
                async for now in source:
                    self.log(a, kind + ".tick", index, now)
                    if index >= len(bodies):
                        break
                    body = bodies[index]
                    index += 1
                    if isinstance(body, list):
                        await self.run_ops(a, body)
                    elif body == "postpone":
                        await instant
                    elif body:
                        await (time + body)
                    self.log(a, kind + ".bodyend", index - 1)
        except IntervalExceeded:
            self.log(a, kind + ".exceeded", index)
        except ValueError:
            self.log(a, kind + ".valueerror", index)
        self.log(a, kind + "-", index)

    async def _step_in_child(self, a, stepper):
        """The next tick is awaited by a child task, the owner of the loop waits for that task."""
        async def step():
            return await stepper.__anext__()
        try:
            async with Scope() as scope:
                task = scope.do(step())
                return await task
        except Concurrent as err:
            if len(err.children) == 1:
                raise err.children[0]
            raise

    # -- flow
    def _flow_activity(self, a, spec, tag):
        async def activity():
            self.log(a, "flow.start", tag, spec["name"])
            try:
                await self.run_ops(spec["name"], spec.get("ops", ()))
            except BaseException as err:
                self.log(spec["name"], "flow.exc", tag, self.meta(err))
                raise
            self.log(spec["name"], "flow.end", tag)
            return spec.get("ret", spec["name"])
        return activity()

    async def op_collect(self, a, op):
        tag = op.get("id")
        acts = [self._flow_activity(a, spec, tag) for spec in op["acts"]]
        self.log(a, "collect+", tag)
        try:
            result = await collect(*acts)
        except BaseException as err:
            self.log(a, "collect!", tag, self.meta(err))
            if is_signal(err) or op.get("reraise"):
                raise
        else:
            self.log(a, "collect-", tag, tuple(result))

    async def op_first(self, a, op):
        tag = op.get("id")
        acts = [self._flow_activity(a, spec, tag) for spec in op["acts"]]
        kwargs = {}
        if "count" in op:
            kwargs["count"] = op["count"]
        self.log(a, "first+", tag)
        got = 0
        try:
            async for value in first(*acts, **kwargs):
                self.log(a, "first.item", tag, value)
                got += 1
                if op.get("break_after") is not None and got >= op["break_after"]:
                    break
                await self.run_ops(a, op.get("body", ()))
        except ValueError:
            for coro in acts:
                coro.close()
            self.log(a, "first.valueerror", tag)
        except BaseException as err:
            self.log(a, "first!", tag, self.meta(err))
            if is_signal(err) or op.get("reraise"):
                raise
        else:
            self.log(a, "first-", tag, got)


def _silent_hook(unraisable):
    """Finalisers of abandoned simulations (blocked activities) complain; not our subject."""


def _unraisable_collector(store):
    def hook(unraisable):
        store.append((type(unraisable.exc_value).__name__,
                      str(unraisable.exc_value)[:120]))
    return hook


def execute(case, record_kernel=True, setup=None):
    """Run one case against the real usim; returns a Record.

    ``setup(world)`` may attach monitors to ``world.seam`` before the run starts.
    """
    world = World(case, record_kernel=record_kernel)
    if setup is not None:
        setup(world)
    scenario = case["scenario"]
    if scenario.get("share_conditions") != "history" and not scenario.get("reuse_objects"):
        SHARED_CONDITIONS.clear()        # objects are shared within this run only
    config = case.get("config") or {}
    record = Record()
    record.case = case
    unraisable = []
    old_hook = sys.unraisablehook
    sys.unraisablehook = _unraisable_collector(unraisable)
    gc_enabled = gc.isenabled()
    gc.disable()
    from usim._core import loop as kernel
    old_waitq = kernel.WaitQueue
    waitq = config.get("waitq")
    if waitq:
        from usim._core import waitq as wq
        kernel.WaitQueue = wq.SDWaitQueue if waitq == "sd" else wq.HQWaitQueue
    start = scenario.get("start", 0)
    raised = None
    if any(fault.get("kind") == "gc" for fault in world.plan):
        # garbage of earlier runs must not be finalised inside this simulation
        sys.unraisablehook = _silent_hook
        gc.collect()
        sys.unraisablehook = _unraisable_collector(unraisable)
    try:
        with world.seam as seam:
            try:
                kwargs = {"start": start}
                if scenario.get("till") is not None:
                    kwargs["till"] = World.num(scenario["till"])
                if scenario.get("roots") == "direct":
                    world.make_resources()
                    roots = []
                    for spec in scenario.get("actors", ()):
                        coro = world.actor(spec)
                        world.seam.register(coro, spec["name"])
                        roots.append(coro)
                    usim.run(*roots, **kwargs)
                else:
                    usim.run(world.root(), **kwargs)
                outcome = ("ok",)
                seam.finish()
            except HarnessAbort as err:
                outcome = ("abort", type(err).__name__, str(err))
            except KeyboardInterrupt as err:
                if not is_prog(err):
                    raise
                outcome = ("raise", world.meta(err))
                raised = err
            except BaseException as err:
                outcome = ("raise", world.meta(err))
                raised = err
    finally:
        kernel.WaitQueue = old_waitq
    record.outcome = outcome
    record.raised = raised
    record.trace = world.trace
    record.acts = seam.acts
    record.sched = seam.sched
    record.kernel_violations = seam.kernel_violations
    record.fired = seam.fired
    record.ticks = seam.tick
    record.n_act = seam.n_act
    record.time_steps = seam.time_steps
    record.start_time = start
    record.end_time = seam.max_time if seam.max_time > -math.inf else start
    record.world = world
    record.unraisable = unraisable
    record.fault_log = world.fault_log
    record.monitor_violations = world.monitor_violations
    record.notes = world.notes
    record.final_status = {}
    for name, task in world.tasks.items():
        try:
            record.final_status[name] = task.status.name
        except Exception as err:
            record.final_status[name] = "?" + type(err).__name__
    return record


_CLEANUPS = [0]


def cleanup(record, collect_every=16):
    """Drop everything a finished run left behind (suspended coroutines, cycles)."""
    world = record.world
    record.world = None
    record.raised = None
    if world is not None:
        world.seam.pins.clear()
        world.seam.models.clear()
        world.seam.revoked.clear()
        world.tasks.clear()
        world.res.clear()
        world.scopes.clear()
        world.conds.clear()
        world.held.clear()
        world.ctxs.clear()
        world.junk.clear()
    sys.unraisablehook = _silent_hook
    try:
        del world
        _CLEANUPS[0] += 1
        if _CLEANUPS[0] % collect_every == 0:
            gc.collect()
    finally:
        sys.unraisablehook = _silent_hook
