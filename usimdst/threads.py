"""Baton scheduler: K real threads, exactly one runs, a seeded choice at every switch point."""
import sys
import threading


class Baton:
    def __init__(self, rng, names):
        self.rng = rng
        self.cond = threading.Condition()
        self.alive = list(names)
        self.current = None
        self.switches = 0
        self.log = []            # sequence of thread names as they got the baton
        self.failed = None

    def start(self):
        with self.cond:
            self.current = self.rng.choice(self.alive)
            self.log.append(self.current)
            self.cond.notify_all()

    def wait_turn(self, name):
        with self.cond:
            while self.current != name and self.failed is None:
                if not self.cond.wait(timeout=30):
                    self.failed = "baton lost (timeout waiting for %s)" % name
                    self.cond.notify_all()
                    raise RuntimeError(self.failed)
            if self.failed is not None and self.current != name:
                raise RuntimeError(self.failed)

    def switch(self, name):
        """Called by the running thread at a switch point."""
        with self.cond:
            if self.failed is not None:
                return
            self.switches += 1
            self.current = self.rng.choice(self.alive)
            if len(self.log) < 4000:
                self.log.append(self.current)
            self.cond.notify_all()
        if self.current != name:
            self.wait_turn(name)

    def finish(self, name):
        with self.cond:
            if name in self.alive:
                self.alive.remove(name)
            if self.alive:
                self.current = self.rng.choice(self.alive)
                self.log.append(self.current)
            else:
                self.current = None
            self.cond.notify_all()


def line_tracer(codes, on_line):
    """A trace function that reports line events only inside the given code objects."""
    def local(frame, event, arg):
        if event == "line":
            on_line(frame)
        return local

    def tracer(frame, event, arg):
        if event == "call" and frame.f_code in codes:
            return local
        return None
    return tracer
