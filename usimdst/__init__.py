"""usimdst - deterministic simulation testing with fault injection for usim.

usim is imported from the working tree under /repo (or $USIM_REPO); nothing of usim is
stubbed.  See /verif/DESIGN.md.
"""
import os
import sys

REPO = os.environ.get("USIM_REPO", "/repo")
VERIF = os.path.dirname(os.path.dirname(os.path.abspath(__file__)))


def bind_repo():
    """Put the working tree first on sys.path and make sure usim comes from there."""
    if sys.path[0] != REPO:
        sys.path.insert(0, REPO)
    import usim
    origin = os.path.realpath(usim.__file__)
    if not origin.startswith(os.path.realpath(REPO) + os.sep):
        print("HARNESS-ERROR usim imported from %s, not from %s" % (origin, REPO))
        sys.exit(2)
    return usim
