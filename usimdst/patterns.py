"""History patterns by which listed findings are recognised (known_findings.json `key`)."""

OVERTAKEN_KEY = "a signal overtook the suspending clean-up of an earlier one"


def overtaken_cleanups(rec):
    """Actors whose suspending clean-up handler (`finally` op: logged cleanup+ when an
    exception or interrupt passes through, cleanup- when the handler is through) was started
    but never finished: another signal was thrown at the handler's suspension point and
    replaced the exception in flight (known finding F25)."""
    started, finished = {}, {}
    for ev in rec.trace:
        if ev[4] == "cleanup+":
            started[ev[3]] = started.get(ev[3], 0) + 1
        elif ev[4] == "cleanup-":
            finished[ev[3]] = finished.get(ev[3], 0) + 1
    return sorted(a for a, n in started.items() if n > finished.get(a, 0))


def tag_overtaken(rec, violations, rules):
    """Mark violations of the given rules in a run that shows the pattern."""
    actors = overtaken_cleanups(rec)
    if not actors:
        return
    for violation in violations:
        if violation["rule"] in rules:
            violation["key"] = "%s (%s): %s" % (OVERTAKEN_KEY, ", ".join(actors),
                                               violation["msg"])


DISPLACED_CLOSE_KEY = "clean-up awaited during a forceful close that a privileged child failure displaced"
PRIVILEGED = ("SystemExit", "KeyboardInterrupt", "AssertionError", "ProgAssertion", "ProgAssertionZ")


def displaced_close(rec):
    """Actors that were closed forcefully while an inner scope of theirs had a privileged child
    failure pending: the scope left with that failure instead of the GeneratorExit (scope! with
    a privileged meta), the actor's clean-up handler took it for an ordinary exception and
    awaited (cleanup+ with that meta), and the close died with RuntimeError - all within one
    activation, which belongs to whoever closes (known finding F38)."""
    hit = set()
    last_cleanup = {}
    for ev in rec.trace:
        actor, kind = ev[3], ev[4]
        if kind == "cleanup+" and ev[5] and ev[5][0] in PRIVILEGED:
            last_cleanup[actor] = ev[1]
        elif kind == "exc" and ev[5] and ev[5][0] == "RuntimeError" \
                and last_cleanup.get(actor) == ev[1]:
            hit.add(actor)
    return sorted(hit)
