"""History patterns by which listed findings are recognised (known_findings.json `key`)."""

OVERTAKEN_KEY = "a signal overtook the suspending clean-up of an earlier one"


def overtaken_cleanups(rec):
    """Actors whose suspending clean-up handler (`finally` op: logged cleanup+ when an
    exception or interrupt passes through, cleanup- when the handler is through) was started
    but never finished: another signal was thrown at the handler's suspension point and
    replaced the exception in flight (known finding F25)."""
    started, finished = {}, {}
    for ev in rec.trace:
        if ev[4] == "cleanup+":
            started[ev[3]] = started.get(ev[3], 0) + 1
        elif ev[4] == "cleanup-":
            finished[ev[3]] = finished.get(ev[3], 0) + 1
    return sorted(a for a, n in started.items() if n > finished.get(a, 0))


def tag_overtaken(rec, violations, rules):
    """Mark violations of the given rules in a run that shows the pattern."""
    actors = overtaken_cleanups(rec)
    if not actors:
        return
    for violation in violations:
        if violation["rule"] in rules:
            violation["key"] = "%s (%s): %s" % (OVERTAKEN_KEY, ", ".join(actors),
                                               violation["msg"])
