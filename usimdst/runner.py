"""Seeded fan-out over cases, fault sweeps, shrinking, replay files, evidence files."""
import os
import sys
import gc
import json
import time as wallclock      # wall clock: budgets and evidence only, never a decision in a run
import random
import hashlib
import importlib
import subprocess
import faulthandler
import multiprocessing
from collections import Counter
from concurrent.futures import ProcessPoolExecutor

from . import VERIF, REPO

EVIDENCE_DIR = os.environ.get("VERIF_EVIDENCE_DIR") or os.path.join(VERIF, "evidence")
REPLAY_DIR = os.environ.get("VERIF_REPLAY_DIR") or os.path.join(VERIF, "replays")
FINDINGS_FILE = os.path.join(VERIF, "known_findings.json")
WORKERS = int(os.environ.get("VERIF_WORKERS", "0")) or min(16, os.cpu_count() or 4)


def load_property(prop_id):
    return importlib.import_module("usimdst.props.%s" % prop_id)


def case_seed(master, prop_id, index):
    h = hashlib.sha256(("%d/%s/%d" % (master, prop_id, index)).encode()).digest()
    return int.from_bytes(h[:8], "big")


def digest(items):
    return hashlib.sha256(repr(items).encode()).hexdigest()[:20]


# ---- one case ---------------------------------------------------------------------------
class Outcome:
    """Result of running one case through a property's oracle."""
    __slots__ = ("violations", "stats", "signature", "nontrivial", "sim_time", "ticks",
                 "digest", "info")


def run_one(P, case):
    from .world import execute, cleanup
    record = execute(case, setup=getattr(P, "setup", None))
    out = Outcome()
    try:
        out.violations = P.check(record)
        out.info = P.observe(record) if hasattr(P, "observe") else {}
        out.stats = out.info.get("stats", {})
        out.signature = out.info.get("signature")
        out.nontrivial = out.info.get("nontrivial", True)
        out.sim_time = record.end_time - record.start_time \
            if record.end_time != float("inf") else 0.0
        out.ticks = record.ticks
        out.digest = digest(record.digest_items())
    finally:
        cleanup(record)
    return out


def explore_case(P, case, rng, tier, agg):
    """Run a generated case and, for sweep properties, all its fault variants."""
    runner = getattr(P, "run_case", None)
    found = []

    def one(c):
        out = runner(c) if runner else run_one(P, c)
        agg.add(c, out)
        if out.violations and not found:
            found.append((c, out.violations[0]))
        return out

    base = one(case)
    if not found and hasattr(P, "explore"):
        P.explore(case, base, rng, tier, one)
    return found


class Aggregate:
    def __init__(self):
        self.runs = 0
        self.cases = 0
        self.nontrivial = 0
        self.sim_time = 0.0
        self.ticks = 0
        self.stats = Counter()
        self.signatures = set()
        self.nt_signatures = set()
        self.states = set()
        self.samples = []

    def add(self, case, out):
        self.runs += 1
        self.sim_time += out.sim_time
        self.ticks += out.ticks
        for key, value in out.stats.items():
            self.stats[key] += value
        if out.signature is not None:
            sig = hash(out.signature) & 0xFFFFFFFFFFFF
            self.signatures.add(sig)
            if out.nontrivial:
                self.nt_signatures.add(sig)
        for state in out.info.get("states", ()):
            self.states.add(state)
        if len(self.samples) < 2 and out.nontrivial and (case.get("plan") or self.runs == 1):
            self.samples.append({"case": case, "digest": out.digest,
                                 "signature": repr(out.signature)[:200]})

    def payload(self):
        return {"runs": self.runs, "cases": self.cases, "sim_time": self.sim_time,
                "ticks": self.ticks, "stats": dict(self.stats),
                "signatures": self.signatures, "nt_signatures": self.nt_signatures,
                "states": self.states,
                "samples": self.samples}


def _work(args):
    prop_id, master, tier, indices, deadline, hang_s = args
    faulthandler.dump_traceback_later(hang_s, exit=True)
    try:
        P = load_property(prop_id)
        agg = Aggregate()
        found = []
        for index in indices:
            if wallclock.monotonic() > deadline:
                break
            rng = random.Random(case_seed(master, prop_id, index))
            if hasattr(P, "generate_indexed"):
                case = P.generate_indexed(index, rng, tier)
            else:
                case = P.generate(rng, tier)
            case["index"] = index
            agg.cases += 1
            hits = explore_case(P, case, rng, tier, agg)
            for c, violation in hits[:1]:
                found.append((index, c, violation))
            if len(found) >= 3:
                break
        payload = agg.payload()
        payload["found"] = found
        return payload
    finally:
        faulthandler.cancel_dump_traceback_later()


def _init_worker():
    gc.disable()
    gc.freeze()


# ---- shrinking --------------------------------------------------------------------------
def _still_fails(P, case, rule):
    try:
        runner = getattr(P, "run_case", None)
        out = runner(case) if runner else run_one(P, case)
    except Exception:
        return None
    for violation in out.violations:
        if violation["rule"] == rule:
            return violation
    return None


def shrink(P, case, violation, max_runs=1500, max_wall=45.0):
    from .shrink import candidates
    rule = violation["rule"]
    best, best_violation = case, violation
    runs = 0
    start = wallclock.monotonic()
    improved = True
    while improved and runs < max_runs and wallclock.monotonic() - start < max_wall:
        improved = False
        for cand in candidates(best):
            runs += 1
            if runs >= max_runs or wallclock.monotonic() - start > max_wall:
                break
            if hasattr(P, "valid") and not P.valid(cand):
                continue
            hit = _still_fails(P, cand, rule)
            if hit is not None:
                best, best_violation = cand, hit
                improved = True
                break
    return best, best_violation, runs


# ---- known findings ---------------------------------------------------------------------
def load_findings(prop_id):
    try:
        with open(FINDINGS_FILE) as stream:
            data = json.load(stream)
    except FileNotFoundError:
        return []
    return [f for f in data.get("findings", []) if f["property"] == prop_id]


def match_finding(findings, violation):
    for finding in findings:
        if finding.get("status") != "known":
            continue
        rules = finding.get("rules") or [finding["rule"]]
        if violation["rule"] in rules and \
                finding.get("key", "") in violation.get("key", violation["msg"]):
            return finding
    return None


# ---- replay -----------------------------------------------------------------------------
def write_replay(prop_id, case, violation, seed, extra=None):
    os.makedirs(REPLAY_DIR, exist_ok=True)
    path = os.path.join(REPLAY_DIR, "%s-%d-%s.json" % (
        prop_id, seed, case.get("index", "x")))
    doc = {"property": prop_id, "seed": seed, "case": case,
           "expect": {"rule": violation["rule"], "msg": violation["msg"]}}
    if sys.flags.optimize:
        doc["opt"] = True
    if extra:
        doc.update(extra)
    with open(path, "w") as stream:
        json.dump(doc, stream, indent=1, sort_keys=True)
    return path


def replay(prop_id, path, quiet=False):
    P = load_property(prop_id)
    with open(path) as stream:
        doc = json.load(stream)
    if doc.get("opt") and not sys.flags.optimize and not os.environ.get("VERIF_REEXEC"):
        # found under `python -O`: replayed under `python -O`
        env = dict(os.environ, VERIF_REEXEC="1")
        cmd = [sys.executable, "-O", "-m", "usimdst.cli", prop_id, "--replay", path] + \
            (["--quiet"] if quiet else [])
        return subprocess.run(cmd, cwd=VERIF, env=env).returncode
    wanted = doc.get("hashseed")
    if wanted is not None and os.environ.get("PYTHONHASHSEED") != wanted \
            and not os.environ.get("VERIF_REEXEC"):
        # a layout-dependent violation (C02) is replayed in the interpreter configuration in
        # which it was confirmed
        env = dict(os.environ, PYTHONHASHSEED=wanted, VERIF_REEXEC="1")
        cmd = [sys.executable, "-m", "usimdst.cli", prop_id, "--replay", path] + \
            (["--quiet"] if quiet else [])
        return subprocess.run(cmd, cwd=VERIF, env=env).returncode
    case = doc["case"]
    runner = getattr(P, "run_case", None)
    if not quiet and runner is None:
        from .world import execute, cleanup
        record = execute(case, setup=getattr(P, "setup", None))
        print(json.dumps(case, sort_keys=True))
        for event in record.trace:
            print("  ", event)
        print("   outcome:", record.outcome, "fired:", record.fired)
        cleanup(record)
    out = runner(case) if runner else run_one(P, case)
    expect = doc.get("expect", {})
    hits = [v for v in out.violations if v["rule"] == expect.get("rule")] or out.violations
    if not quiet and hasattr(P, "describe"):
        print(P.describe(case))
    if hits:
        print("REPLAY %s rule=%s msg=%s digest=%s" % (
            prop_id, hits[0]["rule"], hits[0]["msg"], out.digest))
        print("VIOLATION property=%s replay=%s" % (prop_id, path))
        return 1
    print("REPLAY %s: no violation (digest=%s)" % (prop_id, out.digest))
    return 0


def confirm_fresh(prop_id, path, hashseed="4242"):
    """Re-run a replay file in a fresh interpreter with another hash seed."""
    env = dict(os.environ, PYTHONHASHSEED=hashseed, USIM_REPO=REPO, VERIF_REEXEC="1")
    cmd = [sys.executable] + (["-O"] if sys.flags.optimize else []) + \
        ["-m", "usimdst.cli", prop_id, "--replay", path, "--quiet"]
    try:
        proc = subprocess.run(cmd, cwd=VERIF, env=env, capture_output=True, text=True,
                              timeout=120)
    except subprocess.TimeoutExpired:
        return None, "timeout"
    lines = [l for l in proc.stdout.splitlines() if l.startswith("REPLAY")]
    return proc.returncode, (lines[0] if lines else proc.stdout[-300:] + proc.stderr[-300:])


# ---- main drive ---------------------------------------------------------------------------
def drive(prop_id, tier, seed):
    gc.disable()                 # the parent runs cases too (shrinking, probes)
    P = load_property(prop_id)
    budget = P.BUDGET[tier]
    n_cases = int(budget["cases"] * float(os.environ.get("VERIF_SCALE", "1")))
    wall_cap = budget["wall_s"]
    started = wallclock.monotonic()
    deadline = started + wall_cap
    workers = WORKERS
    chunk = max(1, min(budget.get("chunk", 50), n_cases // (workers * 4) or 1))
    jobs = [(prop_id, seed, tier, list(range(lo, min(lo + chunk, n_cases))), deadline,
             int(wall_cap + 120))
            for lo in range(0, n_cases, chunk)]
    total = Aggregate()
    signatures, nt_signatures, states = set(), set(), set()
    found = []
    samples = []
    harness_error = None
    ctx = multiprocessing.get_context("fork")
    with ProcessPoolExecutor(max_workers=workers, mp_context=ctx,
                             initializer=_init_worker) as pool:
        futures = [pool.submit(_work, job) for job in jobs]
        for future in futures:
            try:
                payload = future.result(timeout=wall_cap + 180)
            except Exception as err:      # dead worker, watchdog exit, pickling problem
                harness_error = "%s: %s" % (type(err).__name__, err)
                break
            total.runs += payload["runs"]
            total.cases += payload["cases"]
            total.sim_time += payload["sim_time"]
            total.ticks += payload["ticks"]
            total.stats.update(payload["stats"])
            signatures |= payload["signatures"]
            nt_signatures |= payload["nt_signatures"]
            states |= payload["states"]
            if len(samples) < 3:
                samples.extend(payload["samples"][:1])
            found.extend(payload["found"])
        if harness_error:
            for future in futures:
                future.cancel()
    if harness_error:
        print("HARNESS-ERROR %s %s" % (prop_id, harness_error))
        return 2
    wall = wallclock.monotonic() - started

    # violations: known findings, shrinking, replay confirmation
    findings = load_findings(prop_id)
    exit_code = 0
    reported = 0
    known_hit = Counter()
    found.sort(key=lambda item: item[0])
    new = []
    for index, case, violation in found:
        finding = match_finding(findings, violation)
        if finding is not None:
            known_hit[finding["id"]] += 1
        else:
            new.append((index, case, violation))
    seen_rules = set()
    replays = []
    # A property about repeatability itself (C02) may be broken in a way that depends on the
    # memory layout of the process: such a divergence need not show for every program in every
    # fresh interpreter.  There, further found violations and further interpreter configurations
    # are tried; VIOLATION is still printed only for one that did reproduce in a fresh process.
    layout = getattr(P, "LAYOUT_DEPENDENT", False)
    unconfirmed = []
    tried = 0
    for index, case, violation in new:
        if reported >= 3 or tried >= (8 if layout else 3):
            continue
        if violation["rule"] in seen_rules and not (layout and not reported):
            continue
        tried += 1
        seen_rules.add(violation["rule"])
        if hasattr(P, "reduce"):
            reduced = P.reduce(case, violation)
            hit = _still_fails(P, reduced, violation["rule"])
            if hit is not None:
                case, violation = reduced, hit
        if getattr(P, "NO_SHRINK", False) or "batch" in case:
            small, small_violation, shrink_runs = case, violation, 0
        else:
            small, small_violation, shrink_runs = shrink(P, case, violation)
        path = write_replay(prop_id, small, small_violation, seed,
                            {"shrink_runs": shrink_runs, "original_case": case})
        code, line = confirm_fresh(prop_id, path)
        if code != 1 and layout:
            for hashseed in ("0", "1", "7"):
                code, line = confirm_fresh(prop_id, path, hashseed)
                if code == 1:
                    write_replay(prop_id, small, small_violation, seed,
                                 {"shrink_runs": shrink_runs, "original_case": case,
                                  "hashseed": hashseed})
                    break
        if code == 1:
            print("VIOLATION property=%s replay=%s" % (prop_id, path))
            print("  rule=%s %s" % (small_violation["rule"], small_violation["msg"]))
            exit_code = 1
            reported += 1
            replays.append(path)
        else:
            unconfirmed.append("HARNESS-ERROR nondeterministic %s: violation %s did not reproduce "
                               "in a fresh interpreter (%s); replay kept at %s"
                               % (prop_id, violation["rule"], line, path))
    for line in unconfirmed:
        if layout and reported:
            print("NOTE: a further divergence did not reproduce in a fresh interpreter (layout-"
                  "dependent): " + line.split("replay kept at ")[-1])
        else:
            print(line)
            if exit_code == 0:
                exit_code = 2
    # targeted probes for known findings: each listed finding is re-demonstrated
    for finding in findings:
        if finding.get("status") != "known":
            continue
        shown = known_hit.get(finding["id"], 0)
        probe = getattr(P, "probe_finding", None)
        if not shown and probe is not None:
            shown = 1 if probe(finding) else 0
        if shown:
            print("KNOWN-FINDING: property=%s %s [%s]" % (
                prop_id, finding["description"], finding["id"]))
        else:
            print("NOTE: listed finding %s did not show in this run" % finding["id"])

    # a share of the budget runs the same check (generator, simulation, oracle) under `python -O`:
    # assertion mode is one of the configurations the properties quantify over
    opt_share = getattr(P, "OPT_SHARE", 0.1)
    if opt_share and not sys.flags.optimize and not os.environ.get("VERIF_OPT_CHILD"):
        code, lines, counts = run_opt_child(prop_id, tier, seed, opt_share, wall_cap)
        for line in lines:
            print(line)
        total.stats["probe.python-O.cases"] = counts[0]
        total.stats["probe.python-O.runs"] = counts[1]
        total.runs += counts[1]
        total.cases += counts[0]
        if code == 1:
            exit_code = 1
            opt_replays = [line.split("replay=")[-1] for line in lines
                           if line.startswith("VIOLATION")]
            replays.extend(opt_replays)
            new.extend((None, None, None) for _ in opt_replays)
        elif code != 0 and exit_code == 0:
            print("HARNESS-ERROR %s: the run under python -O ended with status %r" % (prop_id, code))
            exit_code = 2
        wall = wallclock.monotonic() - started
    total.nontrivial = len(nt_signatures)
    write_evidence(P, prop_id, tier, seed, total, signatures, states, samples, wall,
                   violations=len(new), known=dict(known_hit), replays=replays)
    print("%s %s: %d cases, %d runs, %d distinct schedules, %d states, %.1fs, "
          "violations=%d known=%d" % (
              prop_id, tier, total.cases, total.runs, len(signatures), len(states), wall,
              len(new), sum(known_hit.values())))
    return exit_code


def run_opt_child(prop_id, tier, seed, share, wall_cap):
    """Run `share` of this tier's budget in a `python -O` interpreter (own workers, own seed)."""
    import re
    import shutil
    import tempfile
    scratch = tempfile.mkdtemp(prefix="verif-opt.", dir="/tmp")
    scale = float(os.environ.get("VERIF_SCALE", "1")) * share
    env = dict(os.environ, VERIF_OPT_CHILD="1", VERIF_SCALE=repr(scale), USIM_REPO=REPO,
               VERIF_EVIDENCE_DIR=scratch, VERIF_REPLAY_DIR=REPLAY_DIR)
    cmd = [sys.executable, "-O", "-u", "-m", "usimdst.cli", prop_id, "--tier", tier,
           "--seed", str(seed + 7919)]
    try:
        proc = subprocess.run(cmd, cwd=VERIF, env=env, capture_output=True, text=True,
                              timeout=wall_cap + 300)
        code, output = proc.returncode, proc.stdout
        if code not in (0, 1):
            output += "\n" + proc.stderr[-600:]
    except subprocess.TimeoutExpired:
        code, output = "timeout", ""
    finally:
        shutil.rmtree(scratch, ignore_errors=True)
    lines, counts = [], (0, 0)
    for line in output.splitlines():
        if line.startswith(("VIOLATION", "  rule=", "HARNESS-ERROR")):
            lines.append(line + ("   [under python -O]" if line.startswith("  rule=") else ""))
        match = re.match(r"\w+ \w+: (\d+) cases, (\d+) runs", line)
        if match:
            counts = (int(match.group(1)), int(match.group(2)))
    if code not in (0, 1):
        lines.extend(output.splitlines()[-6:])
    return code, lines, counts


def write_evidence(P, prop_id, tier, seed, total, signatures, states, samples, wall,
                   violations=0, known=None, replays=(), extra=None):
    os.makedirs(EVIDENCE_DIR, exist_ok=True)
    stats = dict(total.stats)
    faults = {key[len("fault."):]: value for key, value in stats.items()
              if key.startswith("fault.")}
    probes = {key[len("probe."):]: value for key, value in stats.items()
              if key.startswith("probe.")}
    coverage = {
        "evaluations": total.runs,
        "distinct_nontrivial": total.nontrivial,
        "rule": P.RULE,
        "samples": samples[:3] or [{"note": "no sample recorded"}],
        "generated_cases": total.cases,
        "distinct_schedule_signatures": len(signatures),
        "distinct_abstract_states": len(states),
        "simulated_time_covered": round(total.sim_time, 3),
        "kernel_events": total.ticks,
        "runs_per_hour": int(total.runs / wall * 3600) if wall > 0 else 0,
        "faults": faults,
        "probes": probes,
        "other_counters": {k: v for k, v in stats.items()
                           if not k.startswith(("fault.", "probe."))},
        "real_code": "all of usim (kernel, primitives, usim.py) runs unmodified from /repo",
        "stubs": getattr(P, "STUBS", "none"),
        "exhaustive": False,
    }
    if extra:
        coverage.update(extra)
    doc = {
        "property_id": prop_id,
        "tier": tier,
        "seed": seed,
        "level": P.LEVEL,
        "coverage": coverage,
        "assumptions": list(getattr(P, "ASSUMPTIONS", ())) + [
            "CPython %s; usim imported from %s" % (sys.version.split()[0], REPO),
            "programs are those of the scenario language (DESIGN.md 2.2)",
        ],
        "wall_s": round(wall, 2),
        "violations": violations,
        "known_findings_seen": known or {},
        "replays": list(replays),
    }
    path = os.path.join(EVIDENCE_DIR, "%s.json" % prop_id)
    with open(path + ".tmp", "w") as stream:
        json.dump(doc, stream, indent=1, sort_keys=True, default=repr)
    os.replace(path + ".tmp", path)
