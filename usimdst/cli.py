"""./check <Cxx> [--tier quick|thorough] [--replay file] [--seed n]"""
import os
import sys
import argparse


def main(argv=None):
    parser = argparse.ArgumentParser(prog="check")
    parser.add_argument("property")
    parser.add_argument("--tier", default=os.environ.get("VERIF_TIER", "quick"))
    parser.add_argument("--seed", type=int, default=None)
    parser.add_argument("--replay")
    parser.add_argument("--quiet", action="store_true")
    parser.add_argument("--batch")
    args = parser.parse_args(argv)
    seed = args.seed if args.seed is not None else int(os.environ.get("VERIF_SEED", "1"))
    from usimdst import runner
    if args.batch:
        import json
        import gc
        gc.disable()
        from usimdst.props import C02
        with open(args.batch) as stream:
            batch = json.load(stream)
        print("DIGESTS " + json.dumps(C02.batch_digests(batch)))
        return 0
    try:
        if args.replay:
            return runner.replay(args.property, args.replay, quiet=args.quiet)
        return runner.drive(args.property, args.tier, seed)
    except ModuleNotFoundError as err:
        print("HARNESS-ERROR %s" % err)
        return 2


if __name__ == "__main__":
    sys.exit(main())
