"""./check <Cxx> [--tier quick|thorough] [--replay file] [--seed n]"""
import os
import sys
import argparse


def main(argv=None):
    parser = argparse.ArgumentParser(prog="check")
    parser.add_argument("property")
    parser.add_argument("--tier", default=os.environ.get("VERIF_TIER", "quick"))
    parser.add_argument("--seed", type=int, default=None)
    parser.add_argument("--replay")
    parser.add_argument("--quiet", action="store_true")
    parser.add_argument("--batch")
    parser.add_argument("--digests", type=int, help="print trace digests of the first N cases")
    args = parser.parse_args(argv)
    seed = args.seed if args.seed is not None else int(os.environ.get("VERIF_SEED", "1"))
    from usimdst import runner
    if args.batch:
        import json
        import gc
        gc.disable()
        from usimdst.props import C02
        with open(args.batch) as stream:
            batch = json.load(stream)
        print("DIGESTS " + json.dumps(C02.batch_digests(batch)))
        return 0
    if args.digests:
        import json
        import gc
        import random
        gc.disable()
        from usimdst import runner
        P = runner.load_property(args.property)
        out = []
        for index in range(args.digests):
            rng = random.Random(runner.case_seed(seed, args.property, index))
            if hasattr(P, "generate_indexed"):
                case = P.generate_indexed(index, rng, args.tier)
            else:
                case = P.generate(rng, args.tier)
            if "batch" in case:
                case["subproc"] = []
            run = getattr(P, "run_case", None)
            result = run(case) if run else runner.run_one(P, case)
            out.append(result.digest)
        print("DIGESTS " + json.dumps(out))
        return 0
    try:
        if args.replay:
            return runner.replay(args.property, args.replay, quiet=args.quiet)
        return runner.drive(args.property, args.tier, seed)
    except ModuleNotFoundError as err:
        print("HARNESS-ERROR %s" % err)
        return 2


if __name__ == "__main__":
    sys.exit(main())
