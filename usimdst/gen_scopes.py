"""Generator for the `scopes` workload family: trees of Scope/until blocks with children."""

DELAYS = [0.25, 0.5, 1, 1.5, 2, 3]
ERR_TYPES = ["E", "E", "A", "B", "K", "Z"]
PRIV_TYPES = ["assert", "exit", "kbd", "assert_sub", "assert_z", "exit_sub", "kbd_sub"]


class Gen:
    def __init__(self, rng, fail_rate=0.15, priv_rate=0.15, until_rate=0.3, max_depth=2,
                 cancel_rate=0.1, convert_rate=0.0, payload_rate=0.15):
        self.rng = rng
        self.convert_rate = convert_rate
        self.payload_rate = payload_rate
        self.fail_rate = fail_rate
        self.priv_rate = priv_rate
        self.until_rate = until_rate
        self.max_depth = max_depth
        self.cancel_rate = cancel_rate
        self.counter = 0
        self.flags = {}
        self.setters = []
        self.scopes = []      # (label, depth)
        self.actors = []      # all actor names in the tree

    def fresh(self, prefix):
        self.counter += 1
        return "%s%d" % (prefix, self.counter)

    def gap(self, ops, p=0.6):
        rng = self.rng
        r = rng.random()
        if r < 0.25:
            ops.append({"op": "postpone", "k": rng.randint(1, 2)})
        elif r < p:
            ops.append({"op": "sleep", "d": rng.choice(DELAYS)})

    def maybe_raise(self, ops, scale=1.0):
        rng = self.rng
        if rng.random() < self.fail_rate * scale:
            kind = rng.choice(PRIV_TYPES) if rng.random() < self.priv_rate \
                else rng.choice(ERR_TYPES)
            ops.append({"op": "raise", "type": kind})
            return True
        return False

    def notification(self, label):
        rng = self.rng
        r = rng.random()
        if r < 0.4:
            return {"k": "delay", "d": rng.choice(DELAYS)}
        if r < 0.6:
            return {"k": "time", "op": ">=", "t": rng.choice([0.5, 1, 2, 3, 4])}
        if r < 0.7:
            return {"k": "time", "op": "==", "t": rng.choice([0.5, 1, 2, 3, 4])}
        flag = "F" + label
        self.flags[flag] = {"kind": "flag"}
        self.setters.append({"name": "set" + label, "ops": [
            {"op": "sleep", "d": rng.choice(DELAYS)}, {"op": "flag_set", "on": flag}]})
        return {"k": "flag", "n": flag}

    def late_child(self, into=None, generation=1):
        """A child started while its scope is already running (or shutting down). With `into`
        given it may itself start a further one - delayed, or volatile - into the same scope:
        "children spawned during shutdown are waited for as well" holds for every generation."""
        rng = self.rng
        name = self.fresh("l")
        self.actors.append(name)
        ops = []
        self.gap(ops, 0.8)
        ops.append({"op": "now", "tag": "late"})
        if into is not None and generation < 3 and rng.random() < 0.3:
            ops.append({"op": "spawn", "into": into,
                        "actor": self.late_child(into, generation + 1)})
            if rng.random() < 0.5:
                self.gap(ops, 0.8)
        spec = {"name": name, "ops": ops}
        if into is not None and rng.random() < 0.15:
            spec["volatile"] = True
            ops.append({"op": "eternity"})
        else:
            self.maybe_raise(ops, 0.5)
        if into is not None and rng.random() < 0.2:
            spec["after"] = rng.choice(DELAYS)
        return spec

    def payload_child(self, volatile):
        """A child whose payload is a notification (`scope.do(time + 20)`, `scope.do(eternity,
        volatile=True)`), optionally with a start delay: no code of the program runs in it, its
        status and the scope's exit time are what can be observed."""
        rng = self.rng
        name = self.fresh("n")
        r = rng.random()
        if volatile and r < 0.5:
            payload = {"k": "eternity"}
        elif r < 0.6:
            payload = {"k": "delay", "d": rng.choice(DELAYS + [40])}
        elif r < 0.8:
            payload = {"k": "time", "op": ">=", "t": rng.choice([0.5, 1, 2, 3, 40])}
        elif r < 0.9:
            payload = {"k": "time", "op": ">=", "t": 64}
        else:
            payload = {"k": "instant"}
        spec = {"name": name, "payload": payload, "ops": []}
        if volatile:
            spec["volatile"] = True
        if rng.random() < 0.3:
            spec["after"] = rng.choice(DELAYS)
        return spec

    def child_ops(self, depth, parent_label, volatile):
        rng = self.rng
        ops = []
        for _ in range(rng.randint(1, 3)):
            r = rng.random()
            if r < 0.35:
                self.gap(ops, 1.0)
            elif r < 0.45:
                ops.append({"op": "now"})
            elif r < 0.6 and depth < self.max_depth:
                scope = self.scope(depth + 1)
                if rng.random() < 0.4:
                    ops.append({"op": "try", "all": rng.random() < 0.5, "body": [scope]})
                else:
                    ops.append(scope)
            elif r < 0.72:
                ops.append({"op": "await_scope", "scope": parent_label})
                if rng.random() < 0.5:
                    self.gap(ops, 0.9)
                if rng.random() < 0.4:
                    ops.append({"op": "spawn", "into": parent_label,
                                "actor": self.late_child(parent_label)})
                ops.append({"op": "now", "tag": "graceful"})
            elif r < 0.82:
                late = self.late_child(parent_label)
                ops.append({"op": "spawn", "into": parent_label, "actor": late})
                if rng.random() < 0.3:
                    # ... and cancels it in the same turn, before it has started
                    ops.append({"op": "cancel", "task": late["name"], "token": ["unborn"]})
            else:
                if self.maybe_raise(ops, 2.0):
                    return ops
        if volatile and rng.random() < 0.6:
            ops.append({"op": "eternity"})
        else:
            self.maybe_raise(ops)
        if self.convert_rate and rng.random() < self.convert_rate:
            # clean-up that raises: a cancellation, an interrupt or a forceful close of this child
            # is answered with an exception of the program (a failure made *during* teardown)
            ops = [{"op": "finally", "body": ops, "handler": [], "sync": [],
                    "convert": {"op": "raise", "type": rng.choice(ERR_TYPES)}}]
        elif rng.random() < 0.15:
            # cleanup handler: spawns a sibling into the (possibly closing) parent scope
            handler = [{"op": "sleep", "d": rng.choice(DELAYS)}] if rng.random() < 0.4 else []
            ops = [{"op": "finally", "body": ops, "handler": handler,
                    "sync": [{"op": "spawn", "into": parent_label, "actor": self.late_child()}]}]
        return ops

    def scope(self, depth):
        rng = self.rng
        label = self.fresh("S")
        self.scopes.append((label, depth))
        op = {"op": "scope", "label": label}
        if rng.random() < self.until_rate:
            op["until"] = self.notification(label)
        children = []
        names = []
        for _ in range(rng.choice([0, 1, 1, 2, 2, 3])):
            name = self.fresh("c")
            self.actors.append(name)
            names.append(name)
            volatile = rng.random() < 0.25
            child = {"name": name, "ops": self.child_ops(depth, label, volatile)}
            if volatile:
                child["volatile"] = True
            if rng.random() < 0.2:
                child["after"] = rng.choice(DELAYS)
            elif rng.random() < 0.05:
                child["after"] = rng.choice([40, 64])   # long start delays (absolute dates could lie in the past)
            if names[:-1] and rng.random() < 0.12:
                # waits for an earlier sibling and does not handle what it gets
                child["ops"].insert(rng.randint(0, len(child["ops"])), {
                    "op": "await_task", "task": rng.choice(names[:-1]), "reraise": True})
            children.append(child)
        if rng.random() < self.payload_rate:
            children.insert(rng.randint(0, len(children)), self.payload_child(rng.random() < 0.4))
        op["children"] = children
        body = []
        for _ in range(rng.randint(0, 3)):
            r = rng.random()
            if r < 0.4:
                self.gap(body, 1.0)
            elif r < 0.5:
                body.append({"op": "now"})
            elif r < 0.6:
                body.append({"op": "spawn", "into": label, "actor": self.late_child()})
            elif r < 0.6 + self.cancel_rate and names:
                body.append({"op": "cancel", "task": rng.choice(names), "token": ["prog"]})
            elif r < 0.8 and names:
                body.append({"op": "await_task", "task": rng.choice(names),
                             "reraise": rng.random() < 0.5})
            elif r < 0.88 and depth < self.max_depth:
                body.append(self.scope(depth + 1))
            else:
                if self.maybe_raise(body, 1.5):
                    break
        if self.convert_rate and body and rng.random() < self.convert_rate:
            # the body answers whatever aborts it (its own scope's cancel signal included) with an
            # exception of its own: the block must end with exactly that exception
            body = [{"op": "try", "body": body, "handler": [],
                     "convert": {"op": "raise", "type": rng.choice(ERR_TYPES)}}]
        op["body"] = body
        return op

    def program(self):
        rng = self.rng
        top = self.scope(0)
        label = top["label"]
        own = []
        if rng.random() < 0.3:
            self.gap(own, 1.0)
        own.append({"op": "try", "all": True, "body": [top]})
        own.append({"op": "now", "tag": "after"})
        own.append({"op": "sleep", "d": 1})
        own.append({"op": "spawn", "into": label, "actor": self.late_child()})
        own.append({"op": "now", "tag": "final"})
        actors = [{"name": "own", "ops": own}]
        self.actors.append("own")
        if rng.random() < 0.4:
            ops = [{"op": "sleep", "d": rng.choice(DELAYS)},
                   {"op": "spawn", "into": label, "actor": self.late_child()}]
            actors.append({"name": "outsider", "ops": ops})
        if rng.random() < 0.4:
            # an activity outside the scope waits for its end (`await scope`)
            actors.append({"name": "watcher", "ops": [
                {"op": "postpone", "k": rng.randint(1, 3)},
                {"op": "await_scope", "scope": label}, {"op": "now", "tag": "scope-ended"}]})
        actors.extend(self.setters)
        return {"resources": dict(self.flags), "actors": actors}, label


def structure(rec):
    """Scope tree reconstructed from the log: owners, children, volatility, descendants."""
    owner, children, volatile, parent_scope = {}, {}, set(), {}
    for ev in rec.trace:
        if ev[4] == "scope+":
            owner[ev[5]] = ev[3]
        elif ev[4] == "spawn" and ev[6] is not None:
            children.setdefault(ev[6], []).append(ev[5])
            parent_scope[ev[5]] = ev[6]
            if ev[7]:
                volatile.add(ev[5])
    scopes_of = {}
    for label, actor in owner.items():
        scopes_of.setdefault(actor, []).append(label)

    def descendants(label, seen=None):
        seen = set() if seen is None else seen
        for child in children.get(label, ()):
            if child not in seen:
                seen.add(child)
                for sub in scopes_of.get(child, ()):
                    descendants(sub, seen)
                if ("cage:" + child) in children:      # never: cages are spawned, not spawning
                    pass
        return seen

    # cage tasks own a pseudo scope "cage:<name>" holding the caged actor
    for label in list(children):
        if label.startswith("cage:"):
            scopes_of.setdefault(label, []).append(label)
    return owner, children, volatile, descendants
