"""Delta debugging over case JSON: drop faults, actors, ops; unwrap blocks; shrink numbers."""
import copy

BLOCK_KEYS = ("body", "handler", "ops")
LIST_OF_ACTOR_KEYS = ("children", "acts", "actors")
NUM_KEYS = ("d", "k", "after", "total", "n", "count")


def _op_lists(node, out):
    """Collect every list of ops / actors reachable from node (in place references)."""
    if isinstance(node, dict):
        for key, value in node.items():
            if key in BLOCK_KEYS and isinstance(value, list):
                out.append(("ops", value))
            if key in LIST_OF_ACTOR_KEYS and isinstance(value, list):
                out.append(("actors", value))
            if key == "bodies" and isinstance(value, list):
                out.append(("bodies", value))
            _op_lists(value, out)
    elif isinstance(node, list):
        for item in node:
            _op_lists(item, out)


def candidates(case):
    # 1. drop faults
    plan = case.get("plan") or []
    for i in range(len(plan)):
        cand = copy.deepcopy(case)
        del cand["plan"][i]
        yield cand
    # 2. drop config perturbations
    if case.get("config"):
        cand = copy.deepcopy(case)
        cand["config"] = {}
        yield cand
    # 3. drop actors / ops, unwrap blocks
    probe = copy.deepcopy(case)
    lists = []
    _op_lists(probe["scenario"], lists)
    for li, (kind, lst) in enumerate(lists):
        for i in range(len(lst)):
            cand = copy.deepcopy(case)
            cl = []
            _op_lists(cand["scenario"], cl)
            target = cl[li][1]
            removed = target[i]
            del target[i]
            yield cand
            if kind == "ops" and isinstance(removed, dict):
                for key in ("body",):
                    inner = removed.get(key)
                    if isinstance(inner, list) and inner:
                        cand2 = copy.deepcopy(case)
                        cl2 = []
                        _op_lists(cand2["scenario"], cl2)
                        t2 = cl2[li][1]
                        t2[i:i + 1] = copy.deepcopy(inner)
                        yield cand2
    # 4. move faults earlier is not tried (tick numbers are scenario specific)
    # 5. shrink numbers
    def numbers(node, path, out):
        if isinstance(node, dict):
            for key, value in node.items():
                if key in NUM_KEYS and isinstance(value, (int, float)) \
                        and not isinstance(value, bool) and value not in (0, 1):
                    out.append(path + [key])
                numbers(value, path + [key], out)
        elif isinstance(node, list):
            for i, item in enumerate(node):
                numbers(item, path + [i], out)

    paths = []
    numbers(case["scenario"], [], paths)
    for path in paths:
        cand = copy.deepcopy(case)
        node = cand["scenario"]
        for key in path[:-1]:
            node = node[key]
        node[path[-1]] = 1
        yield cand
    # 6. drop unused resources
    resources = case["scenario"].get("resources") or {}
    text = repr({k: v for k, v in case["scenario"].items() if k != "resources"})
    for name in list(resources):
        if repr(name) not in text:
            cand = copy.deepcopy(case)
            del cand["scenario"]["resources"][name]
            yield cand
