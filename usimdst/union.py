"""The `union` workload: programs from every family, with seeded faults - used by C02 and C03."""
import importlib
import math

from .faults import CAGE_OF, fault_for, iter_actors

WORLD_FAMILIES = ["C01", "C04", "C05", "C06", "C07", "C08", "C09", "C10", "C11", "C12", "C13",
                  "C14", "C16", "C20"]
SIM_FAMILIES = ["C19"]


def _module(name):
    return importlib.import_module("usimdst.props.%s" % name)


def generate(rng, faults=True, families=None):
    family = rng.choice(families or (WORLD_FAMILIES + SIM_FAMILIES + ["C18", "mixed"]))
    if family == "mixed":
        from . import mixed
        case = mixed.generate(rng, "mixed")
        case = {"family": family, "scenario": case["scenario"], "plan": [], "config": {},
                "engine": "world"}
        if faults:
            add_faults(case, rng)
        return case
    try:
        module = _module(family)
    except ModuleNotFoundError:
        family = rng.choice(WORLD_FAMILIES)
        module = _module(family)
    if family == "C20":
        case = module.build(rng.randrange(10 ** 6), rng)
    else:
        case = module.generate(rng, "quick")
    case = {"family": family, "scenario": case["scenario"], "plan": list(case.get("plan") or ()),
            "config": {}, "engine": "sim" if family in ("C19", "C18") else "world"}
    if faults and case["engine"] == "world" and family not in ("C15",):
        add_faults(case, rng)
    return case


def fault_tick(rng, short=90):
    """Kernel event at which a fault of a random plan strikes. Programs of the union have from a
    dozen to a few thousand kernel events (41 % have more than 90, measured): half of the faults
    fall into the first `short` events - where every program still runs - and half are drawn
    log-uniformly from 1..3000, so that the late phases of long programs (drains, probers, hand-
    backs, the tail of C20 / C19 / mixed / C12 programs) are struck as often as the early ones."""
    if rng.random() < 0.5:
        return rng.randint(1, short)
    return max(1, int(math.exp(rng.uniform(0.0, math.log(3000.0)))))


def add_faults(case, rng, max_faults=3):
    actors = [spec for spec in iter_actors(case["scenario"])
              if not spec["name"].startswith(("z", "root"))]
    if not actors:
        return
    r = rng.random()
    count = 0 if r < 0.3 else 1 if r < 0.7 else 2 if r < 0.9 else max_faults
    for _ in range(count):
        spec = rng.choice(actors)
        kind = rng.choice(["cancel", "cancel", "interrupt", "close"])
        cage = CAGE_OF[kind]
        if cage and spec.get("cage") not in (None, cage):
            kind, cage = "cancel", None
        if cage:
            spec["cage"] = cage
        tick = fault_tick(rng)
        case["plan"].append(fault_for(kind, spec["name"], tick, token=("f", tick)))
        if rng.random() < 0.2:         # double: the same victim again, right away or a bit later
            second = kind
            if rng.random() < 0.5:
                # ... by a signal of another kind: a cancellation racing an until-interrupt or a
                # forceful close for the same activity
                if kind != "cancel":
                    second = "cancel"
                else:
                    other = rng.choice(["interrupt", "close"])
                    if spec.get("cage") in (None, CAGE_OF[other]):
                        spec["cage"] = CAGE_OF[other]
                        second = other
            case["plan"].append(fault_for(second, spec["name"], tick + rng.choice([0, 1, 2, 5]),
                                          token=("g", tick)))
    if rng.random() < 0.15:
        case["plan"].append({"tick": fault_tick(rng, 60), "kind": "gc"})


def execute(case, setup=None):
    if case.get("engine") == "sim":
        from . import simworld
        return simworld.execute(case, setup=setup), simworld.cleanup
    from . import world
    return world.execute(case, setup=setup), world.cleanup
