"""Fault plans: kinds, cages, and the sweep over every kernel event of a scenario.

A fault is addressed by the global event counter of the seam ("tick": one per activation start
and per Loop.schedule call).  Injection happens from the seam hook, i.e. between two
activations or right after a schedule call, using only public API (Task.cancel, Scope.do of a
one-line saboteur that sets a Flag) - exactly what another activity of a valid program could
have done at that instant.

kinds
  cancel     task.cancel(token) on the victim's task        -> CancelTask at its suspension
  interrupt  victim runs in the body of `until(kill)`; set kill -> CancelScope at its suspension
  close      victim is a child of `until(kill)`; set kill      -> GeneratorExit (forceful close)
  gc         gc.collect() at that instant
"""
import copy

CAGE_OF = {"cancel": None, "interrupt": "body", "close": "child"}


def iter_actors(node):
    """All actor specs in a scenario (top level, scope children, spawned, flow activities)."""
    if isinstance(node, dict):
        if "name" in node and "ops" in node:
            yield node
        for value in node.values():
            yield from iter_actors(value)
    elif isinstance(node, list):
        for item in node:
            yield from iter_actors(item)


def with_cage(case, victim, cage):
    cand = copy.deepcopy(case)
    for spec in iter_actors(cand["scenario"]):
        if spec["name"] == victim:
            if cage:
                spec["cage"] = cage
            else:
                spec.pop("cage", None)
    return cand


def fault_for(kind, victim, tick, token=("fault",)):
    if kind == "cancel":
        return {"tick": tick, "kind": "cancel", "victim": victim, "token": list(token)}
    if kind in ("interrupt", "close"):
        return {"tick": tick, "kind": "set_flag", "flag": "kill:" + victim,
                "victim": victim, "as": kind}
    if kind == "gc":
        return {"tick": tick, "kind": "gc"}
    raise ValueError(kind)


def sweep(case, base, rng, one, victims, kinds, per_group, extra_plan=(), pairs=0, mixed=None):
    """Run `case` with one fault at every (sampled) tick, per victim and kind.

    `one(case)` runs a case through the oracle and returns its Outcome; the sweep stops at the
    first violation.  `base` is the Outcome of the fault-free run of `case`.
    """
    for victim in victims:
        for kind in kinds:
            cage = CAGE_OF[kind]
            if cage:
                caged = with_cage(case, victim, cage)
                caged["plan"] = list(extra_plan)
                ref = one(caged)
                if ref.violations:
                    return
            else:
                caged, ref = case, base
            n_ticks = ref.ticks
            ticks = list(range(1, n_ticks + 1))
            if len(ticks) > per_group:
                ticks = sorted(rng.sample(ticks, per_group))
            for tick in ticks:
                variant = dict(caged)     # the scenario is shared: it is never mutated
                variant["plan"] = list(extra_plan) + [fault_for(kind, victim, tick)]
                out = one(variant)
                if out.violations:
                    return
    # seeded pairs of cancellations: two victims (or one victim twice) in one run
    victims = list(victims)
    for _ in range(pairs if victims and base.ticks > 1 else 0):
        first = rng.randint(1, base.ticks)
        second = min(base.ticks, first + rng.choice([0, 0, 1, 2, 3, 7, 15]))
        variant = dict(case)
        variant["plan"] = list(extra_plan) + [
            fault_for("cancel", rng.choice(victims), first, token=("pair", 1)),
            fault_for("cancel", rng.choice(victims), second, token=("pair", 2))]
        out = one(variant)
        if out.violations:
            return
    # seeded fault sequences of mixed kinds: 2-3 different victims, each with its own kind (and
    # cage), struck at independent or nearly coinciding kernel events of one run
    mixed = pairs // 2 if mixed is None else mixed
    if len(victims) < 2 or len(kinds) < 2:
        return
    done = 0
    while done < mixed:
        chosen = rng.sample(victims, min(len(victims), rng.choice([2, 2, 3])))
        how = [rng.choice(kinds) for _ in chosen]
        caged = case
        for victim, kind in zip(chosen, how):
            if CAGE_OF[kind]:
                caged = with_cage(caged, victim, CAGE_OF[kind])
        if caged is not case:
            caged["plan"] = list(extra_plan)
            ref = one(caged)
            if ref.violations:
                return
            n_ticks = ref.ticks
        else:
            n_ticks = base.ticks
        for _ in range(6):
            done += 1
            anchor = rng.randint(1, max(1, n_ticks))
            plan = list(extra_plan)
            for victim, kind in zip(chosen, how):
                if rng.random() < 0.5:
                    tick = min(n_ticks, anchor + rng.choice([0, 0, 1, 2, 3, 5, 9]))
                else:
                    tick = rng.randint(1, max(1, n_ticks))
                plan.append(fault_for(kind, victim, tick, token=("mixed", victim)))
            plan.sort(key=lambda f: f["tick"])
            variant = dict(caged)
            variant["plan"] = plan
            out = one(variant)
            if out.violations:
                return
