"""The `mixed` family: one program that uses locks, a queue, a channel and a resource supply
together, so that each of C09-C12 sees its primitive inside blocks of the others (a signal
passing through several nested `__aexit__`s, hand-offs triggered from clean-up code, ...).

Deadlock-free by construction: blocking acquisitions are nested in the fixed order
L0 < L1 < borrow from R (one borrow from R at a time per activity, amounts within the
capacity, no concurrent decrease), receiving from Q or C happens only while holding nothing,
producers never acquire anything, and Q / C are closed at t = 4096.  Every family's terminal
probe actor is present, so each property's oracle can be applied to the same run.
"""

DELAYS = [0.25, 0.5, 1, 1.5, 2]


def _gap(rng, ops, p=0.55):
    r = rng.random()
    if r < 0.25:
        ops.append({"op": "postpone", "k": rng.randint(1, 2)})
    elif r < p:
        ops.append({"op": "sleep", "d": rng.choice(DELAYS)})


class Gen:
    def __init__(self, rng, caps):
        self.rng = rng
        self.caps = caps
        self.serial = 0
        self.value = 0

    def ident(self):
        self.serial += 1
        return "b%d" % self.serial

    def message(self, base):
        self.value += 1
        return base + self.value

    def inside(self, level, depth):
        """Ops that may run while holding: `level` is the lowest rank that may still be
        acquired (0: L0, 1: L1, 2: borrow from R, 3: nothing that blocks)."""
        rng = self.rng
        ops = []
        for _ in range(rng.randint(1, 2)):
            r = rng.random()
            if r < 0.3:
                _gap(rng, ops, 1.0)
            elif r < 0.45:
                ops.append({"op": "put", "on": "Q", "v": self.message(5000)})
            elif r < 0.55:
                ops.append({"op": "put", "on": "C", "v": self.message(7000)})
            elif r < 0.65:
                ops.append({"op": "avail", "on": "L%d" % rng.randrange(2)})
            elif level <= 2 and depth < 4:
                ops.append(self.acquire(level, depth))
            else:
                _gap(rng, ops, 1.0)
        return ops

    def acquire(self, level, depth):
        rng = self.rng
        rank = rng.randint(level, 2)
        if rank < 2:
            body = self.inside(rank, depth + 1)      # re-entry of the same lock is allowed
            return {"op": "lock", "on": "L%d" % rank, "body": body}
        amounts = {key: rng.randint(1, cap) for key, cap in self.caps.items()
                   if rng.random() < 0.8} or {"a": 1}
        op = {"op": "borrow", "on": "R", "id": self.ident(), "amounts": amounts,
              "mode": "borrow" if rng.random() < 0.75 else "claim",
              "body": self.inside(3, depth + 1)}
        if rng.random() < 0.3:
            # borrow again from the share (never from R itself)
            share = "S" + op["id"]
            op["share"] = share
            inner = {key: rng.randint(1, value) for key, value in amounts.items()}
            op["body"].append({"op": "borrow", "on": "R", "nested": share, "id": self.ident(),
                               "amounts": inner, "mode": "borrow",
                               "body": self.inside(3, depth + 2)})
        return op


def generate(rng, prop_id):
    caps = {key: rng.randint(2, 5) for key in (["a"] if rng.random() < 0.6 else ["a", "b"])}
    gen = Gen(rng, caps)
    actors = []
    for i in range(rng.randint(2, 4)):
        ops = []
        _gap(rng, ops, 0.5)
        for _ in range(rng.randint(1, 3)):
            r = rng.random()
            if r < 0.5:
                ops.append(gen.acquire(0, 0))
            elif r < 0.65:
                ops.append({"op": "get", "on": rng.choice(["Q", "Q", "C"])})
            else:
                stream = rng.choice(["Q", "Q", "C"])
                body = []
                _gap(rng, body, 0.4)
                count = rng.randint(1, 2)
                if rng.random() < 0.6:
                    body.append(gen.acquire(0, 1))
                    count = 1            # a body that puts runs once: messages stay unique
                ops.append({"op": "iter", "on": stream, "body": body, "n": count})
            _gap(rng, ops, 0.4)
        actors.append({"name": "u%d" % i, "ops": ops})
    for p in range(rng.randint(1, 2)):
        ops = []
        _gap(rng, ops, 0.6)
        for j in range(rng.randint(2, 5)):
            ops.append({"op": "put", "on": rng.choice(["Q", "Q", "C"]), "v": p * 100 + j + 1})
            _gap(rng, ops, 0.6)
        actors.append({"name": "p%d" % p, "ops": ops})
    rng.shuffle(actors)
    prober = []
    for i in range(2):
        prober.append({"op": "avail", "on": "L%d" % i})
        prober.append({"op": "lock", "on": "L%d" % i, "body": [{"op": "avail", "on": "L%d" % i}]})
    prober.append({"op": "levels", "on": "R"})
    actors.append({"name": "zdrain", "after": 4096,
                   "ops": [{"op": "close", "on": "Q"}, {"op": "iter", "on": "Q"},
                           {"op": "get", "on": "Q"}]})
    actors.append({"name": "zclose", "after": 4096,
                   "ops": [{"op": "close", "on": "C"}, {"op": "iter", "on": "C"},
                           {"op": "get", "on": "C"}]})
    actors.append({"name": "zprobe", "after": 16384, "ops": prober})
    resources = {"L0": {"kind": "lock"}, "L1": {"kind": "lock"}, "Q": {"kind": "queue"},
                 "C": {"kind": "channel"}, "R": {"kind": "capacities", "levels": caps}}
    return {"property": prop_id, "family": "mixed",
            "scenario": {"resources": resources, "actors": actors},
            "plan": [], "config": {"waitq": rng.choice(["heap", "sd"])}}


def victims(case):
    return [a["name"] for a in case["scenario"]["actors"] if not a["name"].startswith("z")]
