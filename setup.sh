#!/bin/bash
# Offline setup: nothing to build. usim is imported from /repo's working tree at run time;
# the harness needs only the standard library and usim's own dependencies (already in /venv).
cd "$(dirname "$0")" || exit 2
mkdir -p evidence replays
/venv/bin/python -c "import sys; sys.path.insert(0,'/repo'); import usim, sortedcontainers, asyncstdlib; print('usim from', usim.__file__)" || exit 1
