import sys; sys.path.insert(0, '/tmp/hunt4')
import usim, random
assert usim.__file__.startswith('/tmp/hunt4')
from usim import run, time, Scope, Channel, until, instant, StreamClosed, Flag

def trial(seed):
    rnd = random.Random(seed)
    ch = Channel()
    put_log = []
    cons = {}
    nprod, ncons = rnd.randint(1, 3), rnd.randint(1, 4)

    async def turns(n):
        for _ in range(n): await instant

    async def producer(pid):
        for _ in range(rnd.randint(1, 5)):
            if rnd.random() < 0.5:
                await (time + rnd.choice([1, 1, 2]))
            await turns(rnd.randint(0, 2))
            item = len(put_log)
            try:
                put_log.append(item)
                await ch.put(item)
            except StreamClosed:
                put_log.remove(item)
                return

    async def consumer(cid, mode):
        await turns(rnd.randint(0, 3))
        if rnd.random() < 0.3: await (time + 1)
        rec = cons[cid] = {'start': len(put_log), 'got': [], 'end': None, 'mode': mode}
        if mode == 'iter':
            async for item in ch:
                rec['got'].append(item)
                await turns(rnd.randint(0, 2))
                if rnd.random() < 0.3: await (time + 1)
                if rnd.random() < 0.1:
                    rec['end'] = 'break'; break
            else:
                rec['end'] = 'closed'
        else:
            try:
                rec['got'].append(await ch)
                rec['end'] = 'single'
            except StreamClosed:
                rec['end'] = 'closed'

    async def wrapped(cid):
        mode = rnd.choice(['iter', 'iter', 'get'])
        kind = rnd.choice(['plain', 'until', 'plain'])
        if kind == 'until':
            t = rnd.choice([0, 1, 2, 3]); k = rnd.randint(0, 3)
            f = Flag()
            async def trig():
                await (time >= t); await turns(k); await f.set()
            async with until(f) as s:
                s.do(trig(), volatile=True)
                await consumer(cid, mode)
        else:
            await consumer(cid, mode)

    async def main():
        async with Scope() as s:
            tasks = []
            for p in range(nprod): s.do(producer(p), volatile=rnd.random() < 0.2)
            for c in range(ncons):
                tasks.append(s.do(wrapped(c), volatile=rnd.random() < 0.3))
            async def killer():
                for t in tasks:
                    if rnd.random() < 0.4:
                        await (time >= rnd.choice([0, 1, 2, 3])); await turns(rnd.randint(0, 4))
                        t.cancel()
            s.do(killer(), volatile=True)
            await (time + rnd.choice([1, 3, 6]))
            await turns(rnd.randint(0, 3))
            await ch.close()
    run(main())
    for cid, rec in cons.items():
        got, start = rec['got'], rec['start']
        if rec['mode'] == 'iter':
            assert got == put_log[start:start + len(got)], ('gap', seed, cid, rec, put_log)
            if rec['end'] == 'closed':
                assert got == put_log[start:], ('missing', seed, cid, rec, put_log)
        else:
            if rec['end'] == 'single':
                assert got == put_log[start:start + 1], ('single', seed, cid, rec, put_log)
            elif rec['end'] == 'closed':
                assert put_log[start:] == [], ('single-closed', seed, cid, rec, put_log)
    import gc; gc.collect()
    assert not ch._consumer_buffers, ('buffers', seed, ch)

bad = 0
base = int(sys.argv[1]) if len(sys.argv) > 1 else 0
for seed in range(base, base + 4000):
    try:
        trial(seed)
    except AssertionError as e:
        bad += 1
        if bad < 4: print('FAIL', e)
    except BaseException as e:
        bad += 1
        if bad < 4: print('EXC', seed, type(e), e)
print('bad', bad)
