# Property C09 (Lock: mutual exclusion, re-entrancy, FIFO hand-off, always released)
#
# Violated sentence:
#   "However a holder or waiter leaves - normally, by exception, by cancellation or interruption
#    at any suspension point, or by forceful close - ownership passes on, so the lock is free
#    whenever nobody holds or waits for it."
#
# Scenario: the holder is a volatile task that is forcefully closed at the end of its scope
#   (documented: "Aborting volatile activities is not graceful: GeneratorExit is raised in the
#   activity") while it is suspended inside `async with lock:`.  While unwinding, code inside the
#   block raises an ordinary exception (a failing `finally:` clean-up / an `except BaseException:
#   raise Other` translation) - the activity does exit without awaiting anything, as required.
#   Lock.__aexit__ starts with
#       assert exc_type is GeneratorExit or self._owner == __USIM_STATE__.loop.activity
#   During a forceful close the running activity is the *closer*, and exc_type is no longer
#   GeneratorExit, so the assertion fails *before* `_depth -= 1` / `__release__()`.
#
# Expected: the block has been left (by forceful close + exception), so the lock is released and
#   the next activity asking for it gets it; the scope reports the clean-up error.
# Observed (default mode): the lock stays owned by the dead coroutine for ever
#   (<Lock, owner=<coroutine object holder ...>, depth=1>), every later `async with lock` blocks
#   for ever, and the real error is masked by a bare AssertionError escaping the scope.
#   Under `python -O` the same program releases the lock and reports Concurrent[Cleanup].
#
# Confidence: medium-low.  The Lock docstring only says ownership is tied to one activity (it is
#   here: entered and left by the same activity); nothing says a block may only be left with
#   GeneratorExit when closed.  It needs an exception raised during a forced unwind, which is
#   unusual, but the assert (a debugging aid) is what turns it into a permanent deadlock, and
#   behaviour differs between debug and -O.
import sys; sys.path.insert(0, '/tmp/hunt4')
import usim
assert usim.__file__.startswith('/tmp/hunt4')
from usim import run, time, Scope, Lock, until


class Cleanup(Exception):
    pass


async def holder(lock):
    async with lock:
        try:
            await (time + 10)
        finally:
            raise Cleanup('clean-up failed')   # no await, just an ordinary error while unwinding


async def main():
    lock = Lock()
    try:
        async with Scope() as scope:
            scope.do(holder(lock), volatile=True)
            await (time + 1)
        # scope ends at t=1: the volatile holder is forcefully closed
    except BaseException as err:
        print('scope raised %s: %s' % (type(err).__name__, err))
    print('after the holder was closed:', lock)
    async with until(time + 5):
        async with lock:
            print('ok: lock obtained at t=%s' % time.now)
            return
    print('VIOLATION: nobody holds or waits, yet the lock could not be obtained for 5 time units:',
          lock)


print('__debug__ =', __debug__)
run(main())
