# Property C13 (Pipe shares throughput proportionally; transfers end at the fluid-model time)
#
# Violated sentences:
#   "each active transfer progresses at min(its own limit, its limit x pipe throughput / sum of
#    all active limits), so the combined flow never exceeds the pipe's throughput"
#   "A transfer of volume V completes exactly when the integral of its rate reaches V"
#   Range: "every set of transfers with arbitrary volumes, limits".
#
# Scenario: a transfer with limit throughput=float('inf') through a *finite* Pipe.
#   Pipe.transfer only requires `throughput is None or throughput > 0`, so inf is a legal limit
#   (UnboundedPipe.transfer even special-cases `throughput == float('inf')`, and changelog entry
#   89.infinite_pipes.yaml advertises infinite throughput as the "neutral element").
#   _throttle_subscribers computes scale = throughput / inf = 0.0; the infinite transfer's own
#   window rate is inf * 0.0 = nan, `delay = x / nan = nan`, `nan > 0` is False -> it merely
#   postpones and declares itself complete.  Every *other* transfer that is active at that moment
#   is woken with window rate limit * 0.0 = 0.0 and dies with ZeroDivisionError.
#
# Expected (fluid model): alone on Pipe(10), 100 units with an unbounded own limit flow at the
#   pipe's throughput -> done at t=10.  With a second transfer (limit 5) the finite one is starved
#   at worst, it must not crash, and the combined flow may never exceed 10.
# Observed: the infinite-limit transfer of 100 units completes in 0 time (flow = infinite > 10);
#   the concurrent finite transfer raises ZeroDivisionError('float division by zero').
#
# Confidence: high that this is a genuine defect (legal argument per the assertion, the docstring
#   says "maximum throughput of transfer" without excluding inf, nothing documents it as forbidden).
import sys; sys.path.insert(0, '/tmp/hunt4')
import usim
assert usim.__file__.startswith('/tmp/hunt4')
from usim import run, time, Pipe, Scope

INF = float('inf')


async def xfer(pipe, name, total, limit, log):
    start = time.now
    try:
        await pipe.transfer(total, throughput=limit)
    except BaseException as err:
        log.append((name, 'raised %r at t=%s' % (err, time.now)))
        raise
    log.append((name, 'start=%s end=%s' % (start, time.now)))


async def alone():
    log = []
    pipe = Pipe(throughput=10)
    async with Scope() as scope:
        scope.do(xfer(pipe, 'inf-limit', 100, INF, log))
    print('alone on Pipe(10): expected 100 units to take 10 time units; observed', log)
    assert log == [('inf-limit', 'start=0 end=10.0')], 'VIOLATION: ' + repr(log)


async def with_other():
    log = []
    pipe = Pipe(throughput=10)
    try:
        async with Scope() as scope:
            scope.do(xfer(pipe, 'limit-5', 100, 5, log))
            scope.do(xfer(pipe, 'inf-limit', 100, INF, log), after=1)
    except BaseException as err:
        print('scope failed with', repr(err))
    print('with a finite transfer: observed', log)


for scenario in (with_other, alone):
    try:
        run(scenario())
    except AssertionError as err:
        print(err)
