# Property C12 (Resources are conserved: never negative, never leaked ...)
#
# Violated sentence:
#   "Whatever a block borrowed is returned when the block is left by any route ... so the
#    available level ... equals the supply at quiescence."   Range: "arbitrary amounts".
#
# Scenario: Resources(a=1.0) / Capacities(a=1.0); two activities borrow a=0.3 and a=0.1 and
#   return them in the same order (0.3 first).  Levels are maintained by repeated float
#   subtraction/addition on the one running total: 1.0 - 0.3 - 0.1 + 0.3 + 0.1 =
#   0.9999999999999999.  Nothing is held any more, but the supply is permanently short by one
#   ulp, and an activity that borrows the whole supply (a=1.0) afterwards waits forever.
#
# Expected: at quiescence levels == 1.0, borrow(a=1.0) succeeds immediately.
# Observed: levels == 0.9999999999999999, borrow(a=1.0) never succeeds (still starving 100 time
#   units later); with other amounts the level ends *above* the supply (e.g. 1.5/0.6/0.3).
#
# Confidence: low.  This is plain float arithmetic; the library does not promise exact
#   arithmetic, but C12 (unlike C13) has no "up to floating point rounding" escape and the
#   consequence - a permanent starvation of a legitimate request - is a real leak as seen by a
#   user.  Float amounts are explicitly in use in the docs (`Tracked[float]`, memory=...).
import sys; sys.path.insert(0, '/tmp/hunt4')
import usim
assert usim.__file__.startswith('/tmp/hunt4')
from usim import run, time, Scope, Resources, Capacities, until


async def hold(supply, amount, start, duration):
    await (time + start)
    async with supply.borrow(a=amount):
        await (time + duration)


async def main(supply):
    async with Scope() as scope:
        scope.do(hold(supply, 0.3, 0, 2))   # taken first, returned first
        scope.do(hold(supply, 0.1, 1, 2))
    print(type(supply).__name__, 'levels at quiescence:', dict(supply.levels), '(supply a=1.0)')
    async with until(time + 100):
        async with supply.borrow(a=1.0):
            print('  whole supply borrowed at t=%s' % time.now)
            return
    print('  VIOLATION: borrow(a=1.0) still starving at t=%s although nothing is held' % time.now)


run(main(Resources(a=1.0)))
run(main(Capacities(a=1.0)))
