import sys; sys.path.insert(0, '/tmp/hunt4')
import usim, random
assert usim.__file__.startswith('/tmp/hunt4')
from usim import run, time, Pipe, Scope, until

def fluid(T, specs):
    # specs: list of (start, volume, limit, cancel_at or None) -> end times (None if cancelled)
    n = len(specs)
    rem = [s[1] for s in specs]
    end = [None]*n
    active = set()
    t = min(s[0] for s in specs)
    pending = set(range(n))
    while pending or active:
        # activate
        for i in list(pending):
            if specs[i][0] <= t:
                pending.discard(i)
                if specs[i][3] is not None and specs[i][3] <= t:
                    end[i] = ('cancelled', specs[i][3]); continue
                if rem[i] == 0: end[i] = ('done', t)
                else: active.add(i)
        tot = sum(specs[i][2] for i in active)
        scale = min(1.0, T/tot) if tot else 1.0
        rate = {i: specs[i][2]*scale for i in active}
        # next event
        cands = [specs[i][0] for i in pending]
        cands += [t + rem[i]/rate[i] for i in active]
        cands += [specs[i][3] for i in active if specs[i][3] is not None]
        if not cands: break
        nt = min(cands)
        for i in list(active):
            rem[i] -= (nt - t)*rate[i]
        t = nt
        for i in list(active):
            if specs[i][3] is not None and specs[i][3] <= t and rem[i] > 1e-9:
                active.discard(i); end[i] = ('cancelled', t)
            elif rem[i] <= 1e-9:
                active.discard(i); end[i] = ('done', t)
    return end

async def xfer(pipe, i, spec, out):
    start, vol, lim, cancel = spec
    if cancel is not None:
        async with until(time >= cancel):
            await pipe.transfer(vol, throughput=lim)
            out[i] = ('done', time.now)
            return
        out[i] = ('cancelled', time.now)
    else:
        await pipe.transfer(vol, throughput=lim)
        out[i] = ('done', time.now)

def sim(T, specs):
    out = [None]*len(specs)
    async def main():
        pipe = Pipe(T)
        async with Scope() as s:
            for i, sp in enumerate(specs):
                s.do(xfer(pipe, i, sp, out), at=sp[0])
    run(main(), start=min(0, min(s[0] for s in specs)))
    return out

random.seed(int(sys.argv[1]) if len(sys.argv) > 1 else 0)
bad = 0
for trial in range(3000):
    T = random.choice([1, 2, 3, 4, 10])
    n = random.randint(1, 5)
    specs = []
    for _ in range(n):
        start = random.choice([0, 0, 1, 2, 3, 5, -2])
        vol = random.choice([0, 1, 2, 4, 6, 12])
        lim = random.choice([1, 2, 3, 4, 20])
        cancel = random.choice([None, None, None, start, start+1, start+2, start+4])
        specs.append((start, vol, lim, cancel))
    exp = fluid(T, specs)
    got = sim(T, specs)
    ok = True
    for e, g in zip(exp, got):
        if e is None or g is None or e[0] != g[0] or abs(e[1]-g[1]) > 1e-6:
            # tie between cancel and done at same instant is ambiguous
            if e and g and abs(e[1]-g[1]) <= 1e-6: continue
            ok = False
    if not ok:
        bad += 1
        if bad < 6:
            print('MISMATCH T=', T, specs); print(' exp', exp); print(' got', got)
print('bad', bad)
