# Property C12 (Resources are conserved: never negative, never leaked, claims never wait)
#
# Violated sentences:
#   "Resource levels never drop below zero"
#   "the available level always lies between (supply - everything being acquired, held or
#    released) and (supply - everything held)"
#   "Nested borrowing from a borrowed share can never exceed that share."
#
# Scenario: an activity borrows a share `outer` (a=2) of a supply of 2 and hands the share to a
#   child activity (of an enclosing scope) which borrows a=1 *from the share* for 10 time units.
#   The parent leaves its `async with supply.borrow(a=2)` block at t=1, while the nested borrow
#   is still held.  BorrowedResources.__aexit__ unconditionally subtracts the full debit from the
#   share and returns the full debit to the supply (the source even carries the comment
#   "# TODO: forcefully kill off anyone holding our resources?").
#
# Expected: levels stay >= 0; as long as the child holds 1 unit the supply may show at most
#   2 - 1 = 1 available, so nobody else can obtain 2 units before t=10.
# Observed: outer.levels == a=-1 from t=1 to t=10; supply.levels == a=2 although 1 unit is still
#   held; a third activity borrows the full 2 units at t=2, i.e. 3 units of a supply of 2 are in
#   use at the same time.  Same for Capacities.
#
# Confidence: medium.  No documentation forbids letting a nested borrow outlive the share (the
#   share is a first class object `async with ... as share` that can be passed on, exactly like a
#   Scope), Capacities' docstring promises "its resources are conserved and cannot be leaked", and
#   the TODO shows the authors know the case is unhandled.  One may argue it is a usage error.
import sys; sys.path.insert(0, '/tmp/hunt4')
import usim
assert usim.__file__.startswith('/tmp/hunt4')
from usim import run, time, Scope, Resources, Capacities

in_use = 0
peak = 0


def use(amount):
    global in_use, peak
    in_use += amount
    peak = max(peak, in_use)


async def child(share):
    async with share.borrow(a=1):
        use(+1)
        await (time + 10)
        use(-1)


async def late_borrower(supply):
    await (time + 2)
    async with supply.borrow(a=2):
        use(+2)
        print('  t=%s: late borrower obtained a=2 while the nested borrow still holds 1'
              % time.now)
        await (time + 1)
        use(-2)


async def main(supply):
    global in_use, peak
    in_use = peak = 0
    print(type(supply).__name__, 'with supply a=2')
    async with Scope() as scope:
        scope.do(late_borrower(supply))
        async with supply.borrow(a=2) as outer:
            scope.do(child(outer))
            await (time + 1)
        print('  t=%s: parent left its block; share levels %s, supply levels %s (nested '
              'borrow of 1 still held)' % (time.now, dict(outer.levels), dict(supply.levels)))
        await (time + 4)
        print('  t=%s: share levels %s' % (time.now, dict(outer.levels)))
    print('  peak units in use at the same time: %d of a supply of 2' % peak)
    print('  VIOLATION' if peak > 2 else '  ok')


run(main(Resources(a=2)))
run(main(Capacities(a=2)))
