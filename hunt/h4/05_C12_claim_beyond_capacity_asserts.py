# Property C12, sentence:
#   "`claim` never waits and raises ResourcesUnavailable exactly when the amount is not available
#    on entry."
#
# Scenario: Capacities(a=2).claim(a=3), and a nested share: supply.borrow(a=2) as share ->
#   share.claim(a=3).  The amount is (and always will be) unavailable, so the claim must fail with
#   ResourcesUnavailable when entered.
# Expected: ResourcesUnavailable raised by `async with ...claim(a=3)`.
# Observed: AssertionError('cannot borrow beyond capacity') raised synchronously by `.claim(...)`
#   itself (BaseResources.claim calls self.borrow(), whose capacity assertion was written for
#   borrow, where waiting forever would be the alternative).  Under `python -O` the very same
#   program raises ResourcesUnavailable, i.e. the outcome of a claim depends on the interpreter
#   flag.  Resources(a=2).claim(a=3) (no capacity notion) raises ResourcesUnavailable in both.
#
# Confidence: low.  The assertion text documents that *borrowing* beyond capacity is treated as
#   a usage error; for a *claim* ("borrow ... if available", ":raises ResourcesUnavailable: if
#   the claim is made as resources are unavailable") being unavailable is the normal, documented
#   outcome and not a usage error.
import sys; sys.path.insert(0, '/tmp/hunt4')
import usim
assert usim.__file__.startswith('/tmp/hunt4')
from usim import run, Capacities, Resources, ResourcesUnavailable


async def try_claim(label, supply):
    try:
        async with supply.claim(a=3):
            print(label, '-> claimed?!')
    except ResourcesUnavailable:
        print(label, '-> ResourcesUnavailable (as the property demands)')
    except AssertionError as err:
        print(label, '-> VIOLATION: AssertionError(%s)' % err)


async def main():
    await try_claim('Resources(a=2).claim(a=3) ', Resources(a=2))
    await try_claim('Capacities(a=2).claim(a=3)', Capacities(a=2))
    async with Resources(a=5).borrow(a=2) as share:
        await try_claim('share(a=2).claim(a=3)     ', share)

print('__debug__ =', __debug__)
run(main())
