import sys; sys.path.insert(0, '/tmp/hunt4')
import usim, random
assert usim.__file__.startswith('/tmp/hunt4')
from usim import run, time, Scope, Resources, Capacities, until, instant, Flag, ResourcesUnavailable

def trial(seed):
    rnd = random.Random(seed)
    kind = rnd.choice(['R', 'C'])
    supply = {'a': rnd.randint(1, 4), 'b': rnd.randint(0, 3)}
    res = Resources(**supply) if kind == 'R' else Capacities(**supply)
    delta = {'a': 0, 'b': 0}
    viol = []
    def check(where):
        lv = dict(res.levels)
        for k in lv:
            if lv[k] < 0 or lv[k] > supply[k] + delta[k]: viol.append((where, time.now, lv))

    async def turns(n):
        for _ in range(n):
            await instant; check('turn')

    def amounts(limit):
        return {k: rnd.randint(0, v) for k, v in limit.items() if rnd.random() < 0.8 or k == 'a'}

    async def user(uid):
        await turns(rnd.randint(0, 3))
        if rnd.random() < 0.4: await (time + rnd.choice([1, 2]))
        for _ in range(rnd.randint(1, 3)):
            am = amounts(supply)
            try:
                ctx = res.claim(**am) if rnd.random() < 0.3 else res.borrow(**am)
                async with ctx as share:
                    check('in')
                    assert dict(share.levels) == {**{'a': 0, 'b': 0}, **am}, ('share', dict(share.levels), am)
                    await turns(rnd.randint(0, 2))
                    if rnd.random() < 0.5: await (time + rnd.choice([1, 2]))
                    if rnd.random() < 0.5:
                        am2 = amounts({**{'a': 0, 'b': 0}, **am})
                        async with share.borrow(**am2) as inner:
                            lv = dict(share.levels)
                            assert all(v >= 0 for v in lv.values()), ('nested neg', lv)
                            await turns(rnd.randint(0, 2))
                            if rnd.random() < 0.3: await (time + 1)
                    if rnd.random() < 0.1: raise KeyError('boom')
            except ResourcesUnavailable:
                pass
            except KeyError:
                pass
            check('out')

    async def wrapped(uid):
        if rnd.random() < 0.35:
            t = rnd.choice([0, 1, 2, 3]); k = rnd.randint(0, 5)
            f = Flag()
            async def trig():
                await (time >= t); await turns(k); await f.set()
            async with until(f) as s:
                s.do(trig(), volatile=True)
                await user(uid)
        else:
            await user(uid)

    async def changer():
        for _ in range(rnd.randint(0, 3)):
            await turns(rnd.randint(0, 3))
            if rnd.random() < 0.5: await (time + 1)
            k = rnd.choice(['a', 'b'])
            if rnd.random() < 0.6:
                delta[k] += 1
                await res.increase(**{k: 1})
            elif dict(res.levels)[k] >= 1:
                # decrease is synchronous up to the set
                delta[k] -= 1
                await res.decrease(**{k: 1})

    async def main():
        async with Scope() as s:
            tasks = [s.do(wrapped(u), volatile=rnd.random() < 0.3) for u in range(rnd.randint(1, 5))]
            if kind == 'R': s.do(changer())
            async def killer():
                for t in tasks:
                    if rnd.random() < 0.4:
                        await (time >= rnd.choice([0, 1, 2, 3])); await turns(rnd.randint(0, 5))
                        t.cancel()
            s.do(killer(), volatile=True)
            await (time + rnd.choice([1, 3, 6]))
            await turns(rnd.randint(0, 4))
            # cancel whoever is starving
            for t in tasks: t.cancel()
    run(main())
    assert not viol, ('bounds', seed, viol[:3])
    lv = dict(res.levels)
    assert lv == {k: supply[k] + delta[k] for k in supply}, ('quiescence', seed, kind, lv, supply, delta)

bad = 0
base = int(sys.argv[1]) if len(sys.argv) > 1 else 0
for seed in range(base, base + 4000):
    try:
        trial(seed)
    except AssertionError as e:
        bad += 1
        if bad < 4: print('FAIL', e)
    except BaseException as e:
        bad += 1
        if bad < 4: print('EXC', seed, type(e), repr(e)[:300])
print('bad', bad)
