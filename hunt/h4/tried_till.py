import sys; sys.path.insert(0, '/tmp/hunt4')
import usim, gc
assert usim.__file__.startswith('/tmp/hunt4')
from usim import run, time, Scope, Lock, Flag, Queue, until, Resources, Capacities, Pipe, eternity

lock = Lock(); res = Resources(a=3); cap = Capacities(a=3); pipe = Pipe(2); q = Queue()

async def holder():
    async with lock, res.borrow(a=2) as outer, cap.borrow(a=1):
        async with outer.borrow(a=1):
            await pipe.transfer(100)

async def waiter():
    async with lock:
        pass
async def bw():
    async with res.borrow(a=3):
        pass
async def rd():
    await q

run(holder(), waiter(), bw(), rd(), rd(), till=5)
print(lock, res.levels, cap.levels, pipe._subscriptions, pipe._throughput_scale, q._read_mutex)
async def again():
    async with lock, res.borrow(a=3), cap.borrow(a=3):
        await pipe.transfer(4)
        await q.put(1)
        print(await q)
    print('ok', time.now)
run(again())
