import sys; sys.path.insert(0, '/tmp/hunt4')
import usim, random
assert usim.__file__.startswith('/tmp/hunt4')
from usim import run, time, Scope, Queue, until, instant, StreamClosed, TaskCancelled, Flag

def trial(seed):
    rnd = random.Random(seed)
    q = Queue()
    put_log, got_log, ask_log = [], [], []
    counter = [0]
    nprod, ncons = rnd.randint(1, 3), rnd.randint(1, 4)
    close_at = rnd.choice([None, 1, 2, 3, 4])

    async def turns(n):
        for _ in range(n): await instant

    async def producer(pid):
        for _ in range(rnd.randint(1, 4)):
            if rnd.random() < 0.5:
                await (time + rnd.choice([1, 1, 2]))
            await turns(rnd.randint(0, 2))
            item = counter[0]; counter[0] += 1
            try:
                put_log.append(item)
                await q.put(item)
            except StreamClosed:
                put_log.remove(item)
                return

    async def consumer(cid, mode, n):
        if mode == 'iter':
            async for item in q:
                got_log.append((item, cid))
                await turns(rnd.randint(0, 2))
                if rnd.random() < 0.3: await (time + 1)
        else:
            for _ in range(n):
                await turns(rnd.randint(0, 2))
                ask_log.append(cid)
                try:
                    item = await q
                except StreamClosed:
                    return
                got_log.append((item, cid))

    async def wrapped(cid):
        mode = rnd.choice(['iter', 'get'])
        n = rnd.randint(1, 4)
        kind = rnd.choice(['plain', 'until', 'plain'])
        if kind == 'until':
            t = rnd.choice([0, 1, 2, 3])
            k = rnd.randint(0, 3)
            f = Flag()
            async def trig():
                await (time >= t); await turns(k); await f.set()
            async with until(f) as s:
                s.do(trig(), volatile=True)
                await consumer(cid, mode, n)
        else:
            await consumer(cid, mode, n)

    async def main():
        async with Scope() as outer:
            async with Scope() as s:
                tasks = []
                for p in range(nprod): s.do(producer(p), volatile=rnd.random() < 0.2)
                for c in range(ncons):
                    tasks.append(s.do(wrapped(c), volatile=rnd.random() < 0.3))
                async def killer():
                    for t in tasks:
                        if rnd.random() < 0.4:
                            await (time >= rnd.choice([0, 1, 2, 3])); await turns(rnd.randint(0, 4))
                            t.cancel()
                            if rnd.random() < 0.3: t.cancel()
                s.do(killer(), volatile=True)
                if close_at is not None:
                    async def closer():
                        await (time >= close_at); await turns(rnd.randint(0, 3)); await q.close()
                    s.do(closer())
                await (time + rnd.choice([1, 3, 6]))
                await turns(rnd.randint(0,3))
                await q.close()
            # drain
            await q.close()
            async for item in q:
                got_log.append((item, 'drain'))
    run(main())
    got = [g[0] for g in got_log]
    assert sorted(got) == sorted(set(got)), ('dup', seed, got_log)
    assert got == sorted(got), ('order', seed, got_log)
    assert sorted(got) == sorted(put_log), ('lost', seed, put_log, got_log)
    assert q._read_mutex._owner is None and not q._buffer, ('final', seed, q, q._read_mutex)

bad = 0
base = int(sys.argv[1]) if len(sys.argv) > 1 else 0
for seed in range(base, base + 4000):
    try:
        trial(seed)
    except AssertionError as e:
        bad += 1
        if bad < 4: print('FAIL', e)
    except BaseException as e:
        bad += 1
        if bad < 4: print('EXC', seed, type(e), e)
print('bad', bad)
