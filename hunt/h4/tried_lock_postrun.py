import sys; sys.path.insert(0, '/tmp/hunt4')
import usim, gc
assert usim.__file__.startswith('/tmp/hunt4')
from usim import run, time, Scope, Lock, Flag, Queue, until

lock = Lock()
flag = Flag()
q = Queue()

async def holder():
    async with lock:
        await flag   # never set

async def waiter(name):
    async with lock:
        print(name, 'got lock')

async def reader(name):
    print(name, 'read', await q)

async def main1():
    async with Scope() as s:
        s.do(holder())
        s.do(waiter('w1'))
        s.do(reader('r1'))
        s.do(reader('r2'))

run(main1())   # ends deadlocked: nothing scheduled any more
gc.collect()
print('after run 1:', lock, q._read_mutex)
try:
    print('available', lock.available)
except Exception as e:
    print('available raised', type(e).__name__)

async def main2():
    async with until(time + 10):
        async with lock:
            print('run 2 got lock at', time.now)
            return
    print('run 2: lock never obtained although nobody holds or waits')
async def main3():
    await q.put(1)
    async with until(time + 10):
        print('run 3 read', await q)
        return
    print('run 3: queue read starved', q)
run(main2())
run(main3())
