# Property C12 (Resources are conserved ...)
#
# Violated sentences:
#   "Nested borrowing from a borrowed share can never exceed that share."
#   (and the spirit of "Whatever a block borrowed is returned when the block is left by any
#    route - ... cancellation or interruption at any suspension point including while acquiring")
#
# Scenario: a borrow object `share = supply.borrow(a=1)` is created once and used for several
#   attempts (e.g. a retry loop with a timeout around `async with share:`).  The first attempt is
#   cancelled while __aenter__ is postponed in its *second* step (the debit is already removed
#   from the supply and already credited to the share).  The fix for interrupted acquisition
#   (__return_resources__) hands the debit back to the supply but leaves it credited to the
#   share: share.levels shows a=1 although the block was never entered and nothing is held.
#   When the same object is entered again, the share holds a=2 although its limit is a=1 and only
#   1 unit was taken from the supply: two activities can each borrow a=1 from the share at once.
#
# Expected: after the interrupted entry share.levels == a=0; inside the second block
#   share.levels == share.limits == a=1 and nested borrows are limited to 1 unit in total.
# Observed: share.levels == a=1 after the interrupted entry, a=2 inside the block (limits a=1),
#   two concurrent nested borrows of 1 unit each succeed at once while the supply only gave 1.
#
# Confidence: low-medium.  Nothing documents borrow objects as single-use (Lock, Scope are
#   explicit about (non) re-entrancy; BorrowedResources is silent), and the phantom level after
#   the interrupted entry is observable by itself through `share.levels`.  The consequences need
#   re-use of the context manager object, which is unusual.
import sys; sys.path.insert(0, '/tmp/hunt4')
import usim
assert usim.__file__.startswith('/tmp/hunt4')
from usim import run, time, Scope, Resources, instant


async def attempt(share, log):
    async with share:
        log.append('entered')
        await (time + 5)


async def nested(share, name, log):
    async with share.borrow(a=1):
        log.append('%s holds 1 unit of the share at t=%s' % (name, time.now))
        await (time + 1)


async def main():
    supply = Resources(a=3)
    share = supply.borrow(a=1)
    log = []
    async with Scope() as scope:
        task = scope.do(attempt(share, log))
        await instant       # task runs: debit removed from supply, postponed
        task.cancel()       # delivered in the 2nd postponement of __aenter__
    await (time + 1)
    print('after the cancelled entry: block entered?', log, '| supply', dict(supply.levels),
          '| share.levels', dict(share.levels), '(expected a=0)')
    async with share:
        print('inside the re-used share: supply', dict(supply.levels), '| share.levels',
              dict(share.levels), '| share.limits', dict(share.limits))
        async with Scope() as scope:
            scope.do(nested(share, 'n1', log))
            scope.do(nested(share, 'n2', log))
    print(log)
    both = [line for line in log if 'holds' in line]
    if len({line.split('t=')[1] for line in both}) == 1:
        print('VIOLATION: two nested borrows of 1 unit held at the same time from a share of 1')


run(main())
