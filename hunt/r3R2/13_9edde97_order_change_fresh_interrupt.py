import sys, os; sys.path.insert(0, os.environ.get('USIM_TREE', '/tmp/huntR2'))
import usim
assert usim.__file__.startswith(os.environ.get('USIM_TREE', '/tmp/huntR2')), usim.__file__
from usim import run, time, Scope, until, eternity

# The defect of 9edde97 is a STALE interrupt (queued at entry). The added postpone
# also applies to a FRESH interrupt that arrives while the block waits for its
# children - the common 'async with until(time + 10) as s: s.do(worker())'.
# Nothing was starved there, yet the block now ends one turn later than before,
# which reorders it against other activities of that time step.
log = []

async def worker():
    await eternity

async def a():
    async with until(time + 10) as s:
        s.do(worker())
    log.append('a: behind its until-block')

async def b():
    await (time + 10)
    log.append('b: woke up')

run(a(), b())
print('observed:', log)
print("before 9edde97 (a subscribed first, FIFO): ['a: behind its until-block', 'b: woke up']")
