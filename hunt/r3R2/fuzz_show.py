import sys, os
sys.argv = [sys.argv[0]] + sys.argv[1:]
seed = int(sys.argv[1])
src = open('/tmp/huntR2/_hunt/fuzz_scopes.py').read().split("def handler")[0]
exec(src)
for l in one(seed): print(l)
