import sys, os; sys.path.insert(0, os.environ.get('USIM_TREE', '/tmp/huntR2'))
import usim, gc, warnings
warnings.simplefilter('error')
assert usim.__file__.startswith(os.environ.get('USIM_TREE', '/tmp/huntR2')), usim.__file__
from usim import run, time, Scope, Flag, until, instant, eternity, Channel, Queue, StreamClosed

async def A():
    ch = Channel(); log = []
    async def cons(name, slow):
        async for m in ch:
            log.append((name, m, time.now))
            if slow: await (time + 3)
        log.append((name, 'end', time.now))
    async def prod():
        await instant
        for i in range(4):
            await ch.put(i)
            await (time + 1)
        await ch.close()
    async def late():
        await (time + 2)
        async for m in ch:
            log.append(('late', m, time.now))
        log.append(('late', 'end', time.now))
    async with Scope() as s:
        s.do(cons('fast', False)); s.do(cons('slow', True)); s.do(prod()); s.do(late())
    for l in log: print(l)

async def B():
    # closed channel, iterate: ends, yields to others
    ch = Channel(); await ch.close()
    log = []
    async def other():
        log.append('other')
    async with Scope() as s:
        s.do(other())
        async for m in ch:
            pass
        log.append('iter done')
    print('B', log)
    q = Queue(); await q.put(1); await q.close()
    log = []
    async with Scope() as s:
        s.do(other())
        async for m in q:
            log.append(m)
        log.append('iter done')
    print('B', log)
    try:
        await q
    except StreamClosed:
        print('B closed ok')

async def C():
    # several readers waiting on a queue which gets closed
    q = Queue(); log = []
    async def reader(n):
        try:
            v = await q
            log.append((n, v, time.now))
        except StreamClosed:
            log.append((n, 'closed', time.now))
    async with Scope() as s:
        for i in range(4): s.do(reader(i))
        await (time + 1)
        await q.put('x')
        await q.close()
    print('C', log)

for f in (A, B, C):
    run(f())
