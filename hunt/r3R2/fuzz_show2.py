import sys, os
seed = int(sys.argv[1])
src = open('/tmp/huntR2/_hunt/fuzz_scopes.py').read().split("def handler")[0]
src = src.replace("        r = rng.random()\n        if r < 0.2:", "        r = rng.random()\n        log.append((name, 'op', round(r, 2), time.now))\n        if r < 0.2:")
src = src.replace("rng.choice(tasks).cancel()", "t = rng.choice(tasks); log.append((name, 'cancels', t.payload.cr_frame.f_locals.get('name') if t.payload.cr_frame else None, str(t.status))); t.cancel()")
src = src.replace("            async with until(c) as s:", "            log.append((name, 'until', str(c), bool(c)))\n            async with until(c) as s:")
exec(src)
for l in one(seed): print(l)
