import sys, os; sys.path.insert(0, os.environ.get('USIM_TREE', '/tmp/huntR2'))
import usim, gc, warnings
warnings.simplefilter('error')
assert usim.__file__.startswith(os.environ.get('USIM_TREE', '/tmp/huntR2')), usim.__file__
from usim import run, time, Scope, Flag, until, instant, eternity, interval, IntervalExceeded

log = []
async def a(name):
    log.append((name, 'start', time.now))
    try:
        await (time + 1)
        log.append((name, 'end', time.now))
    finally:
        log.append((name, 'fin'))
for start, till in ((2, 1), (2, 2), (2, 3), (2, 2.5), (-3, -5), (0, float('inf'))):
    log.clear()
    run(a('x'), a('y'), start=start, till=till)
    print(start, till, log)
gc.collect()

# interval
async def tick(name, period, body, n, out):
    i = 0
    try:
        async for now in interval(period):
            out.append((name, now))
            i += 1
            if i >= n: break
            if body[i % len(body)]:
                await (time + body[i % len(body)])
    except IntervalExceeded:
        out.append((name, 'exceeded', time.now))
for start in (0, 0.3, 1e6 + 0.1, -7.3):
    out = []
    run(tick('a', 0.1, [0.03, 0.07, 0], 12, out), tick('b', 0.1, [0], 12, out), tick('c', 0.1, [0.1, 0.05], 12, out), start=start)
    times = {}
    for n, t in out:
        times.setdefault(n, []).append(t)
    print(start, times['a'] == times['b'] == times['c'], times['a'][-1])
out = []
run(tick('z', 0, [0, 0], 3, out), tick('e', 1, [0, 1, 1.5], 5, out), tick('inf', float('inf'), [0], 2, out), start=5)
print(out)
