import sys, os; sys.path.insert(0, os.environ.get('USIM_TREE', '/tmp/huntR2'))
import usim, gc
assert usim.__file__.startswith(os.environ.get('USIM_TREE', '/tmp/huntR2')), usim.__file__
from usim import run, time, Scope, Resources, Capacities, eternity, until, Flag, instant

class Probe:
    def __init__(self, name, res, out):
        self.name, self.res, self.out = name, res, out
    def __on_changed__(self):
        self.out.append((self.name, time.now, dict(self.res.levels)))

async def main(when):
    out = []
    res = Capacities(a=6)
    p0 = Probe('root', res, out); res._available.__add_listener__(p0)
    stop = Flag()
    async def trigger():
        await (time + 1)
        for _ in range(when):
            await instant
        await stop.set()
    async def waiter():
        async with res.borrow(a=5):
            out.append(('waiter got 5', time.now))
    async with Scope() as s:
        s.do(trigger())
        s.do(waiter(), after=0.5)
        async with until(stop):
            async with res.borrow(a=4) as share:
                p1 = Probe('share', share, out); share._available.__add_listener__(p1)
                await (time + 1)
                async with share.borrow(a=3) as inner:   # interrupted while entering / inside / leaving
                    await instant
                    await instant
                await (time + 1)
    await (time + 1)
    neg = [o for o in out if len(o) == 3 and min(o[2].values()) < 0]
    print('when', when, 'negative:', neg, 'final root', dict(res.levels), [o for o in out if len(o) == 2])

for when in range(0, 9):
    run(main(when))
