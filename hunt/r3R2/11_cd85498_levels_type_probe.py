import sys, os; sys.path.insert(0, os.environ.get('USIM_TREE', '/tmp/huntR2'))
import usim, gc
assert usim.__file__.startswith(os.environ.get('USIM_TREE', '/tmp/huntR2')), usim.__file__
from usim import Resources, Capacities
from fractions import Fraction
from decimal import Decimal

a = Resources(cores=8, mem=16)
b = Resources(cores=8.0, mem=16.0)
print('types identical:', a.resource_type is b.resource_type)
print('a', a.levels, 'b', b.levels, 'defaults', a.resource_type(), b.resource_type())
try:
    print('a.levels >= b.levels:', a.levels >= b.levels)
except AssertionError as e:
    print('a.levels >= b.levels: AssertionError', e)
c = Resources(cores=Fraction(1, 2)); d = Resources(cores=Decimal('1.5')); e = Resources(cores=True)
print(c.resource_type(), d.resource_type(), e.resource_type())
f = Resources(-0.0, cores=1.0); print(f.resource_type(), f.resource_type is b.resource_type)
g = Resources(cores=3, mem=4); print('same names+zero share type:', g.resource_type is a.resource_type)
