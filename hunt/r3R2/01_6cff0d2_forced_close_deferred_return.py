import sys, os; sys.path.insert(0, os.environ.get('USIM_TREE', '/tmp/huntR2'))
import usim
assert usim.__file__.startswith(os.environ.get('USIM_TREE', '/tmp/huntR2')), usim.__file__
from usim import run, time, Scope, Resources, eternity, until

# 6cff0d2 made the hand-back of an INTERRUPTED nested borrow immediate.
# The same nested borrow ended by a forceful close (GeneratorExit: volatile child
# closed at the end of its scope) still hands back through scheduled activities
# (BorrowedResources.__aexit__, exc_type is GeneratorExit). The block owning the
# share is left in the same turn and takes its full amount back first.


class Probe:
    def __init__(self, share):
        self.share, self.seen = share, []

    def __on_changed__(self):
        self.seen.append((time.now, self.share.levels.a))


async def child(share):
    async with share.borrow(a=2):
        await eternity


async def main():
    res = Resources(a=4)
    async with res.borrow(a=4) as share:
        probe = Probe(share)
        share._available.__add_listener__(probe)
        async with Scope() as s:
            s.do(child(share), volatile=True)
            await (time + 1)
        # the scope closed its volatile child; the child's 2 units are still out
    await (time + 1)
    print('(time, level of the borrowed share) at every change:', probe.seen)
    print('expected: level never negative; observed minimum:',
          min(v for _, v in probe.seen))
    print('root supply at quiescence (expected 4):', res.levels.a)

run(main())


# variant: a regular (non-volatile) child, the scope body fails
async def main2():
    res = Resources(a=4)
    probe = None
    try:
        async with res.borrow(a=4) as share:
            probe = Probe(share)
            share._available.__add_listener__(probe)
            async with Scope() as s:
                s.do(child(share))
                await (time + 1)
                raise KeyError('body failed')
    except KeyError:
        pass
    await (time + 1)
    print('variant body failure:', probe.seen, 'minimum', min(v for _, v in probe.seen))

run(main2())
