import sys, os; sys.path.insert(0, os.environ.get('USIM_TREE', '/tmp/huntR2'))
import usim
assert usim.__file__.startswith(os.environ.get('USIM_TREE', '/tmp/huntR2')), usim.__file__
from usim.py import Environment, Interrupt
from usim.py.resources.resource import PriorityResource, PreemptiveResource

env = Environment()
res = PreemptiveResource(env)
log = []
def user(env, name, at, prio, preempt, hold):
    yield env.timeout(at)
    with res.request(prio, preempt) as req:
        try:
            yield req
            log.append((name, 'got', env.now))
            yield env.timeout(hold)
            log.append((name, 'done', env.now))
        except Interrupt as i:
            log.append((name, 'preempted by', i.cause.by._generator.gi_frame.f_locals['name'], env.now, i.cause.usage_since))
env.process(user(env, 'A', 0, 5, True, 10))
env.process(user(env, 'B', 1, 0, False, 2))
env.process(user(env, 'C', 2, 1, True, 2))
env.process(user(env, 'D', 20, 3, True, 10))
env.process(user(env, 'E', 21, 3, False, 2))
env.process(user(env, 'F', 22, 2, True, 2))
env.run()
for l in log: print(l)
# PriorityResource accepts and ignores preempt
env = Environment()
pr = PriorityResource(env)
r = pr.request(1, False); print(r.key, pr.count)
