import subprocess, sys, os
# compare sorted logs (multiset of events with times) for seeds that differ
diffs = []
a = dict(l.split()[0:1] + [l] for l in open('out_head.txt') if l[0].isdigit())
b = dict(l.split()[0:1] + [l] for l in open('out_par.txt') if l[0].isdigit())
seeds = [s for s in a if a[s] != b.get(s)]
print(len(seeds), 'differ')
n = 0
for s in seeds[:int(sys.argv[1])]:
    outs = []
    for tree in ('/tmp/huntR2', '/tmp/huntR2_parent'):
        env = dict(os.environ, USIM_TREE=tree)
        r = subprocess.run(['/venv/bin/python', 'fuzz_show.py', s], capture_output=True, text=True, env=env, timeout=30)
        outs.append([l for l in r.stdout.splitlines() if l.startswith('(')])
    if sorted(outs[0]) != sorted(outs[1]):
        n += 1
        print('seed', s, 'differs beyond order:', len(outs[0]), len(outs[1]))
print(n, 'beyond order')
