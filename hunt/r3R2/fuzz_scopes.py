import sys, os; sys.path.insert(0, os.environ.get('USIM_TREE', '/tmp/huntR2'))
import usim, random, signal, traceback, gc, warnings
assert usim.__file__.startswith(os.environ.get('USIM_TREE', '/tmp/huntR2')), usim.__file__
from usim import run, time, Scope, Flag, until, instant, eternity, Queue, Channel, Resources, TaskCancelled, StreamClosed

def make_cond(rng, flags, depth=0):
    r = rng.random()
    if depth > 2 or r < 0.4:
        f = rng.choice(flags)
        return f if rng.random() < 0.7 else ~f
    if r < 0.55:
        return time >= rng.choice([0, 1, 2, 3])
    if r < 0.6:
        return time < rng.choice([1, 2, 3])
    a, b = make_cond(rng, flags, depth + 1), make_cond(rng, flags, depth + 1)
    return (a & b) if rng.random() < 0.5 else (a | b)

async def ops(rng, env, depth, name):
    flags, tasks, log, shared = env
    rng = random.Random(rng if isinstance(rng, str) else '%r' % (rng,))
    base = rng.random()
    for i in range(rng.randint(1, 4)):
        r = rng.random()
        if r < 0.2:
            await rng.choice(flags).set(rng.random() < 0.7)
        elif r < 0.35:
            await (time + rng.choice([0, 1, 1, 2]))
        elif r < 0.6 and depth < 3:
            c = shared[rng.randrange(len(shared))] if rng.random() < 0.5 else make_cond(rng, flags)
            async with until(c) as s:
                for _ in range(rng.randint(0, 2)):
                    kw = {}
                    if rng.random() < 0.3: kw['after'] = rng.choice([1, 2])
                    if rng.random() < 0.3: kw['volatile'] = True
                    tasks.append(s.do(ops('%s/%s/%d/%d' % (base, name, i, _), env, depth + 1, name + '.c%d%d' % (i, _)), **kw))
                if rng.random() < 0.7:
                    await ops('%s/%s/%d/n' % (base, name, i), env, depth + 1, name + '.n%d' % i)
            log.append((name, 'left until', time.now))
        elif r < 0.7 and tasks:
            rng.choice(tasks).cancel()
        elif r < 0.8 and depth < 3:
            c = make_cond(rng, flags)
            async with until(time + 3):
                await c
            log.append((name, 'awaited', time.now))
        elif r < 0.9 and tasks:
            t = rng.choice(tasks)
            try:
                async with until(time + 2):
                    await t
            except TaskCancelled:
                pass
        else:
            await instant
        log.append((name, i, time.now))

def one(seed):
    rng = random.Random(seed)
    flags = [Flag() for _ in range(3)]
    shared = [make_cond(rng, flags, 0) for _ in range(3)]
    env = (flags, [], [], shared)
    async def root():
        async with Scope() as s:
            for k in range(3):
                env[1].append(s.do(ops('%d/%d' % (seed, k), env, 0, 'a%d' % k)))
    run(root(), till=20)
    return env[2]

def handler(signum, frame):
    raise TimeoutError('livelock?')
signal.signal(signal.SIGALRM, handler)
bad = 0
lo, hi = int(sys.argv[1]), int(sys.argv[2])
for seed in range(lo, hi):
    signal.alarm(5)
    try:
        with warnings.catch_warnings():
            warnings.simplefilter('error')
            log = one(seed)
        if os.environ.get('DUMP'):
            import hashlib; print(seed, hashlib.md5(repr(log).encode()).hexdigest()[:10], len(log))
    except BaseException as e:
        bad += 1
        print('seed', seed, type(e).__name__, str(e)[:200])
        if bad <= 3: traceback.print_exc(limit=-6)
    finally:
        signal.alarm(0)
    gc.collect()
print('done, bad =', bad)
