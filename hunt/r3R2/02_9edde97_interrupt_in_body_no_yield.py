import sys, os; sys.path.insert(0, os.environ.get('USIM_TREE', '/tmp/huntR2'))
import usim
assert usim.__file__.startswith(os.environ.get('USIM_TREE', '/tmp/huntR2')), usim.__file__
from usim import run, time, Scope, Flag, until, instant

# 9edde97: until(n) with n true on entry; the interrupt is queued at entry, ahead of
# everything the body makes runnable. The commit postpones when that interrupt
# arrives during the exit (body never suspended). If the body suspends ONCE
# (await instant / flag.set() / ...), the same stale interrupt ends that
# suspension at once and the block is left through the exception path of
# __aexit__, which does not postpone: same symptom, neighbouring path.


async def note(log, what):
    log.append(what)


async def variant(body_suspends, log):
    flag = Flag()
    await flag.set()
    async with Scope() as outer:
        async with until(flag):
            outer.do(note(log, 'task made runnable by the body'))
            if body_suspends:
                await instant
        log.append('code behind the block')


for body_suspends in (False, True):
    log = []
    run(variant(body_suspends, log))
    print('body suspends once:' if body_suspends else 'body never suspends:', log)
print("expected in both: ['task made runnable by the body', 'code behind the block']")
