import sys, os; sys.path.insert(0, os.environ.get('USIM_TREE', '/tmp/huntR2'))
import usim, gc, warnings
warnings.simplefilter('error')
assert usim.__file__.startswith(os.environ.get('USIM_TREE', '/tmp/huntR2')), usim.__file__
from usim import run, time, Scope, Concurrent
from usim.py import Environment, Interrupt

async def boom(exc):
    await (time + 1)
    raise exc

async def act(*excs):
    async with Scope() as s:
        for e in excs:
            s.do(boom(e))

def handler(env, log):
    try:
        yield act(KeyError(1), IndexError(2))
    except Concurrent[KeyError, IndexError] as e:
        log.append(('handled', type(e).__name__, env.now))
    yield env.timeout(1)
    log.append(('alive', env.now))

def nonhandler(env, log):
    yield act(KeyError(1))

env = Environment(); log = []
env.process(handler(env, log)); env.run(); print(log)

env = Environment(); log = []
p = env.process(nonhandler(env, log))
try:
    env.run()
except BaseException as e:
    print('run ended with', repr(e), 'process value', repr(p.value))

# interrupted while the yielded activity fails in the same step
def victim(env, log):
    try:
        yield act(KeyError(1))
    except Interrupt as i:
        log.append(('interrupt', i.cause, env.now))
    except Concurrent as e:
        log.append(('concurrent', env.now))
    try:
        yield env.timeout(1)
    except Interrupt as i:
        log.append(('interrupt at 2nd yield', i.cause, env.now))
    log.append(('alive', env.now))
def killer(env, p):
    yield env.timeout(1)
    p.interrupt('x')
env = Environment(); log = []
p = env.process(victim(env, log)); env.process(killer(env, p)); env.run(); print(log)
env = Environment(); log = []
p = [None]; env.process(killer(env, type('P', (), {'interrupt': lambda s, c: p[0].interrupt(c)})())); p[0] = env.process(victim(env, log)); env.run(); print(log)
