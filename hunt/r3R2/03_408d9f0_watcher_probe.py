import sys, os; sys.path.insert(0, os.environ.get('USIM_TREE', '/tmp/huntR2'))
import usim, gc, warnings
warnings.simplefilter('error')
assert usim.__file__.startswith(os.environ.get('USIM_TREE', '/tmp/huntR2')), usim.__file__
from usim import run, time, Scope, Flag, until, instant, eternity

# A: two until-blocks on the same connective object, one leaves early
async def A():
    a, b = Flag(), Flag()
    c = a & b
    log = []
    async def short():
        async with until(c):
            await (time + 1)
        log.append(('short left', time.now))
    async def long():
        async with until(c):
            await (time + 10)
        log.append(('long left', time.now))
    async def setter():
        await (time + 2)
        await a.set()
        await (time + 1)
        await b.set()
    async with Scope() as s:
        s.do(short()); s.do(long()); s.do(setter())
    print('A', log, 'expected short@1 long@3')

# B: nested connective, leave before true, then flags set later, then new until on same object
async def B():
    a, b, c = Flag(), Flag(), Flag()
    cond = a & (b | c)
    async with until(cond):
        await (time + 1)
    print('B left first at', time.now, 'watchers', cond._watched, cond._children[1]._watched if hasattr(cond._children[1], '_watched') else None)
    await a.set()
    async with Scope() as s:
        async def later():
            await (time + 2)
            await c.set()
        s.do(later())
        async with until(cond):
            await (time + 10)
        print('B left second at', time.now, 'expected 3')

# C: leave the block in the very turn the watcher was woken (pending wake-up for a closed watcher)
async def C():
    a, b = Flag(), Flag()
    cond = a & b
    async with Scope() as s:
        async def setter():
            await (time + 1)
            await a.set()
            await b.set()
        s.do(setter())
        async with until(cond):
            await (time + 1)   # body ends exactly when a gets set
        print('C left at', time.now, 'watcher', cond._watched)
        await (time + 5)
    print('C done', time.now)

# D: subscribe, unsubscribe and resubscribe in one turn
async def D():
    a, b = Flag(), Flag()
    cond = a | b
    async with until(cond):
        pass
    async with until(cond):
        pass
    async with Scope() as s:
        async def setter():
            await (time + 1)
            await b.set()
        s.do(setter())
        async with until(cond):
            await (time + 10)
        print('D left at', time.now, 'expected', 'start+1')

for f in (A, B, C, D):
    run(f())
    gc.collect()
print('ok')
