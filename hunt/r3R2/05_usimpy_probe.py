import sys, os; sys.path.insert(0, os.environ.get('USIM_TREE', '/tmp/huntR2'))
import usim, gc, warnings
assert usim.__file__.startswith(os.environ.get('USIM_TREE', '/tmp/huntR2')), usim.__file__
from usim.py import Environment
from usim.py.resources.resource import Resource, PriorityResource, PreemptiveResource
from usim.py.resources.container import Container
from usim.py.resources.store import Store, FilterStore, PriorityStore
from usim.py.exceptions import Interrupt

# fa2e5e1: double cancel on all request kinds
env = Environment()
def proc(env):
    res = [Resource(env, 1), PriorityResource(env, 1), PreemptiveResource(env, 1)]
    for r in res:
        first = r.request()
        yield first
        with r.request() as req:
            req.cancel(); req.cancel()
        assert list(r.queue) == [], r.queue
        r.release(first)
    c = Container(env, 10, 0)
    g = c.get(5); g.cancel(); g.cancel()
    p = c.put(20) if False else None
    c2 = Container(env, 10, 10)
    p = c2.put(5); p.cancel(); p.cancel()
    for S in (Store, FilterStore, PriorityStore):
        s = S(env, 1)
        g = s.get(); g.cancel(); g.cancel()
        assert list(s.get_queue) == []
    yield env.timeout(1)
    print('fa2e5e1 ok at', env.now)
env.process(proc(env))
env.run()

# 556426d / 47c16e6
env = Environment(initial_time=-5)
log = []
t0 = env.timeout(3, 'early')
def p2(env):
    log.append(('start', env.now))
    v = yield t0
    log.append((v, env.now))
    yield env.timeout(100)
    log.append(('late', env.now))
env.process(p2(env))
print('now before', env.now)
env.run(until=-1)
print('log', log, 'now after', env.now, 'expected -1')

env = Environment(initial_time=7)
log = []
def p3(env):
    log.append(('start', env.now))
    yield env.timeout(2)
    log.append(('t', env.now))
    yield env.timeout(100)
env.process(p3(env))
env.run(until=20)
print('log', log, 'now after', env.now, 'expected 20')

# run without until
env = Environment(initial_time=-3)
def p4(env):
    yield env.timeout(2)
env.process(p4(env))
env.run()
print('now after full run', env.now, 'expected -1')

# until=event
env = Environment(initial_time=-3)
ev = env.event()
def p5(env):
    yield env.timeout(2)
    ev.succeed('x')
    yield env.timeout(50)
env.process(p5(env))
print(env.run(until=ev), env.now, 'expected x -1')
try:
    env.run(until=5)
except Exception as e:
    print('second run:', type(e).__name__, e)
