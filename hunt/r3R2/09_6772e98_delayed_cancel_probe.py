import sys, os; sys.path.insert(0, os.environ.get('USIM_TREE', '/tmp/huntR2'))
import usim, gc, warnings
warnings.simplefilter('error')
assert usim.__file__.startswith(os.environ.get('USIM_TREE', '/tmp/huntR2')), usim.__file__
from usim import run, time, Scope, Flag, until, instant, eternity, TaskCancelled, TaskState

async def payload(log, name):
    log.append((name, 'started', time.now))
    try:
        await (time + 1)
        log.append((name, 'done', time.now))
    except BaseException as e:
        log.append((name, type(e).__name__, time.now))
        raise
    return name

async def scenario(kind, log):
    async with Scope() as s:
        async def canceller(task_box):
            await (time + 5)           # queued for t=5 BEFORE the task's own wake-up
            t = task_box[0]
            log.append(('status before', str(t.status)))
            t.cancel('tok1'); t.cancel('tok2')
            log.append(('status right after', str(t.status)))
        box = []
        s.do(canceller(box))
        async def awaiter(box):
            await instant
            try:
                r = await box[0]
                log.append(('awaiter got', r, time.now))
            except TaskCancelled as e:
                log.append(('awaiter TaskCancelled', e.args, e.subject is box[0], time.now))
        s.do(awaiter(box))
        if kind == 'after':
            box.append(s.do(payload(log, 'p'), after=5))
        elif kind == 'at':
            box.append(s.do(payload(log, 'p'), at=5))
        elif kind == 'volatile':
            box.append(s.do(payload(log, 'p'), after=5, volatile=True))
        await (time + 7)
        t = box[0]
        log.append(('final', str(t.status), time.now))
        try:
            await t
        except TaskCancelled as e:
            log.append(('late awaiter', e.args))
    log.append(('scope left', time.now))

for kind in ('after', 'at', 'volatile'):
    log = []
    run(scenario(kind, log))
    print(kind)
    for l in log: print('   ', l)
gc.collect()
