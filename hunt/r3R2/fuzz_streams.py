import sys, os; sys.path.insert(0, os.environ.get('USIM_TREE', '/tmp/huntR2'))
import usim, random, signal, traceback, gc, warnings
assert usim.__file__.startswith(os.environ.get('USIM_TREE', '/tmp/huntR2')), usim.__file__
from usim import run, time, Scope, Flag, until, instant, eternity, Queue, Channel, TaskCancelled, StreamClosed

def one(seed):
    rng = random.Random(seed)
    kind = rng.choice(['queue', 'channel'])
    stream = Queue() if kind == 'queue' else Channel()
    put, got = [], {}
    nprod, ncons = rng.randint(1, 3), rng.randint(1, 4)
    plan_p = [[rng.choice([0, 0, 1, 2]) for _ in range(rng.randint(0, 5))] for _ in range(nprod)]
    plan_c = [(rng.choice([0, 0, 1, 3]), rng.choice(['iter', 'iter', 'single']), rng.choice([0, 0, 1]), rng.choice([None, None, 1, 2, 4])) for _ in range(ncons)]
    close_at = rng.choice([1, 3, 6, 10])
    sub = {}
    async def prod(i, plan):
        for k, d in enumerate(plan):
            if d: await (time + d)
            if stream.closed:
                return
            put.append(((i, k), time.now, len(put)))
            await stream.put((i, k))
    async def cons(j, start, mode, body, limit):
        got[j] = []
        if start: await (time + start)
        async def inner():
            if mode == 'iter':
                sub[j] = len(put)
                async for m in stream:
                    got[j].append(m)
                    if body: await (time + body)
                got[j].append('END')
            else:
                sub[j] = len(put)
                try:
                    m = await stream
                    got[j].append(m)
                except StreamClosed:
                    got[j].append('CLOSED')
        if limit is None:
            await inner()
        else:
            async with until(time + limit):
                await inner()
    async def closer():
        await (time + close_at)
        await stream.close()
    async def root():
        async with Scope() as s:
            for i, p in enumerate(plan_p): s.do(prod(i, p))
            for j, c in enumerate(plan_c): s.do(cons(j, *c))
            s.do(closer())
    run(root(), till=100)
    allput = [m for m, _, _ in put]
    if kind == 'queue':
        recv = [m for j in got for m in got[j] if isinstance(m, tuple)]
        assert len(recv) == len(set(recv)), ('dup', recv)
        # every item put is received if some iterating unlimited consumer exists
        if any(c[1] == 'iter' and c[3] is None for c in plan_c):
            assert sorted(recv) == sorted(allput), ('lost', allput, got)
        for j in got:
            items = [m for m in got[j] if isinstance(m, tuple)]
            idx = [allput.index(m) for m in items]
            assert idx == sorted(idx), ('order', j, got[j])
    else:
        for j, c in enumerate(plan_c):
            if c[1] == 'iter' and c[3] is None and j in sub:
                expect = allput[sub[j]:]
                items = [m for m in got[j] if isinstance(m, tuple)]
                assert items == expect and got[j][-1] == 'END', ('chan', j, got[j], expect, sub[j])
    return kind, put, got

def handler(signum, frame):
    raise TimeoutError('livelock?')
signal.signal(signal.SIGALRM, handler)
bad = 0
lo, hi = int(sys.argv[1]), int(sys.argv[2])
import hashlib
for seed in range(lo, hi):
    signal.alarm(5)
    try:
        with warnings.catch_warnings():
            warnings.simplefilter('error')
            r = one(seed)
        if os.environ.get('DUMP'):
            print(seed, hashlib.md5(repr(r).encode()).hexdigest()[:10])
    except BaseException as e:
        bad += 1
        print('seed', seed, type(e).__name__, str(e)[:300])
        if bad <= 2: traceback.print_exc(limit=-4)
    finally:
        signal.alarm(0)
    gc.collect()
print('done, bad =', bad)
