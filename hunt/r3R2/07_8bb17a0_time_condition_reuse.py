import sys, os; sys.path.insert(0, os.environ.get('USIM_TREE', '/tmp/huntR2'))
import usim, gc, weakref
assert usim.__file__.startswith(os.environ.get('USIM_TREE', '/tmp/huntR2')), usim.__file__
from usim import run, time, Scope, Flag, until, instant, eternity

DEADLINE = time >= 10
MOMENT = time == 10
BOTH = (time >= 10) & (time >= 12)
FLAGGED = (time >= 10) | Flag()

async def waiter(log):
    await DEADLINE; log.append(('deadline', time.now))
async def waiter2(log):
    await MOMENT; log.append(('moment', time.now))
async def waiter3(log):
    async with until(DEADLINE):
        await eternity
    log.append(('until', time.now))
async def waiter4(log):
    await BOTH; log.append(('both', time.now))
async def waiter5(log):
    async with until(BOTH):
        await eternity
    log.append(('until both', time.now))
async def waiter6(log):
    async with until(FLAGGED):
        await eternity
    log.append(('until flagged', time.now))

for start in (0, 3, 0):
    log = []
    run(waiter(log), waiter2(log), waiter3(log), waiter4(log), waiter5(log), waiter6(log), start=start)
    print(start, log)

# memory: the condition pins the loop (and whatever is still scheduled in it)
class Big: pass
big = Big(); ref = weakref.ref(big)
async def holder(b):
    await (time + 100)
async def fail():
    await DEADLINE
    raise KeyError
try:
    run(holder(big), fail())
except KeyError:
    pass
del big; gc.collect()
print('object of a finished (failed) run still alive through DEADLINE._scheduled:', ref() is not None)
