# Property : C07
# Sentence : "If the notification of `async with until(n)` fires ... while the block
#             is still active, the body is abandoned at its next suspension point
#             within that same time step ... Hence the block ends at the earlier of
#             the trigger time and its own completion time"
#            Range: "every body and child structure ... every nesting of
#            until-scopes with equal or different deadlines"
# Scenario : two nested until-scopes whose notifications fire in the same time step
#            (equal deadlines), and a body whose clean-up suspends while the
#            interrupt propagates - either a user `finally: await ...` or simply the
#            library's own `async with resources.borrow(...)`, whose __aexit__
#            awaits (it postpones while handing the resources back).
# Expected : the outer block ends at time 5 (its trigger time).
# Observed : the outer block is NOT interrupted: the code after the inner block
#            keeps running and the outer block ends at 105, by normal completion.
# Cause    : interrupts are edge-triggered exceptions. At t=5 the outer scope's
#            CancelScope is thrown first; while it unwinds, the clean-up suspends;
#            at that suspension the inner scope's CancelScope is thrown and (Python
#            semantics) REPLACES the exception in flight. The inner __aexit__
#            recognises and swallows its own interrupt, the outer one is gone for
#            good (it was delivered once and is never re-raised).
# Confidence: medium-high that this is a genuine defect: no documentation says that
#            equal deadlines or awaiting during clean-up are forbidden; the second
#            variant uses nothing but library constructs. (With different deadlines
#            or without a suspending clean-up the scopes behave as specified.)
import sys; sys.path.insert(0, '/repo')
import faulthandler; faulthandler.dump_traceback_later(20, exit=True)
import usim
assert usim.__file__.startswith('/repo')
from usim import run, time, eternity, instant, until, Resources


async def user_finally(make_outer, make_inner):
    async with until(make_outer()):
        async with until(make_inner()):
            try:
                await eternity
            finally:
                await instant      # clean-up that suspends once
        print('   inner block left at', time.now, '- body of the outer block goes on')
        await (time + 100)
        print('   body of the outer block still running at', time.now)
    print('   outer block ended at %s (expected 5)' % time.now)


async def library_only(make_outer, make_inner):
    resources = Resources(cores=4)
    async with until(make_outer()):
        async with until(make_inner()):
            async with resources.borrow(cores=1):
                await eternity
        print('   inner block left at', time.now, '- body of the outer block goes on')
        await (time + 100)
        print('   body of the outer block still running at', time.now)
    print('   outer block ended at %s (expected 5)' % time.now)


async def control(make_outer, make_inner):
    async with until(make_outer()):
        async with until(make_inner()):
            await eternity
        print('   inner block left at', time.now)
        await (time + 100)
        print('   body of the outer block still running at', time.now)
    print('   outer block ended at %s (expected 5)' % time.now)


for kinds, outer, inner in (
    ('time + 5 / time + 5', lambda: time + 5, lambda: time + 5),
    ('time == 5 / time >= 5', lambda: time == 5, lambda: time >= 5),
):
    for scenario in (control, user_finally, library_only):
        print('%s, nested until(%s):' % (scenario.__name__, kinds))
        run(scenario(outer, inner))
