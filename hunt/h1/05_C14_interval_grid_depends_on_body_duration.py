# Property : C14
# Sentence : "`async for now in interval(p)` resumes its body at start + p,
#             start + 2p, ... regardless of how long each body run took"
# Scenario : float period/start (start=-3.3, p=2.406), two tickers started
#            together: one with an empty body, one whose body waits 0.3 (< p).
# Expected : both tickers tick in the same time steps (same grid); the body
#            duration has no influence on the tick dates.
# Observed : ticks 2-4 differ in the last bits (1.5120000000000005 vs
#            1.5120000000000002, ...): the two "equal" tickers do not share a time
#            step there, `time == <tick of the other ticker>` is never true, and
#            the busy ticker misses fl(previous tick + p), which the idle one hits.
#            (a random search found 22 such parameter sets in 3000 trials)
# Cause    : interval() converts the absolute next date into a relative delay
#            (`remaining = last + period - now`; `suspend(delay=remaining)`), the
#            loop converts it back (`now + remaining`); in floating point
#            now + ((last + p) - now) != last + p in general.
#            `suspend(until=last_time + period)` would be exact.
# Confidence: low-medium. It is a genuine, observable dependence of the grid on the
#            body durations, but only at float-rounding level; timing.py's module
#            docstring concedes that float time "may exhibit imprecision for
#            fractions". With integer (or exactly representable) times the grid is
#            exact.
import sys; sys.path.insert(0, '/tmp/hunt1')
import faulthandler; faulthandler.dump_traceback_later(20, exit=True)
import usim
assert usim.__file__.startswith('/tmp/hunt1')
from usim import run, time, interval

START, PERIOD, BODY, N = -3.3, 2.406, 0.3, 6


async def ticker(ticks, body):
    async for now in interval(PERIOD):
        ticks.append(now)
        if len(ticks) >= N:
            break
        if body:
            await (time + body)


idle, busy = [], []
run(ticker(idle, 0), ticker(busy, BODY), start=START)
print('%-4s %-24s %-24s %s' % ('tick', 'empty body', 'body waits %s' % BODY, 'same time step?'))
for k, (a, b) in enumerate(zip(idle, busy), 1):
    print('%-4d %-24r %-24r %s' % (k, a, b, 'yes' if a == b else 'NO'))
grid = [START + PERIOD]
for _ in range(N - 1):
    grid.append(grid[-1] + PERIOD)
print('fl(prev + p) grid     :', grid)
print('violations (idle)     :', sum(x != y for x, y in zip(idle, grid)))
print('violations (busy)     :', sum(x != y for x, y in zip(busy, grid)))
