# Property : C07 (and C15 for the second half)
# Sentence : "`run(..., till=T)` executes nothing at a virtual time later than T"
#            (C15: "starts all root activities at `start` in argument order")
# Scenario : unusual but legal arguments: till < start, and till == start.
# Expected : till < start : nothing is executed at a time later than T (an error,
#                           or an immediate end, would both satisfy the sentence)
#            till == start: activities are started at `start` (== T, which is not
#                           "later than T"), like they are run at T for start < T.
# Observed : run(w(), start=2, till=1) ignores `till` completely: the activity runs
#            at 2, 3, 4, ... to completion (it would run forever if it looped).
#            run(w(), start=0, till=0) executes nothing at all, although
#            run(w(), start=-1, till=0) does execute the work due at time 0.
# Cause    : `till` is implemented as `until(time == till)`; a Moment in the past
#            never triggers, one that holds on entry interrupts the root before
#            any child activity has been started.
# Confidence: medium for till < start (no documentation, no argument check; the
#            property's sentence is violated literally), low for till == start
#            (boundary inconsistency, arguably a design choice).
import sys; sys.path.insert(0, '/tmp/hunt1')
import faulthandler; faulthandler.dump_traceback_later(20, exit=True)
import usim
assert usim.__file__.startswith('/tmp/hunt1')
from usim import run, time


async def work(seen):
    seen.append(time.now)
    for _ in range(3):
        await (time + 1)
        seen.append(time.now)


for start, till in ((0, 2), (2, 1), (5, -5), (-1, 0), (0, 0)):
    seen = []
    run(work(seen), start=start, till=till)
    late = [t for t in seen if t > till]
    print('start=%-3s till=%-3s executed at %-16s later than till: %s' % (
        start, till, seen, late or 'nothing'))
