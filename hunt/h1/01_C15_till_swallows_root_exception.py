# Property : C15  (run() ends at quiescence, reports failures ...)
# Sentence : "`run()` ... re-raises the first exception escaping a root activity
#             unchanged"  (range: every sequence of runs, successful / failing;
#             `till` is part of the run() signature named in the property)
# Scenario : a root activity lets a TaskCancelled (or TaskClosed, or any
#            GeneratorExit) escape - e.g. it awaits a task that was cancelled,
#            which is the documented way a cancellation surfaces.
# Expected : run(...) raises that very exception, with and without `till`.
# Observed : run(a())            -> raises TaskCancelled        (correct)
#            run(a(), till=100)  -> returns normally at t=1; the exception is
#            silently dropped AND every other root activity is aborted (the
#            failure still cancels the internal until-scope), so the simulation
#            stops early without any error being reported.
# Cause    : run(till=) runs the roots as children of `until(time == till)`;
#            Scope.SUPPRESS_CONCURRENT = (TaskCancelled, TaskClosed, GeneratorExit)
#            filters these types when collecting child failures.
# Confidence: high that this is a genuine defect. The earlier fix "run(..., till=T)
#            re-raises an activity's exception unchanged" shows the intent; docs of
#            run() say nothing about `till` changing error reporting.
import sys; sys.path.insert(0, '/repo')
import faulthandler; faulthandler.dump_traceback_later(20, exit=True)
import usim
assert usim.__file__.startswith('/repo')
from usim import run, time, Scope, TaskCancelled, TaskClosed


async def awaits_cancelled_task():
    async with Scope() as scope:
        task = scope.do(time + 10)
        task.cancel('not needed')
    await (time + 1)
    await task  # raises TaskCancelled - escapes this root activity


async def bystander(log):
    for _ in range(5):
        await (time + 1)
        log.append(time.now)


async def raises(exc):
    await (time + 1)
    raise exc


def attempt(label, make, **kwargs):
    log = []
    try:
        run(make(), bystander(log), **kwargs)
    except BaseException as err:
        outcome = 'raised %r' % (err,)
    else:
        outcome = 'returned normally (NO exception reported)'
    print('%-34s %-12s -> %s; bystander ran at %s' % (label, kwargs, outcome, log))


for kwargs in ({}, {'till': 100}):
    attempt('await cancelled task', awaits_cancelled_task, **kwargs)
    attempt('raise TaskClosed', lambda: raises(TaskClosed('x')), **kwargs)
    attempt('raise GeneratorExit', lambda: raises(GeneratorExit()), **kwargs)
    attempt('raise KeyError (control)', lambda: raises(KeyError('k')), **kwargs)
