# Property : C01 (range also touches C15: "every sequence of runs ... nested")
# Sentence : "one that waits for a date t resumes exactly at t (`time == t`,
#             `time >= t`, ...)" - "for every program ..., every start time"
# Scenario : a time condition object (`deadline = time >= 5`, `opening = time == 5`)
#            is created once (module constant - creating it needs no running
#            simulation) and awaited in more than one simulation: two runs in
#            sequence, a run that was stopped by `till` before the date, or a
#            nested run() inside an activity of an enclosing simulation.
# Expected : in every simulation the waiting activity resumes when that
#            simulation's clock reads 5.
# Observed : only the first simulation that awaits the object before its date is
#            served. In every later simulation `await deadline` NEVER resumes; the
#            run ends silently at quiescence with the activity still waiting.
# Cause    : After._ensure_trigger() sets `self._scheduled = True` once and
#            schedules the trigger in the loop current at that moment; the flag is
#            never reset, so a later loop never gets a trigger (Moment embeds an
#            After and inherits the problem).
# Confidence: medium. Nothing in the docs forbids keeping a condition in a
#            variable ("c = a & b  # derive new Condition... await c" is shown for
#            conditions, Delay docs advertise re-awaiting), and `Delay`/`Instant`
#            objects do work across runs; but sharing one condition object between
#            simulations is unusual, and the docs do not promise it either.
import sys; sys.path.insert(0, '/repo')
import faulthandler; faulthandler.dump_traceback_later(20, exit=True)
import usim
assert usim.__file__.startswith('/repo')
from usim import run, time

deadline = (time >= 5)
opening = (time == 5)
pause = (time + 5)   # a Delay, for comparison


async def wait_for(what, tag, log):
    await what
    log.append('%s resumed at %s' % (tag, time.now))


for name, what in (('time >= 5', deadline), ('time == 5', opening), ('time + 5', pause)):
    log = []
    run(wait_for(what, 'run 1', log))
    run(wait_for(what, 'run 2', log))
    run(wait_for(what, 'run 3 (start=-3)', log), start=-3)
    print('%-10s expected 3 resumptions, observed: %s' % (name, log))

# a run stopped by `till` before the date poisons the object as well
late = (time >= 7)
log = []
run(wait_for(late, 'stopped run', log), till=2)
run(wait_for(late, 'next run', log))
print('after till: expected ["next run resumed at 7"], observed:', log)

# nested simulation inside an enclosing one
shared = (time >= 3)
log = []


async def outer():
    await (time + 1)
    async with usim.Scope() as scope:
        scope.do(wait_for(shared, 'outer waiter', log))
        await (time + 1)
        run(wait_for(shared, 'nested waiter', log), start=-10)  # own clock: -10
        log.append('nested run() returned at outer time %s' % time.now)
    log.append('outer done at %s' % time.now)

run(outer())
print('nested: expected the nested waiter to resume at 3 on the nested clock, i.e.')
print('        before the nested run() returns; observed:')
for line in log:
    print('         ', line)
print('        (the activity of the finished nested simulation is resumed by, and')
print('         inside, the enclosing simulation - cf. C15 "an enclosing simulation')
print('         continues undisturbed after a nested run()")')
