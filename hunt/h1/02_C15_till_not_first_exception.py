# Property : C15
# Sentence : "re-raises the FIRST exception escaping a root activity unchanged"
# Scenario : two root activities fail in the same time step, a() first with
#            KeyError, b() second with AssertionError (or SystemExit /
#            KeyboardInterrupt - the Scope.PROMOTE_CONCURRENT types).
# Expected : run(a(), b()) and run(a(), b(), till=T) both raise KeyError('first').
# Observed : run(a(), b())           -> KeyError('first')
#            run(a(), b(), till=100) -> AssertionError('second')
#            i.e. with `till` a later failure replaces the first one.
# Cause    : with `till` the roots are children of a scope; a() failing only
#            schedules the cancellation of that scope, b() still runs in the same
#            time step, and Scope._collect_exceptions returns the first *promoted*
#            exception instead of the first exception.
# Confidence: medium. Promotion of AssertionError etc. is documented for Scope
#            ("propagated directly"), but nothing documents that run(till=) changes
#            which root failure is reported; the property demands the first.
import sys; sys.path.insert(0, '/tmp/hunt1')
import faulthandler; faulthandler.dump_traceback_later(20, exit=True)
import usim
assert usim.__file__.startswith('/tmp/hunt1')
from usim import run, time


async def a(order):
    await (time + 1)
    order.append('a fails')
    raise KeyError('first')


async def b(order, exc):
    await (time + 1)
    order.append('b fails')
    raise exc


for exc in (AssertionError('second'), SystemExit('second'), ValueError('second')):
    for kwargs in ({}, {'till': 100}):
        order = []
        try:
            run(a(order), b(order, exc), **kwargs)
        except BaseException as err:
            print('%-12s order=%s -> run raised %r %s' % (
                kwargs, order, err,
                '' if isinstance(err, KeyError) else '   <-- not the first exception'))
