# Property C06, sentence: "Cancelling a child never aborts its parent scope or its
# siblings."  Also C05: "A scope block ends in exactly one way: without exception,
# with the very exception its own body raised, with a Concurrent exception, or ..."
# - here the body is aborted half way, yet the block ends *without any exception*.
#
# Scenario: a Scope has three children: `victim`, `watcher` (does `await victim`)
# and an unrelated `bystander`.  The body cancels `victim`.
# `await victim` raises TaskCancelled(victim) in `watcher`, which does not handle
# it.  The scope treats this as a child *failure* (it cancels itself, aborting body
# and bystander), but when collecting failures TaskCancelled is on the
# SUPPRESS_CONCURRENT list and is dropped - nothing is raised.
#
# Expected: cancelling `victim` leaves body and `bystander` alone (or, if the
#           watcher's unhandled TaskCancelled is considered a failure, the block
#           must raise Concurrent[TaskCancelled]) - the body never silently stops.
# Observed: at t=1 `bystander` is closed (GeneratorExit), the rest of the body is
#           skipped, the `async with` block ends normally; "body finished" is never
#           printed and nobody is told.  `watcher.status` is CANCELLED although
#           nobody cancelled it.  The same happens if a child awaits a cancelled
#           or closed task of any other scope.
# Docs: Scope.do: "Unhandled exceptions in children cause the parent scope to abort
# immediately; all child exceptions are collected and re-raised as part of a single
# Concurrent exception".  Nothing documents a silent abort.
# Confidence: high that the silent abort is a genuine defect.
import sys; sys.path.insert(0, '/repo')
import usim
assert usim.__file__.startswith('/repo')
from usim import run, time, Scope, TaskCancelled, Concurrent

log = []

async def victim():
    await (time + 100)

async def watcher(task):
    await task       # raises TaskCancelled(victim) when victim is cancelled; not handled here

async def bystander():
    try:
        await (time + 10)
        log.append('bystander finished')
    except BaseException as e:
        log.append('bystander aborted by %r at %s' % (type(e).__name__, time.now))
        raise

async def main():
    try:
        async with Scope() as scope:
            v = scope.do(victim())
            w = scope.do(watcher(v))
            b = scope.do(bystander())
            await (time + 1)
            v.cancel('stop it')
            await (time + 5)
            log.append('body finished')
    except BaseException as e:
        log.append('scope raised %r' % e)
    else:
        log.append('scope ended WITHOUT exception at %s' % time.now)
    log.append('statuses: v=%s w=%s b=%s' % (v.status, w.status, b.status))

run(main())
print('\n'.join(log))
