"""Random-walk fuzzer over the whole usim API, oracle = C03 only (no internal error, no leak, no livelock)."""
import sys; sys.path.insert(0, '/tmp/hunt2')
import random, signal, traceback, os, io, contextlib
import usim
assert usim.__file__.startswith('/tmp/hunt2')
from usim import (run, time, Scope, until, instant, eternity, Flag, Lock, Queue, Channel,
                  TaskCancelled, TaskClosed, TaskState, Concurrent, CancelTask, StreamClosed,
                  Resources, Capacities, ResourcesUnavailable, Pipe, UnboundedPipe, Tracked,
                  interval, delay, IntervalExceeded, first, collect)
from usim._core.loop import Interrupt            # oracle only
from usim._primitives.context import ScopeClosed


class Boom(Exception):
    pass


class Ctx:
    def __init__(self, seed):
        self.rng = random.Random(seed)
        self.tasks = []
        self.scopes = []
        self.n = 0
        self.trace = []
        self.violations = []

    def t(self, *what):
        self.trace.append((time.now,) + what)


async def activity(ctx, name, depth):
    try:
        for _ in range(ctx.rng.randint(0, 6)):
            await step(ctx, name, depth)
        return name
    except Interrupt as e:
        if not isinstance(e, CancelTask):
            ctx.violations.append('signal %r escapes activity %s' % (e, name))
        raise


async def step(ctx, name, depth):
    rng = ctx.rng
    ctx.n += 1
    if ctx.n > 600:
        await (time + 1)
        return
    ops = ['sleep', 'sleep', 'instant', 'spawn', 'spawn', 'spawn', 'spawn', 'spawn', 'spawn', 'raise', 'cancel', 'await_task',
           'flag', 'wait', 'lock', 'qput', 'qget', 'qiter', 'qclose', 'cput', 'cget', 'citer', 'cclose',
           'borrow', 'claim', 'inc', 'dec', 'rset', 'capborrow', 'pipe', 'upipe', 'tracked_op', 'tracked_wait',
           'interval', 'delay', 'collect', 'nested_borrow', 'until_any']
    if depth < 4:
        ops += ['scope'] * 3
    op = rng.choice(ops)
    ctx.t(name, op)
    E = ctx.env
    if op == 'sleep':
        await (time + rng.choice([1, 1, 2, 0.5]))
    elif op == 'instant':
        await instant
    elif op == 'scope':
        kind = rng.choice(['scope', 'scope', 'delay', 'after', 'moment', 'flag', 'conn', 'tracked', 'res', 'done'])
        now = time.now
        if kind == 'scope': mk = Scope()
        elif kind == 'delay': mk = until(time + rng.choice([1, 2]))
        elif kind == 'after': mk = until(time >= now + rng.choice([0, 1, 2]))
        elif kind == 'moment': mk = until(time == now + rng.choice([0, 1, 2]))
        elif kind == 'flag': mk = until(rng.choice(E['flags']))
        elif kind == 'conn': mk = until(rng.choice(E['flags']) & (time >= now + 1) | ~rng.choice(E['flags']) & (E['tracked'] > 3))
        elif kind == 'tracked': mk = until(E['tracked'] >= rng.choice([1, 3, 5]))
        elif kind == 'res': mk = until(E['res'] < dict(a=1, b=1))
        elif kind == 'done':
            if ctx.tasks: mk = until(rng.choice(ctx.tasks[-5:]).done)
            else: mk = Scope()
        try:
            async with mk as s:
                ctx.scopes.append(s)
                for _ in range(rng.randint(0, 4)):
                    await step(ctx, name, depth + 1)
        except Concurrent:
            if rng.random() < 0.3: raise
        except Boom:
            if rng.random() < 0.5: raise
    elif op == 'spawn':
        if not ctx.scopes or len(ctx.tasks) > 40: return
        s = rng.choice(ctx.scopes[-4:])
        coro = activity(ctx, name + '.' + str(len(ctx.tasks)), depth + 1)
        try:
            ctx.tasks.append(s.do(coro, volatile=rng.random() < .3, after=rng.choice([None, None, 0, 1])))
        except ScopeClosed:
            pass
    elif op == 'raise':
        if rng.random() < 0.12:
            raise Boom(name)
    elif op == 'cancel':
        if ctx.tasks:
            rng.choice(ctx.tasks[-8:]).cancel(name)
    elif op == 'await_task':
        if ctx.tasks:
            t = rng.choice(ctx.tasks[-8:])
            try:
                async with until(time + 2):
                    await t
            except (TaskCancelled, TaskClosed, Boom, StreamClosed, IntervalExceeded):
                pass
            except Concurrent:
                pass
    elif op == 'flag':
        await rng.choice(E['flags']).set(rng.random() < .7)
    elif op == 'wait':
        c = rng.choice([E['flags'][0], ~E['flags'][1], E['flags'][0] | E['flags'][1], time >= time.now + 1,
                        E['flags'][0] & ~E['flags'][1], time < time.now + 1])
        async with until(time + 2):
            await c
    elif op == 'lock':
        async with rng.choice(E['locks']):
            for _ in range(rng.randint(0, 2)):
                await step(ctx, name, depth + 1)
    elif op == 'qput':
        try: await E['q'].put(name)
        except StreamClosed: pass
    elif op == 'qget':
        try:
            async with until(time + 2):
                await E['q']
        except StreamClosed: pass
    elif op == 'qiter':
        n = 0
        async with until(time + 3):
            async for _ in E['q']:
                n += 1
                if n > 2: break
                if rng.random() < .5: await instant
    elif op == 'qclose':
        if rng.random() < .2:
            await E['q'].close()
            E['q'] = Queue()
    elif op == 'cput':
        try: await E['c'].put(name)
        except StreamClosed: pass
    elif op == 'cget':
        try:
            async with until(time + 2):
                await E['c']
        except StreamClosed: pass
    elif op == 'citer':
        n = 0
        async with until(time + 3):
            async for _ in E['c']:
                n += 1
                if n > 2: break
    elif op == 'cclose':
        if rng.random() < .2:
            await E['c'].close()
            E['c'] = Channel()
    elif op == 'borrow':
        async with until(time + 3):
            async with E['res'].borrow(a=rng.choice([0, 1, 2]), b=rng.choice([0, 1])):
                for _ in range(rng.randint(0, 2)):
                    await step(ctx, name, depth + 1)
    elif op == 'nested_borrow':
        async with until(time + 3):
            async with E['res'].borrow(a=2, b=1) as sub:
                async with sub.borrow(a=1):
                    await step(ctx, name, depth + 1)
    elif op == 'claim':
        try:
            async with E['res'].claim(a=rng.choice([1, 2]), b=rng.choice([0, 1])):
                await step(ctx, name, depth + 1)
        except ResourcesUnavailable:
            pass
    elif op == 'capborrow':
        async with until(time + 3):
            async with E['cap'].borrow(x=rng.choice([1, 2, 3])):
                await step(ctx, name, depth + 1)
    elif op == 'inc':
        await E['res'].increase(a=rng.choice([0, 1]), b=rng.choice([0, 1]))
    elif op == 'dec':
        lv = E['res'].levels
        a = min(lv.a, rng.choice([0, 1])); b = min(lv.b, rng.choice([0, 1]))
        await E['res'].decrease(a=a, b=b)
    elif op == 'rset':
        await E['res'].set(a=rng.choice([0, 1, 3]))
    elif op == 'pipe':
        async with until(time + 3):
            await E['pipe'].transfer(rng.choice([0, 1, 2, 5]), throughput=rng.choice([None, 1, 2, 0.5]))
    elif op == 'upipe':
        await E['upipe'].transfer(rng.choice([0, 1, 2]), throughput=rng.choice([None, 1, float('inf')]))
    elif op == 'tracked_op':
        T = E['tracked']
        await rng.choice([T + 1, T - 1, T * 2, T.set(0), T + 0])
    elif op == 'tracked_wait':
        T = E['tracked']
        c = rng.choice([T >= 3, T < 0, T == 2, ~(T >= 1), (T > 1) & E['flags'][0], T != T.value])
        async with until(time + 2):
            await c
    elif op == 'interval':
        n = 0
        try:
            async for _ in interval(rng.choice([0, 1, 2])):
                n += 1
                if n > 2: break
                await step(ctx, name, depth + 1)
        except IntervalExceeded:
            pass
    elif op == 'delay':
        n = 0
        async for _ in delay(rng.choice([0, 1])):
            n += 1
            if n > 2: break
            await step(ctx, name, depth + 1)
    elif op == 'collect':
        try:
            await collect(*(activity(ctx, name + '.c%d' % i, depth + 2) for i in range(rng.randint(0, 3))))
        except Concurrent:
            pass
    elif op == 'until_any':
        async with until(rng.choice(E['flags']) | (E['tracked'] == 4) | (time == time.now + 1)):
            await step(ctx, name, depth + 1)


async def root(ctx):
    ctx.env = dict(flags=[Flag(), Flag()], locks=[Lock(), Lock()], q=Queue(), c=Channel(),
                   res=Resources(a=3, b=1), cap=Capacities(x=3), pipe=Pipe(throughput=2),
                   upipe=UnboundedPipe(), tracked=Tracked(0))
    try:
        async with until(time == 40) as s:
            ctx.scopes.append(s)
            for _ in range(25):
                await step(ctx, 'r', 0)
    except (Concurrent, Boom):
        pass


def alarm(*_):
    raise TimeoutError('LIVELOCK?')


def one(seed):
    ctx = Ctx(seed)
    signal.signal(signal.SIGALRM, alarm)
    signal.alarm(10)
    try:
        run(root(ctx))
    except BaseException as e:
        ctx.violations.append('run() raised %s %r' % (type(e).__name__, e))
        ctx.tb = traceback.format_exc()
    finally:
        signal.alarm(0)
    return ctx


if __name__ == '__main__':
    import warnings
    warnings.simplefilter('ignore')
    if sys.argv[1] == 'show':
        ctx = one(int(sys.argv[2]))
        for l in ctx.trace[-60:]: print(l)
        print('\n'.join(ctx.violations)); print(getattr(ctx, 'tb', ''))
        sys.exit()
    lo, hi = int(sys.argv[1]), int(sys.argv[2])
    nbad = 0
    for seed in range(lo, hi):
        ctx = one(seed)
        if ctx.violations:
            nbad += 1
            print('seed', seed, 'steps', ctx.n, ctx.violations[:3])
    print('done', lo, hi, 'bad', nbad)
