# Property C06, sentence: "Cancelling a task that has not started prevents any of
# its code from running" (range: "every activation boundary at which cancel() is
# called (before start, ...)").
#
# Scenario: scope.do(payload(), after=5); at t=5 - the start date, but *before*
# the payload has executed anything - the scope body calls task.cancel().
# Expected: no payload code runs, awaiters get TaskCancelled.
# Observed: the payload starts anyway and runs up to its first suspension, where
#           the cancellation is raised inside it.
# Related observation: while the task waits for its start date, task.status is
# RUNNING (docs of TaskState.CREATED: "created but not running yet"), so cancel()
# takes the "already running" branch.  A cancel() strictly before t=5 is fine (no
# code runs); only the same-time-step race at the start date executes payload code.
#
# Docs: Task.cancel: "If the Task has not started running, it is cancelled
# immediately. This prevents any code execution, even before the first suspension."
# (with a warning that the *timing* of pre-start cancellation may change).
# Scope.do: "after: delay after which to start the activity".
# Confidence: medium - genuine w.r.t. the property as stated; a maintainer might
# argue that a delayed task counts as "running" once its internal timer runs.
import sys; sys.path.insert(0, '/tmp/hunt2')
import usim
assert usim.__file__.startswith('/tmp/hunt2')
from usim import run, time, Scope, TaskCancelled

log = []


async def payload():
    log.append('!! payload code ran at t=%s' % time.now)
    try:
        await (time + 1)
        log.append('!! payload finished')
    finally:
        log.append('!! payload left at t=%s' % time.now)


async def observer(task):
    await (time + 1)
    log.append('t=1: payload not started; status=%s' % task.status)


async def main():
    async with Scope() as scope:
        task = scope.do(payload(), after=5)
        scope.do(observer(task))
        await (time + 5)
        ran = any(line.startswith('!!') for line in log)
        log.append('t=5: calling cancel(); payload code ran so far: %s; status=%s'
                   % (ran, task.status))
        task.cancel('never start')
        try:
            await task
        except TaskCancelled as e:
            log.append('awaiter got %r at t=%s' % (e, time.now))

run(main())
print('\n'.join(log))
print('EXPECTED: no line starting with "!!"')
print('VIOLATED' if any(line.startswith('!!') for line in log) else 'ok')
