"""Random-walk fuzzer for scopes/tasks (properties C03-C06). Not a finding by itself."""
import sys; sys.path.insert(0, '/tmp/hunt2')
import random, signal, traceback, os
import usim
assert usim.__file__.startswith('/tmp/hunt2')
from usim import (run, time, Scope, until, instant, eternity, Flag, Lock, Queue,
                  TaskCancelled, TaskClosed, TaskState, Concurrent, CancelTask)
from usim._core.loop import Interrupt            # oracle only
from usim._primitives.context import ScopeClosed  # oracle only

FIN = TaskState.FINISHED


class Violation(Exception):
    pass


class ScopeRec:
    def __init__(self, sid, owner, kind, chain):
        self.sid = sid; self.owner = owner; self.kind = kind
        self.chain = chain  # scope recs enclosing the owner activity + enclosing scope ops
        self.scope = None
        self.children = []  # TaskRec
        self.failures = []  # (seq, time, exc) of direct children, in order
        self.exit_seq = None; self.exit_time = None


class TaskRec:
    def __init__(self, name, parent, volatile, after):
        self.name = name; self.parent = parent; self.volatile = volatile; self.after = after
        self.task = None
        self.history = []
        self.outcomes = []
        self.cancel_tokens = []
        self.must_not_run = False
        self.cancel_times = []
        self.term = None  # (kind, time, seq)
        self.started = False


class Ctx:
    def __init__(self, seed, opts):
        self.rng = random.Random(seed)
        self.opts = opts
        self.seq = 0
        self.log = []   # (seq, time, activity name, what)
        self.tasks = []
        self.scopes = []
        self.flags = []
        self.lock = None
        self.queue = None
        self.violations = []
        self.counter = 0
        self.act_chain = {}  # activity name -> scope chain (list of ScopeRec)

    def emit(self, name, what):
        self.seq += 1
        self.log.append((self.seq, time.now, name, what))
        return self.seq

    def bad(self, msg):
        self.violations.append('t=%s seq=%s: %s' % (time.now, self.seq, msg))

    def new_name(self, prefix):
        self.counter += 1
        return '%s%d' % (prefix, self.counter)

    def poll(self):
        for tr in self.tasks:
            if tr.task is None:
                continue
            st = tr.task.status
            done = bool(tr.task.done)
            if done and not (st & FIN):
                self.bad('task %s: done=%s but status=%s' % (tr.name, done, st))
            if not tr.history or tr.history[-1] != st:
                if tr.history:
                    prev = tr.history[-1]
                    ok = (prev == TaskState.CREATED) or (prev == TaskState.RUNNING and st != TaskState.CREATED)
                    if prev & FIN:
                        ok = False
                    if not ok:
                        self.bad('task %s: status went %s -> %s' % (tr.name, prev, st))
                tr.history.append(st)


async def activity(ctx, name, depth, tr=None):
    """payload of a task (or the root)"""
    if tr is not None:
        tr.started = True
        if tr.must_not_run:
            ctx.bad('task %s cancelled before start but its code runs' % name)
    ctx.emit(name, 'start')
    try:
        for _ in range(ctx.rng.randint(0, 6)):
            await step(ctx, name, depth, ctx.act_chain[name])
    except GeneratorExit:
        s = ctx.emit(name, 'closed')
        if tr: tr.term = ('closed', time.now, s)
        raise
    except CancelTask as e:
        s = ctx.emit(name, 'cancelled')
        if tr:
            tr.term = ('cancelled', time.now, s)
            if e.subject is not tr.task:
                ctx.bad('task %s got CancelTask of another task' % name)
        else:
            ctx.bad('root got CancelTask')
        raise
    except Interrupt as e:
        s = ctx.emit(name, 'LEAK %r' % e)
        ctx.bad('internal signal %r escapes activity %s' % (e, name))
        if tr: tr.term = ('leak', time.now, s)
        raise
    except BaseException as e:
        s = ctx.emit(name, 'exc %r' % e)
        if tr:
            tr.term = ('exc', time.now, s)
            tr.parent.failures.append((s, time.now, e))
        raise
    else:
        s = ctx.emit(name, 'end')
        if tr: tr.term = ('end', time.now, s)
        return name


async def step(ctx, name, depth, chain):
    rng = ctx.rng
    ctx.poll()
    ops = ['sleep', 'sleep', 'sleep', 'instant', 'raise', 'cancel', 'cancel', 'await_task', 'await_task',
           'set_flag', 'await_flag', 'cleanup', 'lock', 'put', 'get', 'until_flag_wait']
    if len(ctx.tasks) < 30:
        ops += ['spawn'] * 6
    if depth < 5:
        ops += ['scope'] * 4
    if any(s.owner != name for s in chain):
        ops += ['await_scope']
    op = rng.choice(ops)
    ctx.emit(name, 'op ' + op)
    if op == 'sleep':
        await (time + rng.choice([1, 1, 2, 3]))
    elif op == 'instant':
        await instant
    elif op == 'scope':
        await scope_op(ctx, name, depth, chain)
    elif op == 'spawn':
        # spawn into a visible scope (own or ancestors', possibly ended ones too)
        cands = list(chain)
        if rng.random() < 0.15 and ctx.scopes:
            cands = [rng.choice(ctx.scopes)]
        cands = [c for c in cands if c.scope is not None]
        if not cands:
            return
        rec = rng.choice(cands[-3:])
        cname = ctx.new_name('T')
        volatile = rng.random() < 0.25
        after = rng.choice([None, None, None, 0, 1, 2])
        tr = TaskRec(cname, rec, volatile, after)
        ctx.act_chain[cname] = rec.chain + [rec]
        ended = rec.exit_seq is not None
        coro = activity(ctx, cname, depth + 1, tr)
        try:
            if after is not None and rng.random() < 0.5:
                tr.task = rec.scope.do(coro, at=time.now + after, volatile=volatile)
            else:
                tr.task = rec.scope.do(coro, after=after, volatile=volatile)
        except ScopeClosed:
            ctx.emit(name, 'spawn refused by %s' % rec.sid)
            if coro.cr_frame is not None:
                ctx.bad('refused payload not closed')
            return
        if ended:
            ctx.bad('spawn into ended scope %s accepted' % rec.sid)
        rec.children.append(tr)
        ctx.tasks.append(tr)
        ctx.emit(name, 'spawned %s into %s vol=%s after=%s' % (cname, rec.sid, volatile, after))
        ctx.poll()
    elif op == 'raise':
        if rng.random() < 0.65:
            return
        r = rng.random()
        if r < 0.08 and ctx.opts.get('privileged', True):
            raise AssertionError(name, ctx.seq)
        elif r < 0.5:
            raise KeyError(name, ctx.seq)
        else:
            raise IndexError(name, ctx.seq)
    elif op == 'cancel':
        cands = [t for t in ctx.tasks if t.task is not None]
        if not cands:
            return
        tr = rng.choice(cands[-6:])
        for _ in range(rng.choice([1, 1, 2])):
            st = tr.task.status
            token = (name, ctx.seq)
            tr.cancel_tokens.append(token)
            ctx.emit(name, 'cancel %s (status %s)' % (tr.name, st))
            tr.task.cancel(*token)
            if st == TaskState.CREATED:
                if tr.started:
                    ctx.bad('status CREATED but %s has started' % tr.name)
                tr.must_not_run = True
                if tr.task.status != TaskState.CANCELLED:
                    ctx.bad('cancel of CREATED task %s did not cancel immediately' % tr.name)
            elif st == TaskState.RUNNING and tr.name != name:
                tr.cancel_times.append(time.now)
        ctx.poll()
    elif op == 'await_task':
        cands = [t for t in ctx.tasks if t.task is not None and t.name != name]
        if not cands:
            return
        tr = rng.choice(cands[-6:])
        # do not wait for tasks that (transitively) wait for us: keep it simple, use until guard
        try:
            async with until(time + 3):
                try:
                    v = await tr.task
                except (TaskCancelled, TaskClosed) as e:
                    tr.outcomes.append(e)
                    ctx.emit(name, 'awaited %s -> %r' % (tr.name, e))
                    if isinstance(e, TaskCancelled):
                        if e.subject is not tr.task:
                            ctx.bad('TaskCancelled subject wrong for %s' % tr.name)
                        if e.args not in tr.cancel_tokens:
                            ctx.bad('TaskCancelled token %r not among %r' % (e.args, tr.cancel_tokens))
                except Exception as e:
                    tr.outcomes.append(e)
                    ctx.emit(name, 'awaited %s -> %r' % (tr.name, e))
                    if rng.random() < 0.3:
                        raise
                except Concurrent as e:
                    tr.outcomes.append(e)
                    ctx.emit(name, 'awaited %s -> %r' % (tr.name, e))
                    if rng.random() < 0.3:
                        raise
                else:
                    tr.outcomes.append(v)
                    ctx.emit(name, 'awaited %s -> %r' % (tr.name, v))
                    if v != tr.name:
                        ctx.bad('task %s result %r' % (tr.name, v))
        finally:
            pass
    elif op == 'await_scope':
        rec = rng.choice([s for s in chain if s.owner != name])
        async with until(time + 3):
            await rec.scope
            ctx.emit(name, 'scope %s body done' % rec.sid)
    elif op == 'set_flag':
        await rng.choice(ctx.flags).set(rng.random() < 0.8)
    elif op == 'await_flag':
        f = rng.choice(ctx.flags)
        async with until(time + 2):
            await (f if rng.random() < 0.7 else ~f)
    elif op == 'until_flag_wait':
        f = rng.choice(ctx.flags)
        async with until(f | (time >= time.now + 2)):
            await eternity
    elif op == 'cleanup':
        try:
            for _ in range(rng.randint(1, 2)):
                await step(ctx, name, depth + 1, chain)
        except GeneratorExit:
            ctx.emit(name, 'cleanup(closed)')
            raise
        except BaseException:
            ctx.emit(name, 'cleanup(graceful) begin')
            if ctx.opts.get('await_cleanup'):
                await instant
            ctx.emit(name, 'cleanup(graceful) end')
            raise
    elif op == 'lock':
        async with ctx.lock:
            for _ in range(rng.randint(0, 2)):
                await step(ctx, name, depth + 1, chain)
    elif op == 'put':
        await ctx.queue.put(name)
    elif op == 'get':
        async with until(time + 2):
            await ctx.queue


def own_signal(rec, exc):
    return isinstance(exc, Interrupt) and getattr(exc, 'subject', None) is rec.scope


async def scope_op(ctx, name, depth, chain, forced_kind=None):
    rng = ctx.rng
    kind = forced_kind or rng.choice(['scope'] * 5 + ['delay', 'after', 'moment', 'flag', 'instant', 'done', 'conn'])
    now = time.now
    if kind == 'scope':
        mk = Scope()
    elif kind == 'delay':
        mk = until(time + rng.choice([1, 2, 3]))
    elif kind == 'after':
        mk = until(time >= now + rng.choice([0, 1, 2, -1]))
    elif kind == 'moment':
        mk = until(time == now + rng.choice([0, 1, 2, 3]))
    elif kind == 'flag':
        f = rng.choice(ctx.flags)
        mk = until(f if rng.random() < 0.6 else ~f)
    elif kind == 'instant':
        mk = until(instant)
    elif kind == 'conn':
        f = rng.choice(ctx.flags)
        mk = until(f & (time >= now + 1)) if rng.random() < .5 else until(~f | (time == now + 2))
    elif kind == 'done':
        cands = [t for t in ctx.tasks if t.task is not None and t.name != name]
        if not cands:
            mk = Scope(); kind = 'scope'
        else:
            mk = until(rng.choice(cands[-5:]).task.done)
    elif kind == 'root':
        mk = until(time == 40)
    rec = ScopeRec(ctx.new_name('S'), name, kind, chain)
    ctx.scopes.append(rec)
    inner_chain = chain + [rec]
    body = {'exc': None, 'completed': False}
    ctx.emit(name, 'enter %s kind=%s' % (rec.sid, kind))
    out = None
    try:
        async with mk as s:
            rec.scope = s
            try:
                for _ in range(rng.randint(0, 5) if kind != 'root' else 8):
                    await step(ctx, name, depth + 1, inner_chain)
                body['completed'] = True
                ctx.emit(name, 'body of %s completed' % rec.sid)
            except BaseException as e:
                body['exc'] = e
                ctx.emit(name, 'body of %s raised %r' % (rec.sid, e))
                raise
    except BaseException as e:
        out = e
    rec.exit_seq = ctx.emit(name, 'left %s with %r' % (rec.sid, out))
    rec.exit_time = time.now
    ctx.poll()
    check_scope_exit(ctx, rec, body, out)
    if out is None:
        return
    if isinstance(out, Concurrent) and rng.random() < 0.6:
        return
    if isinstance(out, (KeyError, IndexError)) and rng.random() < 0.3:
        return
    raise out


def check_scope_exit(ctx, rec, body, out):
    X = body['exc']
    fails = [f for f in rec.failures]
    fail_excs = [f[2] for f in fails]
    promote = (SystemExit, KeyboardInterrupt, AssertionError)
    privileged = [e for e in fail_excs if isinstance(e, promote)]
    regular = [e for e in fail_excs if not isinstance(e, (TaskCancelled, TaskClosed, GeneratorExit))]
    if own_signal(rec, out):
        ctx.bad('scope %s leaks its own signal %r' % (rec.sid, out))
    # containment
    for tr in rec.children:
        if tr.task is None:
            continue
        if not (tr.task.status & FIN) or not tr.task.done:
            ctx.bad('scope %s left but child %s is %s' % (rec.sid, tr.name, tr.task.status))
    # outcome
    if X is not None and not own_signal(rec, X):
        # the body failed by itself / was interrupted from outside
        if out is X:
            if type(X) not in promote and privileged:
                ctx.bad('scope %s: privileged child failure %r lost to body exc %r' % (rec.sid, privileged[0], X))
        elif privileged and out is privileged[0]:
            pass
        else:
            ctx.bad('scope %s: body raised %r but block raised %r' % (rec.sid, X, out))
    else:
        # normal completion or own signal
        if privileged:
            if out is not privileged[0]:
                ctx.bad('scope %s: expected privileged %r, got %r' % (rec.sid, privileged[0], out))
        elif regular:
            if not isinstance(out, Concurrent):
                # may legitimately be a foreign interrupt which arrived while shutting down
                if not (isinstance(out, (Interrupt, GeneratorExit)) and not own_signal(rec, out)):
                    ctx.bad('scope %s: children failed %r but block raised %r' % (rec.sid, regular, out))
            else:
                if list(out.children) != regular or any(a is not b for a, b in zip(out.children, regular)):
                    ctx.bad('scope %s: Concurrent children %r != failures %r' % (rec.sid, out.children, regular))
                if rec.exit_time != fails[0][1]:
                    ctx.bad('scope %s: first failure at %s but block ended at %s' % (rec.sid, fails[0][1], rec.exit_time))
        else:
            if out is not None and not (isinstance(out, (Interrupt, GeneratorExit)) and not own_signal(rec, out)):
                ctx.bad('scope %s: no failures but block raised %r' % (rec.sid, out))
            if X is not None and getattr(X, 'token', None) == ('Scope._cancel_self',):
                ctx.bad('scope %s: aborted by _cancel_self without any child failure' % rec.sid)
            if out is None and X is None and rec.kind == 'scope':
                for tr in rec.children:
                    if tr.task is None or tr.volatile:
                        continue
                    st = tr.task.status
                    if st == TaskState.SUCCESS:
                        continue
                    if st == TaskState.CANCELLED and tr.cancel_tokens:
                        continue
                    ctx.bad('scope %s exit normally but child %s is %s' % (rec.sid, tr.name, st))


def final_checks(ctx):
    # nothing of a scope's tasks runs after the scope was left
    last = {}
    for seq, t, name, what in ctx.log:
        last[name] = (seq, t, what)
    for rec in ctx.scopes:
        if rec.exit_seq is None:
            continue
        for name, chain in ctx.act_chain.items():
            if rec in chain and name in last and last[name][0] > rec.exit_seq:
                ctx.violations.append('activity %s runs (%r) after its scope %s was left at seq %s' % (
                    name, last[name], rec.sid, rec.exit_seq))
    for tr in ctx.tasks:
        if tr.task is None:
            continue
        outs = tr.outcomes
        for o in outs[1:]:
            if o is not outs[0] and o != outs[0]:
                ctx.violations.append('task %s awaiters saw %r and %r' % (tr.name, outs[0], o))
        for ct in tr.cancel_times:
            if tr.term is None:
                if tr.started or tr.task.status == TaskState.RUNNING:
                    ctx.violations.append('task %s cancelled at %s but never terminated (%s)' % (tr.name, ct, tr.task.status))
            elif tr.term[1] > ct:
                ctx.violations.append('task %s cancelled at %s but terminated at %s (%s)' % (tr.name, ct, tr.term[1], tr.term[0]))
        if tr.must_not_run and tr.started:
            ctx.violations.append('task %s cancelled before start but ran' % tr.name)


async def root(ctx):
    ctx.flags = [Flag(), Flag()]
    ctx.lock = Lock()
    ctx.queue = Queue()
    ctx.act_chain['root'] = []
    try:
        await scope_op(ctx, 'root', 0, [], forced_kind='root')
    except (KeyError, IndexError, AssertionError, Concurrent) as e:
        ctx.emit('root', 'root ends with %r' % e)


def alarm(*_):
    raise TimeoutError('LIVELOCK?')


def one(seed, opts, verbose=False):
    ctx = Ctx(seed, opts)
    signal.signal(signal.SIGALRM, alarm)
    signal.alarm(10)
    try:
        run(root(ctx))
    except BaseException as e:
        ctx.violations.append('run() raised %r' % e)
        if verbose:
            traceback.print_exc()
    finally:
        signal.alarm(0)
    try:
        final_checks(ctx)
    except Exception as e:
        traceback.print_exc()
    if verbose:
        for l in ctx.log:
            print(l)
    return ctx


if __name__ == '__main__':
    import warnings
    warnings.simplefilter('ignore')
    if len(sys.argv) > 2 and sys.argv[1] == 'show':
        ctx = one(int(sys.argv[2]), {'await_cleanup': bool(os.environ.get('AWAIT_CLEANUP'))}, verbose=True)
        print('\n'.join(ctx.violations))
        sys.exit()
    lo, hi = int(sys.argv[1]), int(sys.argv[2])
    nbad = 0
    for seed in range(lo, hi):
        ctx = one(seed, {'await_cleanup': bool(os.environ.get('AWAIT_CLEANUP'))})
        if ctx.violations:
            nbad += 1
            print('seed', seed, 'ops', len(ctx.log), 'tasks', len(ctx.tasks))
            for v in ctx.violations[:4]:
                print('   ', v)
    print('done', lo, hi, 'bad', nbad)
