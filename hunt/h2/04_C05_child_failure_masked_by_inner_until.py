# Property C05, sentence: "The first failure aborts the body and all remaining
# children within the same time step, so the block ends at the virtual time of
# that failure."
#
# Scenario: an outer Scope has a child that fails at t=5.  The body waits for that
# child inside `async with until(task.done):` and holds something whose release
# awaits in the same time step (library: `Resources.borrow`, whose __aexit__
# postpones; or any user `finally: await ...` that re-raises).
# At t=5 the kernel schedules two signals for the body's activity, in this order:
#   1. the outer scope's cancellation (child failed),
#   2. the inner until-scope's notification (task.done).
# Signal 1 is thrown into the body; while it propagates through the awaiting
# __aexit__/finally, signal 2 is thrown and *replaces* it.  The inner until-scope
# recognises signal 2 as its own and swallows it - the outer cancellation is gone
# and is never re-delivered.
#
# Expected: block ends at t=5 with Concurrent[KeyError]; no body code after the
#           inner block runs; sibling is aborted at t=5.
# Observed: the body continues after the inner block, runs until t=15, the sibling
#           completes, and only then the block raises Concurrent[KeyError] (t=15).
#
# Docs (topics/exceptions.rst) only say interrupts need no special care unless
# one uses catch-all handlers, and "raise at the end of a handler" - which is done
# here (variant B) or not needed at all (variant A uses only library features).
# Confidence: high that this is a genuine defect (a lost signal).
import sys; sys.path.insert(0, '/repo')
import usim
assert usim.__file__.startswith('/repo')
from usim import run, time, Scope, until, eternity, instant, Concurrent, Resources


async def fail_at(delay):
    await (time + delay)
    raise KeyError('child failed at %s' % time.now)


async def sibling(log):
    await (time + 8)
    log.append('sibling completed (should have been aborted at start+5)')


async def variant(name, hold):
    log = []
    start = time.now
    try:
        async with Scope() as scope:
            task = scope.do(fail_at(5))
            scope.do(sibling(log))
            async with until(task.done):
                await hold()
            log.append('body continues after the inner block')
            await (time + 10)
            log.append('body completed')
    except Concurrent as err:
        log.append('block raised %r at t=start+%s (expected: start+5)' % (err, time.now - start))
    print(name)
    for line in log:
        print('   ', line)
    print('    =>', 'VIOLATED' if time.now - start != 5 or len(log) > 1 else 'ok')


async def hold_resources():
    resources = Resources(a=1)
    async with resources.borrow(a=1):   # releasing postpones (same time step)
        await eternity


async def hold_finally():
    try:
        await eternity
    finally:
        await instant                   # graceful cleanup, exception propagates


async def hold_plain():
    await eternity                      # control: no await while unwinding


async def main():
    await variant('A: Resources.borrow inside until(task.done)', hold_resources)
    await variant('B: try/finally with await inside until(task.done)', hold_finally)
    await variant('control: nothing awaits while unwinding', hold_plain)

run(main())
