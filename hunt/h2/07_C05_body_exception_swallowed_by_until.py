# Property C05, sentence: "A scope block ends in exactly one way: without exception,
# with the very exception its own body raised, with a Concurrent exception, or with
# an unwrapped privileged exception".  Range: "failures during graceful shutdown
# ... every interleaving".
# (third symptom of the mechanism shown in 04/05: a signal thrown while something
#  else is unwinding through an awaiting finally/__aexit__ replaces it)
#
# Scenario: the body of `async with until(flag):` raises KeyError while holding
# borrowed resources (release awaits; same with a user `finally: await ...`).  In
# the same time step, while the KeyError unwinds, the flag is set.
# Expected: the block raises the body's KeyError (the notification can at most
#           abort a body that is still running).
# Observed: the until-notification is thrown into the releasing __aexit__, replaces
#           the KeyError, and is then swallowed by the until-scope as its own
#           signal: the block ends WITHOUT exception, the program continues as if
#           the body had not failed.
# Confidence: medium/high (the error of the program's own code is silently lost).
import sys; sys.path.insert(0, '/repo')
import usim
assert usim.__file__.startswith('/repo')
from usim import run, time, Scope, until, Flag, Resources


async def setter(flag):
    await (time + 1)
    await flag.set()


async def main():
    flag, resources = Flag(), Resources(a=1)
    async with Scope() as scope:
        scope.do(setter(flag))
        await instant_sleep()
        try:
            async with until(flag):
                async with resources.borrow(a=1):
                    await (time + 1)        # wakes at t=1, after `setter`
                    raise KeyError('the body failed')
        except KeyError as err:
            print('block raised %r (expected)' % err)
        else:
            print('block ended WITHOUT exception at t=%s: the KeyError is lost -> VIOLATED'
                  % time.now)


async def instant_sleep():
    await (time + 0)

run(main())
