# Property C05, sentence: "A scope block ends in exactly one way: without
# exception, with the very exception its own body raised, with a Concurrent
# exception, or with an unwrapped privileged exception" and "A Concurrent carries
# exactly the exception objects with which direct children of that scope failed".
# Also C03: run() "never ends with ... an internal consistency assertion".
# Range: "every assignment of failure times/types to body and children".
#
# Scenario: a child fails with a program-defined exception derived directly from
# BaseException (not Exception) - like asyncio.CancelledError or a custom "Abort".
# Expected: the block raises Concurrent(<that exception>) (or propagates it) - in
#           any case something the program raised.
# Observed: with assertions enabled the block raises an *internal* AssertionError
#           "'Concurrent' may only be specialised by Exception subclasses, not ..."
#           from Concurrent.__new__ inside Scope.__aexit__; the child's exception
#           object is lost (it is only the __context__).  With `python -O` the very
#           same program yields Concurrent[Abort] - behaviour depends on -O.
# Docs: topics/exceptions.rst names only GeneratorExit/Interrupt (suppressed) and
# SystemExit/KeyboardInterrupt/AssertionError (promoted); every other child
# exception is "collapsed into a single Concurrent".  The type hints of Concurrent
# say children are Exception, and the changelog (changes/69...) mentions "The
# Concurrent exception rejects nested BaseExceptions", so a maintainer may call a
# BaseException-derived child failure unsupported - but nothing tells the user, and
# the resulting AssertionError is privileged, i.e. tears down all enclosing scopes.
# Confidence: medium.
import sys; sys.path.insert(0, '/tmp/hunt2')
import usim
assert usim.__file__.startswith('/tmp/hunt2')
from usim import run, time, Scope, Concurrent

class Abort(BaseException):
    """a program-defined BaseException (like asyncio.CancelledError, trio.Cancelled ...)"""

async def child():
    await (time + 1)
    raise Abort('from child')

async def main():
    async with Scope() as scope:
        scope.do(child())
        await (time + 5)

try:
    run(main())
except BaseException as e:
    print('run() ended with %s: %.80r' % (type(e).__name__, e))
    print('is Concurrent:', isinstance(e, Concurrent), '| is the child exception:', isinstance(e, Abort))
