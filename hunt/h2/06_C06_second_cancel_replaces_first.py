# Property C06, sentences: "cancelling a suspended task raises the cancellation
# inside it at its current suspension point in the same time step and awaiters get
# TaskCancelled carrying the task and the token" / "its outcome never changes once
# it is done" / range "cancel() is called ... repeatedly".
#
# Scenario: task.cancel('first') and task.cancel('second') in the same time step on
# a task whose cleanup awaits within the time step (library: Resources.borrow /
# Capacities.claim release; user: `finally: await instant`).
# Expected (docstring of Task.cancel: "cancelling an activity multiple times is
#           allowed, but only the first successful cancellation is stored as the
#           cancellation cause"): awaiters get TaskCancelled('first'); the cleanup
#           that the first cancellation started runs to its end.
# Observed: the second CancelTask is thrown into the cleanup of the first one and
#           aborts it; awaiters get TaskCancelled('second').  For a task without
#           awaiting cleanup the answer is 'first' - so the token that awaiters see
#           depends on what the payload does while unwinding.
# Confidence: low/medium - a contradiction of the cancel() docstring rather than
# of the letter of C06; same mechanism as 04/05 (a new signal replaces the one
# that is currently unwinding).
import sys; sys.path.insert(0, '/tmp/hunt2')
import usim
assert usim.__file__.startswith('/tmp/hunt2')
from usim import run, time, Scope, eternity, instant, Resources, TaskCancelled

log = []


async def plain():
    await eternity


async def borrowing(resources):
    async with resources.borrow(a=1):
        await eternity


async def graceful():
    try:
        await eternity
    finally:
        log.append('  graceful cleanup begins')
        await instant
        log.append('  graceful cleanup completed')   # never reached


async def main():
    resources = Resources(a=1)
    for payload in (plain(), borrowing(resources), graceful()):
        async with Scope() as scope:
            task = scope.do(payload)
            await (time + 1)
            task.cancel('first')
            task.cancel('second')
            try:
                await task
            except TaskCancelled as err:
                log.append('%s: awaiter got TaskCancelled%r' % (payload.__name__, err.args))

run(main())
print('\n'.join(log))
print('EXPECTED: always (\'first\',) and "graceful cleanup completed"')
