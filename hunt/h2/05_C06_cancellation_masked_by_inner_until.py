# Property C06, sentence: "cancelling a suspended task raises the cancellation
# inside it at its current suspension point in the same time step and awaiters get
# TaskCancelled carrying the task and the token".
# (same root cause as 04: a signal thrown while another signal is unwinding
#  through an awaiting finally/__aexit__ replaces it; an inner until-scope then
#  swallows the replacement and the first signal is lost for good)
#
# Scenario: a task waits inside `async with until(flag):` while holding borrowed
# resources (the release awaits; a user `finally: await ...` does the same).
# In one time step another activity calls task.cancel('stop') and then sets the flag.
# Expected: the task ends CANCELLED at t=1, `await task` raises TaskCancelled('stop').
# Observed: CancelTask is raised in the task, but while the resources are released
#           the until-notification replaces it; the until block swallows that, the
#           task simply continues after the block, runs 10 more time units and
#           ends with status SUCCESS - the cancellation is silently lost.
# Confidence: high (genuine defect; cancel() docs: "may catch and react to
# CancelTask, but should not suppress it" - the payload suppresses nothing).
import sys; sys.path.insert(0, '/repo')
import usim
assert usim.__file__.startswith('/repo')
from usim import run, time, Scope, until, eternity, instant, Flag, Resources, TaskCancelled

log = []


async def worker(flag, resources):
    async with until(flag):
        async with resources.borrow(a=1):   # variant: try: await eternity / finally: await instant
            await eternity
    log.append('worker continues after until-block at t=%s' % time.now)
    await (time + 10)
    log.append('worker finished at t=%s' % time.now)
    return 'survived'


async def main():
    flag, resources = Flag(), Resources(a=1)
    async with Scope() as scope:
        task = scope.do(worker(flag, resources))
        await (time + 1)
        task.cancel('stop')
        await flag.set()
        log.append('t=%s after cancel()+set(): status=%s' % (time.now, task.status))
        try:
            result = await task
        except TaskCancelled as err:
            log.append('awaiter got TaskCancelled%r at t=%s' % (err.args, time.now))
        else:
            log.append('awaiter got result %r at t=%s, status=%s' % (result, time.now, task.status))

run(main())
print('\n'.join(log))
print('EXPECTED: awaiter got TaskCancelled(\'stop\',) at t=1')
print('VIOLATED' if any('survived' in line for line in log) else 'ok')
