# Property C07 (until()/run(till) end the block exactly when the notification fires)
#
# Violated sentence: "If the notification of `async with until(n)` fires [...] while the
# block is still active, the body is abandoned at its next suspension point within that
# same time step" - range: "for every kind of notification (... connectives)".
#
# Scenario: the notification is a connective (a & b, (a & b) | c, ...) of plain flags.
# Another activity makes the connective true while the body is running a loop of
# `await instant` (every iteration is a suspension point).
#
#  (1) LATE: with a plain Flag the body is abandoned at the first suspension point after the
#      flag was set (0 further iterations).  With a connective the subscribers are only
#      notified by an internal "watcher" activity (Connective.__watch_children__) that
#      needs one extra turn per nesting level, so the body passes 1, 2, 3 ... further
#      suspension points (and executes the code between them) although n holds.
#      Expected: 0 surviving iterations for every n.  Observed: = nesting depth.
#
#  (2) MISSED: because the watcher re-checks the connective when it finally gets its turn, a
#      connective that held for a few turns of a time step (set by activity X, reverted
#      by activity Y in its very next turn of the same time step) never interrupts the block at all,
#      whereas a Flag (or a tracked comparison) that is set and reset in exactly the same
#      way does interrupt it.  Expected: both blocks end at time 1.  Observed: the flag
#      block ends at 1, the connective block runs to its natural end at 10.
#
# (Side effect visible below: the watcher of a connective that never fired is never stopped,
#  hence the "Exception ignored in Notification.__del__ ... collected without releasing 1
#  waiting tasks" on stderr at exit; see also 03_*.py.)
#
# Docs: until() only says "This allows notification on any break point"; the glossary says
# "Notifications are only received when the activity is suspended" - nothing declares that
# connectives are slower or level-triggered.
# Confidence: (1) medium-low that this counts as a defect (same time step, the block still
# ends at the right time; but literally the body is not abandoned at its *next* suspension
# point and user code runs that must not run); (2) medium - atoms are edge triggered in
# until(), connectives of the same atoms are not, so `until(a & b)` and `until(a)` disagree.
import sys; sys.path.insert(0, '/tmp/huntD')
import usim
assert usim.__file__.startswith('/tmp/huntD')
from usim import run, time, instant, until, Scope, Flag


async def late(make, label):
    a, b, c, d = Flag(), Flag(), Flag(), Flag()
    n = make(a, b, c, d)
    survived = []

    async def setter():
        await (time + 1)
        await a.set()      # for `a` alone this already makes n true
        await b.set()

    async with Scope() as scope:
        scope.do(setter())
        async with until(n):
            await (time + 1)
            while True:
                held = bool(n)
                await instant          # a suspension point
                if held:               # n held *before* that suspension point ...
                    survived.append(time.now)   # ... and we are still running
    print(f'  until({label:<18}): suspension points passed although n held: '
          f'{len(survived)} (expected 0), block ended at {time.now}')


async def missed(make, label):
    a, b = Flag(), Flag()
    n = make(a, b)

    async def x():       # makes n true at time 1
        await (time + 1)
        await b.set()

    async def y():       # reverts it later in the same time step
        await (time + 1)
        await b.set(False)

    async with Scope() as scope:
        await a.set()
        scope.do(x())
        scope.do(y())
        async with until(n):
            await (time + 10)
    print(f'  until({label:<6}) with n set and reset within time step 1: '
          f'block ended at {time.now} (expected 1)')


print('(1) LATE')
run(late(lambda a, b, c, d: a, 'a'))
run(late(lambda a, b, c, d: a & b, 'a & b'))
run(late(lambda a, b, c, d: (a & b) | c, '(a & b) | c'))
run(late(lambda a, b, c, d: ((a & b) | c) & ~d, '((a & b) | c) & ~d'))
print('(2) MISSED')
run(missed(lambda a, b: b, 'b'))
run(missed(lambda a, b: a & b, 'a & b'))
