# Property C20 (every awaitable operation yields to the other runnable activities)
#
# Violated sentence: "Every operation that waits for, signals, transfers or iterates - [...]
# and leaving a scope block - lets every other activity that is runnable at that time run
# before it completes."  Range: "every state of the primitive in which the operation can
# complete without waiting (flag already set, ... empty scope ...)".
#
# Scenario: an `async with until(n)` block whose notification already holds on entry (or
# fired during the body) and whose body has no suspension point.  During the body another
# activity becomes runnable (started in an *outer* scope, or woken by `task.cancel()`).
# Leaving the block does suspend (Scope.__aexit__ -> Flag.set -> postpone), but the
# CancelScope interrupt of the until-scope was queued at entry, i.e. *before* the
# activities that became runnable during the body, and it ends the suspension at once:
# the block is left and the code behind it runs before those activities had their turn.
#
# Expected (and observed for a plain Scope, and for until(n) with n not fired):
#     other activity runs first, then the code after the block.
# Observed for until(n) with n already true: code after the block runs first.
#
# Nothing in the docs declares this; the glossary states "μSim guarantees that all its
# primitives postpone on asynchronous operations. This ensures that activities are reliably
# and deterministically interwoven." and lists "entering/exiting an async with block".
# Confidence: medium-low.  The exit does hibernate once, so a loop of such blocks cannot
# starve anybody (everything queued before the *entry* gets its turn); but the literal
# statement - every activity runnable when the block is left runs before leaving completes -
# does not hold in this state, unlike every other already-satisfied operation I checked
# (73 operations in _hunt/scratch/c20.py).
import sys; sys.path.insert(0, '/repo')
import usim
assert usim.__file__.startswith('/repo')
from usim import run, time, instant, eternity, until, Scope, Flag, TaskCancelled


async def scenario(label, make_block):
    log = []
    await set_flag.set()     # (a suspension point well before the block under test)

    async def other():
        log.append('other ran')

    async with Scope() as outer:
        async with make_block():
            outer.do(other())        # runnable from now on, not a child of the block
        log.append('left block')     # leaving must let `other` run first
    print(f'  {label:<34}: {log}')


async def scenario_cancel():
    log = []

    async def victim():
        try:
            await eternity
        except BaseException:
            log.append('victim saw its cancellation')
            raise

    async with Scope() as outer:
        task = outer.do(victim())
        await (time + 1)
        async with until(instant):
            task.cancel()            # victim is runnable (with a signal) from now on
        log.append('left block')
    print(f'  {"until(instant) + task.cancel()":<34}: {log}')


set_flag = Flag()
print('expected everywhere: other activity first, then "left block"')
run(scenario('Scope()', Scope))
run(scenario('until(eternity)  [not fired]', lambda: until(eternity)))
run(scenario('until(instant)   [holds on entry]', lambda: until(instant)))
run(scenario('until(set flag)  [holds on entry]', lambda: until(set_flag)))
run(scenario('until(time >= 0) [holds on entry]', lambda: until(time >= 0)))
run(scenario_cancel())
