# Property C07 (until()/run(till) end the block exactly when the notification fires)
#
# Violated sentences: "... the body is abandoned ..., its children are closed, and the block
# ends" and "`run(..., till=T)` executes nothing at a virtual time later than T."
# (garbage collection timing; related to, but a different symptom than, known F11 "first()
# holds a Scope across `yield`".)
#
# Scenario: a child of an until-scope (or a root activity of `run(..., till=5)`) iterates
# `first(a(), b())` and is suspended waiting for the first result when the scope is closed.
# The only unusual ingredient: the iterator object returned by `first(...)` is referenced
# from somewhere that outlives the task (here a list; an attribute of a model object, or a
# reference cycle through a stored exception/traceback that is only broken by the cyclic GC,
# do the same).
#
# Scope closes its children with `coroutine.close()`.  On CPython 3.12 closing a coroutine
# that is suspended in `await agen.__anext__()` does NOT unwind the async generator (only
# the awaitable is marked closed); the generator is unwound when it is garbage collected.
# usim knows this (comment in _core/loop.py Activation.__bool__: "a wake-up ... owned by a
# not yet finalised async generator") but `first()` keeps a whole Scope with running
# children in such a generator.  So the contestants are not closed with the consumer:
#
# Expected: with till=5 / until(time + 5) nothing runs after time 5; the contestants are
#           closed at 5 (this is what happens when the iterator is not referenced elsewhere).
# Observed: the contestants survive their closed consumer, run to completion and execute
#           user code at time 10 - after the until block ended, and later than `till`.
#
# The same mechanism leaves a Queue's read mutex locked for ever when a closed task was
# suspended in `async for x in it` with `it = queue.__aiter__()` kept alive (other consumers
# never receive anything; see _hunt/scratch/q_iter_leak.py).
#
# Docs: nothing about this; Scope.do() promises "GeneratorExit is raised in the activity" for
# closed activities and run() documents `till` as the "time at which to terminate the
# simulation".
# Confidence: medium.  Genuine and observable through the public API, but it needs the
# iterator to stay referenced (or sit in a reference cycle), and the root cause overlaps
# with F11 (a Scope inside an async generator).
import sys; sys.path.insert(0, '/tmp/huntD')
import usim
assert usim.__file__.startswith('/tmp/huntD')
from usim import run, time, until, first

keep = []          # stands for any object that outlives the consumer task


async def contestant(i, log):
    await (time + 10)
    log.append(f'contestant {i} executes user code at {time.now}')
    return i


async def consumer(log, keep_reference):
    results = first(contestant(1, log), contestant(2, log))
    if keep_reference:
        keep.append(results)
    async for winner in results:
        log.append(f'winner {winner} at {time.now}')


async def with_until(log, keep_reference):
    async with until(time + 5) as scope:
        scope.do(consumer(log, keep_reference))
    log.append(f'until block ended at {time.now}, its children are closed')
    await (time + 20)


for keep_reference in (False, True):
    print('iterator of first() referenced elsewhere:', keep_reference)
    log = []
    run(consumer(log, keep_reference), till=5)
    print('  run(consumer(), till=5)        ->', log or 'nothing after 5 (expected)')
    log = []
    run(with_until(log, keep_reference))
    print('  child of until(time + 5) block ->', log)
