# Property C07 (until()/run(till)), also touching C08/C20 - sequences of several runs
#
# Violated sentence (C07): "If the body and its children finish first, n has no further
# effect on the activity."  (and C20: "setting a flag ... lets every other activity ... run
# before it completes" - here setting the flag makes the whole run fail instead.)
#
# Scenario: a first simulation uses `async with until(a | b)` (or awaits a nested connective
# such as `(a & b) | c`); the block ends normally before the connective ever holds and
# the run ends cleanly.  The flags live on (module level / a model object that is used for
# several runs - just like the time condition objects whose reuse across runs was fixed).
# A second simulation merely does `await a.set()`.
#
# Expected: the second run works like the first; the finished block of run 1 has no effect.
# Observed: run 2 dies with
#     AssertionError: Break points cannot be passed to other coroutines
# raised out of usim.run().  Cause: subscribing to a connective starts an internal watcher
# activity (Connective.__watch_children__) as a bare coroutine.  Nobody ever stops it when
# the subscriber leaves, so it stays subscribed to the flags after the block and after the
# run.  `a.set()` in run 2 schedules that stale coroutine into the new loop; its
# subscriptions still refer to the loop of run 1 (`assert task is loop.activity` in
# Notification.__subscription__ compares with the dead loop whose activity is None).
# It only "works" under `python -O` (assertion stripped) or when the flag that is set is
# the last child the watcher subscribed to (`await b.set()` instead of `a`).
# Within a single run the same leftover watcher shows as stderr noise at garbage collection
# ("RuntimeError: <Flag ...> collected without releasing 1 waiting tasks") and as one more
# permanent subscriber of every flag per `until(a | b)` executed.
#
# Docs: nothing says that conditions/flags may not be used in a later run; usim.run() can be
# called repeatedly and Flag/Tracked are plain objects.
# Confidence: medium-high that this is a genuine defect (clean first run, public API only,
# crash with an internal assertion in an unrelated later run).
import sys; sys.path.insert(0, '/tmp/huntD')
import usim
assert usim.__file__.startswith('/tmp/huntD')
from usim import run, time, until, Flag

a, b = Flag(), Flag()


async def first_run():
    async with until(a | b):      # never fires, the body finishes first
        await (time + 1)
    print('run 1: block ended normally at', time.now)


async def second_run():
    await (time + 1)
    await a.set()
    print('run 2: flag set at', time.now)
    await (time + 1)
    print('run 2: finished at', time.now)


run(first_run())
print('run 1 returned without error')
print('expected: run 2 sets the flag at 1 and finishes at 2')
try:
    run(second_run())
except BaseException as err:
    print('observed: run 2 raised %s: %s' % (type(err).__name__, err))
else:
    print('observed: run 2 finished')
