# Property C07 (until() ends the block exactly when the notification fires, else never),
# range "for every kind of notification (delay, ..., flags, ..., connectives)"; also C08
# ("`a | b` ... are and/or/not").
#
# Violated sentence: "Hence the block ends at the earlier of the trigger time and its own
# completion time" / "If the body and its children finish first, n has no further effect".
#
# Scenario: the natural "until the flag is set, but at most 5 time units" written as
#     async with until(flag | (time + 5)): ...
# A delay is not a Condition, and the library means to reject this: `(time + 5) | flag`
# raises TypeError("Operator | not supported for delays ... use 'time == time.now + delay'").
# But the guard only exists on Delay; with the operands the other way round,
# Condition.__or__ builds Any(flag, Delay(5)) without complaint.  bool(Delay) is the default
# object truthiness (True), so this "condition" holds always:
#   * `async with until(flag | (time + 5))` is interrupted immediately (time 0), although the
#     flag is never set and neither 5 time units nor the body's 3 time units have passed;
#   * `await (flag | (time + 5))` returns at once;
#   * `flag & (time + 5)` silently means just `flag`.
# Expected: TypeError as for `(time + 5) | flag` (or a block that ends at 3).
# Observed: silently wrong simulation.
#
# Docs (Delay docstring): "A Delay does not form a Condition ... If a Condition is required,
# use `time == time.now + duration` instead" and the source comment "We could debug-protect
# against misuse of bool(time + 3) but that would lead to observably different behaviour."
# So combining a delay is declared unsupported - what I report is only that the declared
# rejection is one-sided and the other side silently computes nonsense.
# Confidence: low-medium (API misuse by the letter of the docs, but undetected and the
# most natural spelling of "flag or timeout").
import sys; sys.path.insert(0, '/tmp/huntD')
import usim
assert usim.__file__.startswith('/tmp/huntD')
from usim import run, time, until, Flag


async def main():
    flag = Flag()
    try:
        (time + 5) | flag
    except TypeError as err:
        print('(time + 5) | flag   -> TypeError:', str(err).splitlines()[0])
    n = flag | (time + 5)
    print('flag | (time + 5)   ->', n, ' bool() =', bool(n))
    async with until(flag | (time + 5)):
        await (time + 3)
    print('until(flag | (time + 5)) with a body of 3 ended at', time.now,
          '(expected 3, or a TypeError)')
    await (flag | (time + 5))
    print('await (flag | (time + 5)) returned at', time.now, '(expected 5, or a TypeError)')

run(main())
