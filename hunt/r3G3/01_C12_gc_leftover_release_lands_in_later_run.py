# Property: C12 (also C09/C10 by the same mechanism: Lock.__release__, Pipe._del_subscriber)
#   "Whatever a block borrowed is returned when the block is left by any route - ... forceful close"
#   together with the range item "several runs in sequence in one process / garbage collection timing".
#
# Scenario: two completely independent simulations run one after the other in one process.
# Nothing of the first is used in the second. The first ends, as usim runs do, when no event is
# left - with one activity blocked inside a borrow block and one waiting for that resource.
# Both are unreachable garbage (reference cycles) afterwards. When the cyclic collector later
# frees the holder *during the second run*, its forceful close hands the resources back through
#     __USIM_STATE__.loop.schedule(...)                      (BorrowedResources.__aexit__)
# i.e. through whatever simulation happens to be current: the helper activities run inside the
# SECOND simulation, raise the level of the first simulation's resources there, and wake the
# first simulation's waiter - which then executes inside the second simulation (prints, sleeps,
# raises). If the holder is collected while no simulation is active the hand-back fails
# altogether (RuntimeError ... active usim event loop, swallowed by the finaliser).
#
# Expected: a forceful close gives the amount back without running anything in an unrelated
#           simulation; the second run executes only its own activities and ends at t=1.
# Observed: the first run's waiter is resumed inside the second run at t=0 (its clock), keeps the
#           second run going until t=100 and makes usim.run() of the second simulation raise the
#           leftover's exception. (In the wild, seen as "AssertionError: Break points cannot be
#           passed to other coroutines" from usim/_primitives/notification.py killing an
#           unrelated run: `fuzz_sink.py 36000 294` in this directory reproduces that without
#           any explicit gc call - 3 of ~12000 consecutive random simulations were hit.)
#
# The two explicit gc calls below only make deterministic what the automatic generational
# collector does on its own (young garbage is freed before old garbage): gc.collect() ages the
# waiter, gc.collect(0) is an ordinary young-generation pass.
#
# Confidence: medium that this counts. The mechanism is real and crashes unrelated runs rarely and
# irreproducibly (parameter sweeps in one process). It is adjacent to the known item "leftovers
# act or get garbage-collected inside the later run", but that item is about objects which the
# later run USES AGAIN; here no object is shared between the runs.
import sys; sys.path.insert(0, '/tmp/huntG3')
import gc
import usim
from usim import Resources, Flag, time
assert usim.__file__.startswith('/tmp/huntG3')

gc.disable()     # only to keep the automatic collector from interfering with the demonstration


def first_simulation():
    res = Resources(a=1)

    async def waiter():
        async with res.borrow(a=1):          # has to wait: the holder has it
            print('   !! waiter of the FIRST simulation got its resource at t =', time.now,
                  'of the SECOND simulation')
            await (time + 100)
            raise RuntimeError('raised by a leftover of the first simulation')

    async def holder():
        async with res.borrow(a=1):
            await Flag()                     # blocked for good on a flag nobody else knows

    w = waiter()
    gc.collect()                             # the waiter is now "old" for the collector
    h = holder()                             # the holder (and all it creates) stays "young"
    usim.run(h, w)
    print('first simulation ended; levels', res.levels)


def second_simulation():
    async def ticker():
        print('   second simulation starts at t =', time.now)
        gc.collect(0)                        # a young-generation pass, as happens automatically
        await (time + 1)
        print('   second simulation: its only activity is done at t =', time.now)

    usim.run(ticker())
    print('second simulation ended normally')


first_simulation()
try:
    second_simulation()
except BaseException as err:
    print('second simulation raised %r' % err)
