# Property: C20  "Every operation that waits for, signals, ... awaiting any notification ... and
#   leaving a scope block - lets every other activity that is runnable at that time run before
#   it completes."
#
# Scenario: `async with until(n)` whose notification already holds on entry (documented: the
# block then ends at its first break point). The body makes another activity runnable (spawns a
# task in an enclosing scope; `task.cancel()` would do as well) and then reaches its first break
# point, `await instant`.
# The interrupt of the block was queued on ENTRY, i.e. ahead of what the body made runnable.
# It is delivered at the break point: `await instant` is aborted (it never completes), and the
# block is left on the exception path of Scope.__aexit__, which does not postpone. So neither
# the one awaitable operation in the body nor leaving the block lets the spawned activity run:
# the code behind the block runs first.
#
# Expected (C20; and by analogy with fix 9edde97 "leaving an until-block whose interrupt arrives
#           during the exit still lets runnable activities run", which repaired exactly this
#           symptom for a body WITHOUT a break point):
#           'child runs' before 'code behind the block'
# Observed: body with no break point : child runs, then code behind the block        (fixed case)
#           body with one break point: code behind the block, then child runs        (this case)
#
# Confidence: low-medium. The activity never monopolises the loop (each round trip still costs
# one activation at the back of the queue), so the "cannot starve" consequence holds; what breaks
# is the literal ordering promise for "leaving a scope block". One may argue the block is left
# "by exception" (its own interrupt), which _KNOWN.md lists as not a defect for failing scopes -
# but an until-block ending by its notification is its regular way to end, and the sibling case
# was treated as a defect.
import sys; sys.path.insert(0, '/tmp/huntG3')
import usim
from usim import Scope, Flag, until, instant
assert usim.__file__.startswith('/tmp/huntG3')

log = []


async def child():
    log.append('child runs')


async def main(break_point: bool):
    flag = Flag()
    await flag.set()
    async with Scope() as outer:
        async with until(flag):               # holds on entry
            outer.do(child())                 # runnable from here on
            if break_point:
                await instant                 # first break point: the block ends here
                log.append('NOT REACHED')
        log.append('code behind the block')


for break_point in (False, True):
    log.clear()
    usim.run(main(break_point))
    print('body with %s break point:' % ('one' if break_point else 'no'), log)
    print('   ->', 'ok' if log.index('child runs') < log.index('code behind the block')
          else 'VIOLATION: the block was left before the runnable child got its turn')
