# Property C02
#
# Violated sentence:
#   "Running the same program always produces the same sequence of observable
#    events (which activity does what, at which time, in which order).  The
#    sequence does not depend on the process, hash seed, memory layout, unrelated
#    allocations, the wait-queue backend (USIM_WAITQUEUE) ..."
#   (range: "the whole public API (... resources ... scopes ...) and every pair of
#    configurations {process, PYTHONHASHSEED, heap perturbation, USIM_WAITQUEUE}";
#    the task lists "sequences of several runs" and "garbage collection timing")
#
# Scenario:
#   run() returns as soon as no activation is queued.  Activities that are still
#   suspended at that point (here: a worker that waits for more jobs on a queue
#   nobody closes - run 1 ends NORMALLY) are not ended by run(); they are left to
#   the garbage collector.  A Task and its runner coroutine form a reference
#   cycle, so only the *cyclic* collector finalises them - at an
#   allocation-dependent moment, possibly in the middle of a LATER run().
#   Finalisation throws GeneratorExit into the leftover activity, and its
#   clean-up (BorrowedResources.__aexit__ -> `__USIM_STATE__.loop.schedule(...)`,
#   likewise Lock release, Pipe un-subscription, closing a Scope's children) acts
#   on whatever loop is current then: the loop of the later simulation.
#
#   Run 1: a worker borrows 2 of the 4 cores of a pool for as long as it serves
#          jobs from a queue.  The queue is never closed.  run() returns normally.
#   Run 2: (same pool, e.g. next point of a parameter scan) a job asks for 4 cores.
#
# Expected: an outcome that is a function of the program alone.  Either the cores
#   are back when run 1 has ended (job starts at 0) or they stay lost (job never
#   starts).  Capacities: "guarantees that its resources are conserved and cannot
#   be leaked.  Once resources are borrowed, they can always be returned promptly."
# Observed: the cores come back at the virtual time at which the collector happens
#   to run inside run 2.  The printed time changes with the amount of UNRELATED
#   allocations N, and with the wait-queue backend (this machine, Python 3.12):
#       N=0 -> 29   N=50 -> 7   N=400 -> 2     USIM_WAITQUEUE=SD, N=0 -> differs again
#   (If the collector runs between the two runs instead, the clean-up fails with
#   "RuntimeError: field 'schedule' can only be accessed with an active usim event
#   loop", printed as 'Exception ignored', and the cores never come back.)
#   The same happens when run 1 is ended by an exception of another root activity.
#
# Confidence: medium.  Only valid API calls; nothing in the docs forbids using a
# Capacities in two runs.  Root cause: run() relies on the garbage collector to end
# leftover activities instead of closing them itself before it returns.
import sys; sys.path.insert(0, '/tmp/huntA')
import usim
assert usim.__file__.startswith('/tmp/huntA')
from usim import run, time, Scope, Capacities, Queue

N = int(sys.argv[1]) if len(sys.argv) > 1 else 0
pool = Capacities(cores=4)


async def worker(queue):
    async with pool.borrow(cores=2):   # the worker owns its cores while it serves jobs
        async for job in queue:
            await (time + job)


async def first_simulation():
    queue = Queue()
    async with Scope() as scope:
        scope.do(worker(queue))
        for job in (1, 2, 3):
            await queue.put(job)
        # the queue is never closed: the worker waits for more jobs forever


run(first_simulation())
print('run 1 ended normally; pool has', pool.levels.cores, 'of 4 cores')


async def big_job():
    print('run 2: big job asks for 4 cores at', time.now)
    async with pool.borrow(cores=4):
        print('run 2: big job got 4 cores at', time.now,
              ' <-- changes with N (unrelated allocations)')


async def unrelated():
    junk = []
    for _ in range(50):
        await (time + 1)
        junk.append([[j] for j in range(N)])   # unrelated allocations


run(big_job(), unrelated())
print('run 2 ended; pool has', pool.levels.cores, 'of 4 cores')
