# Property C03 (and C02 for the -O clause)
#
# Violated sentences:
#   C03: "For every program that only makes valid API calls, run() ends either
#         normally or with an exception object that the program's own code raised.
#         It never ends with ... an internal consistency assertion ..."
#   C02: "The sequence does not depend on ... assertion mode (python -O, for
#         programs that violate no usage assertion)."
#
# Scenario (range: "sequences of several runs", flags, until, connectives):
#   Two module-level flags are used by two consecutive simulations.
#   Run 1 guards a block with `until(stop | pause)`; neither flag is set, the
#   block ends by itself, run 1 ends NORMALLY.
#   `until(<connective>)` spawns an internal helper activity
#   (Connective.__watch_children__) that subscribes to the children.  Nothing
#   ever ends that helper when the until-block is left, so it survives run 1,
#   still subscribed to both flags.
#   Run 2 merely sets one of the flags.  Flag.set() wakes the stale helper of
#   run 1 inside the loop of run 2; its subscription context managers captured
#   the loop of run 1 and trip the internal assertion
#   'Break points cannot be passed to other coroutines' -> run 2 dies with an
#   AssertionError that no user code raised.
#
# Expected: run 2 prints "run 2: stop set at 2" and ends normally.
# Observed: run 2 ends with AssertionError (default mode);
#           under `python -O` it ends normally -> the outcome depends on -O.
#
# Docs: nothing forbids using a Flag in more than one run(); the fixed defect
# "time condition objects reused across runs" shows that re-use across runs is
# meant to work.  Run 1 ends normally, so this is not about a failed run.
# Confidence: medium-high that this is a genuine defect (internal helper
# activity leaks out of its until-scope and out of its simulation).
import sys; sys.path.insert(0, '/tmp/huntA')
import usim
assert usim.__file__.startswith('/tmp/huntA')
from usim import run, time, Flag, until

stop, pause = Flag(), Flag()


async def first_simulation():
    async with until(stop | pause):
        await (time + 3)
    print('run 1: block done at', time.now)


async def second_simulation():
    await (time + 2)
    await stop.set()
    print('run 2: stop set at', time.now)


run(first_simulation())
print('run 1 ended normally')
try:
    run(second_simulation())
except BaseException as err:
    print('run 2 ended with %s: %s' % (type(err).__name__, err))
    print('VIOLATION: internal assertion ended the run (expected normal end)')
else:
    print('run 2 ended normally')
