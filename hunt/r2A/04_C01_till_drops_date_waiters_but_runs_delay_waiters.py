# Property C01
#
# Violated sentences:
#   "all work scheduled for a time t runs before the clock moves past t."
#   "one that waits for a date t resumes exactly at t (`time == t`, `time >= t`,
#    `scope.do(..., at=t / after=d)`)"
#   (range: "every mix and nesting of delays/dates/instants (including equal ...
#    dates), every start time and every interleaving of the activities")
#
# Scenario: run(..., till=5) with five activities that all wait for the date 5,
#   using the five idioms the property lists as equivalent ways to wait for a date.
#
# Expected: `till` is "time at which to terminate the simulation" (docstring of
#   run).  Whether the time step 5 itself is still simulated is not documented,
#   but it has to be one or the other: either all five resume at 5, or none does.
# Observed: the time step 5 IS simulated for the activities waiting by
#   `time + 5`, `do(at=5)` and `do(after=5)` (they resume at 5), but the
#   activities waiting by `time == 5` and `time >= 5` never resume, although the
#   clock reads exactly 5 while the others run.  (The wake-up of a date condition
#   takes one extra hop through an internal trigger activity and is therefore
#   queued behind the interrupt of the till-scope, which is queued behind the
#   direct wake-ups.)  Without `till` all five resume at 5.
#
# Not the known F13/F29/F30 (those are about what run(till) reports).
# Confidence: medium-low.  The inclusive/exclusive meaning of `till` is
# undocumented, so "none resumes" would be defensible; the mixture is not.
import sys; sys.path.insert(0, '/tmp/huntA')
import usim
assert usim.__file__.startswith('/tmp/huntA')
from usim import run, time, Scope

resumed = []


async def by_delay():
    await (time + 5)
    resumed.append(('time + 5', time.now))


async def by_moment():
    await (time == 5)
    resumed.append(('time == 5', time.now))


async def by_after():
    await (time >= 5)
    resumed.append(('time >= 5', time.now))


async def note(what):
    resumed.append((what, time.now))


async def by_start_date():
    async with Scope() as scope:
        scope.do(note('do(at=5)'), at=5)
        scope.do(note('do(after=5)'), after=5)


def show(title):
    print(title)
    for what in ('time + 5', 'time == 5', 'time >= 5', 'do(at=5)', 'do(after=5)'):
        when = [t for w, t in resumed if w == what]
        print('   %-12s %s' % (what, 'resumed at %s' % when[0] if when else 'NEVER resumed'))
    resumed.clear()


run(by_delay(), by_moment(), by_after(), by_start_date())
show('without till:')
run(by_delay(), by_moment(), by_after(), by_start_date(), till=5)
show('with till=5:')
