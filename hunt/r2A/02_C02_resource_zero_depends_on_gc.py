# Property C02
#
# Violated sentence:
#   "Running the same program always produces the same sequence of observable
#    events ... The sequence does not depend on the process, hash seed, memory
#    layout, unrelated allocations ..."  (range: "... resources ... heap perturbation")
#
# Scenario:
#   usim._basics._resource_level.__specialise__ caches the generated
#   ResourceLevels class in a *WeakValueDictionary keyed by the field names only*;
#   the `zero` (default level / type of amounts) is not part of the key.
#   A short-lived, unrelated supply with the same field names but float amounts
#   (`Resources(cores=0.5, memory=1.5)`) leaves its class (classes are only freed
#   by the cyclic garbage collector) in the cache.  Whether a later
#   `Capacities(cores=4, memory=16)` gets integer or float zeros therefore depends
#   on whether a garbage collection happened in between, i.e. on the number of
#   unrelated allocations.
#
# Expected: the int supply reports int levels (cores=2, memory=0 ...), always.
# Observed: without an intervening collection the levels silently become floats
#           (`memory=0.0`, `cores=2.0`, `memory=16.0`); with unrelated allocations
#           in between (which trigger the collector) they are ints.  Code such as
#           `range(borrowed.levels.cores)` works or raises TypeError accordingly.
#
# Run:  python 02_...py        -> float levels
#       python 02_...py 2000   -> 2000 unrelated container allocations -> int levels
#
# Docs: ResourceLevels says "missing resource are set to zero", Resources(__zero__)
# derives zero from the type of the given amounts - nothing says it may be taken
# from another supply.  Confidence: high that the cache key is a genuine defect;
# medium that it counts under C02 (what differs is the type/printed form of levels,
# not the schedule).
import sys; sys.path.insert(0, '/tmp/huntA')
import usim
assert usim.__file__.startswith('/tmp/huntA')
from usim import run, Resources, Capacities

N = int(sys.argv[1]) if len(sys.argv) > 1 else 0


def unrelated_earlier_code():
    # e.g. a helper or a unit test that ran earlier in the same process
    return Resources(cores=0.5, memory=1.5).levels.cores


async def main():
    pool = Capacities(cores=4, memory=16)
    async with pool.borrow(cores=2) as mine:
        print('borrowed:', dict(mine.levels), '| left:', dict(pool.levels))
        try:
            print('one work item per core:', list(range(mine.levels.cores)))
        except TypeError as err:
            print('TypeError:', err)


unrelated_earlier_code()
junk = [[i] for i in range(N)]   # unrelated allocations (may trigger the collector)
run(main())
