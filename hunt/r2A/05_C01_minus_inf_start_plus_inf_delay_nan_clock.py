# Property C01 (and C03 as a consequence)
#
# Violated sentences:
#   C01: "The simulation clock never decreases ... An activity that waits for a
#         delay d resumes when the clock reads exactly (clock at the wait + d)"
#        (range: "... including equal, zero, past and infinite dates), every start
#         time ...")
#   C03: "never ends with ... an internal consistency assertion"
#
# Scenario: run(start=-inf); one activity waits `time + inf`, another one waits
#   for the date 10.
#   Loop.schedule computes the wake-up date as `self.time + delay` = -inf + inf
#   = nan and pushes it into the wait queue.  nan is unordered:
#   the clock becomes nan, `time >= x` is False for every x from then on, and the
#   next attempt to schedule a date trigger trips the kernel assertion
#   "schedule date must not be in the past".
#
# Expected: the infinite delay ends at +inf (or the call is rejected up front);
#   the clock is totally ordered and every activity's date is honoured.
# Observed: the delay of inf resumes with the clock reading nan - the nan step is
#   even taken BEFORE the pending date 10 (nan does not order in the heap / sorted
#   dict), so the waiter for date 10 has not run yet - and run() then ends with
#   AssertionError('schedule date must not be in the past').
#
# Confidence: low.  Infinite dates and delays are otherwise supported
# (start=0 with time + inf, time == inf, do(at=inf), interval(inf) all behave),
# and `start` is documented only as "initial time of the simulation", but a start
# of -inf is a far-fetched argument.  Listed for completeness.
import sys; sys.path.insert(0, '/tmp/huntA')
import math
import usim
assert usim.__file__.startswith('/tmp/huntA')
from usim import run, time


async def forever():
    t0 = time.now
    await (time + math.inf)
    print('delay of inf from', t0, 'resumed at', time.now, '(expected inf)')
    await (time >= 20)
    print('never printed')


async def dated():
    await (time == 10)
    print('waiter for date 10 resumed at', time.now)


try:
    run(forever(), dated(), start=-math.inf)
except BaseException as err:
    print('run ended with %s: %s' % (type(err).__name__, err))
