import sys; sys.path.insert(0, '/tmp/hunt3')
import faulthandler; faulthandler.dump_traceback_later(100, exit=True)
import random, os
import usim
assert usim.__file__.startswith('/tmp/hunt3')
from usim import run, time, Scope, Flag, Tracked, instant, eternity, until, Resources

def build(rng, atoms, depth):
    if depth == 0 or rng.random() < 0.3:
        c = rng.choice(atoms)()
    else:
        k = rng.choice([2, 2, 3])
        kids = [build(rng, atoms, depth - 1) for _ in range(k)]
        if rng.random() < 0.3:
            kids.append(kids[0])  # shared child
        c = kids[0]
        op = rng.choice('&|')
        for kid in kids[1:]:
            c = (c & kid) if op == '&' else (c | kid)
    if rng.random() < 0.25:
        try:
            c = ~c
        except NotImplementedError:
            pass
    return c

def one(seed):
    rng = random.Random(seed)
    start = rng.choice([0, -3, 0.5])
    problems = []
    async def main():
        flags = [Flag() for _ in range(3)]
        tr = [Tracked(0), Tracked(1)]
        res = Resources(a=2, b=2)
        async with Scope() as scope:
            tasks = [scope.do(time + rng.choice([1, 2, 3, 4]), volatile=True) for _ in range(2)]
            pool = []  # shared condition objects
            atoms = [
                lambda: rng.choice(flags),
                lambda: ~rng.choice(flags),
                lambda: rng.choice(tr) > rng.choice([0, 1, 2]),
                lambda: rng.choice(tr) == rng.choice([0, 1, 2]),
                lambda: tr[0] < tr[1],
                lambda: tr[0] >= tr[1],
                lambda: rng.choice(tasks).done,
                lambda: time >= start + rng.choice([0, 1, 2, 3, 5]),
                lambda: time < start + rng.choice([0, 1, 2, 3, 5]),
                lambda: time == start + rng.choice([0, 1, 2, 3, 5]),
                lambda: res >= dict(a=rng.choice([0, 1, 2, 3])),
                lambda: res.levels.__class__ and (res < dict(a=rng.choice([1, 2, 3]), b=3)),
                lambda: (rng.choice(pool) if pool else rng.choice(flags)),
            ]
            for _ in range(4):
                pool.append(build(rng, atoms, 2))
            waiters = []
            async def waiter(i, c, mode):
                rec = waiters[i]
                if mode == 'await':
                    await c
                    rec['done'] = time.now
                    rec['val'] = bool(c)
                else:
                    async with until(c):
                        await eternity
                    rec['done'] = time.now
                    rec['val'] = None
            def spawn():
                c = rng.choice(pool) if rng.random() < 0.6 else build(rng, atoms, 3)
                mode = 'await' if rng.random() < 0.8 else 'until'
                waiters.append({'c': c, 'done': None, 'mode': mode, 'born': time.now})
                scope.do(waiter(len(waiters) - 1, c, mode), volatile=True)
            for _ in range(rng.randint(1, 4)):
                spawn()
            for step in range(7):
                for _ in range(rng.randint(0, 4)):
                    r = rng.random()
                    if r < 0.4:
                        await rng.choice(flags).set(rng.random() < 0.5)
                    elif r < 0.7:
                        await rng.choice(tr).set(rng.choice([0, 1, 2]))
                    elif r < 0.8:
                        await res.set(a=rng.choice([0, 1, 2, 3]))
                    elif r < 0.9:
                        spawn()
                    else:
                        await instant
                for _ in range(60):
                    await instant
                for i, w in enumerate(waiters):
                    if w['done'] is None and bool(w['c']):
                        problems.append((seed, 'left waiting', i, w['mode'], str(w['c']), time.now, 'born', w['born']))
                    if w['done'] is not None and w['val'] is False:
                        problems.append((seed, 'completed while false', i, str(w['c']), w['done']))
                        w['val'] = None
                await (time + 1)
    run(main(), start=start)
    return problems

if __name__ == '__main__':
    lo, hi = int(sys.argv[1]), int(sys.argv[2])
    for seed in range(lo, hi):
        try:
            p = one(seed)
        except Exception as e:
            print('seed', seed, 'EXC', type(e).__name__, e)
            continue
        for x in p[:3]:
            print(x)
