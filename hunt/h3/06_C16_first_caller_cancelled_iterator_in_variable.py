# Property : C16
# Sentence : "`first(..., count=k)` ... aborts the activities still running at that moment so
#            that none of their code runs afterwards."  Range: "... every consumer behaviour
#            (slow consumer, early break, cancellation of the caller)".
# Scenario : the caller keeps the iterator in a local variable (`results = first(...)`,
#            `async for winner in results:`) and is cancelled while it is in its loop body.
# Expected : when the caller is cancelled (time 2) the contestants still running are aborted
#            (this is what happens when the caller is cancelled while it waits *inside* the
#            iterator, and when `first(...)` is written directly in the `async for`).
# Observed : the loser is not aborted at all - it runs all its remaining steps (times 3, 6,
#            9). first() only aborts contestants when its generator is closed; here the
#            suspended generator stays alive as long as the cancelled Task object does
#            (Task._result -> TaskCancelled.__cause__ (CancelTask) -> traceback -> frame ->
#            local variable), i.e. until the *parent scope* ends and drops the Task.
#            Whether and when the losers stop therefore depends on reference lifetimes /
#            garbage collection, not on the program's semantics.
# Docs     : nothing in first()'s docs asks the caller to `aclose()` the iterator.
# Confidence: medium-low (root cause is the general "async generator cleanup" problem; but it
#            is in the stated range and first() could own its contestants differently).
import sys; sys.path.insert(0, '/tmp/hunt3')
import faulthandler; faulthandler.dump_traceback_later(25, exit=True)
import usim
assert usim.__file__.startswith('/tmp/hunt3'), usim.__file__
from usim import run, time, first, Scope

log = []


async def contestant(name, period, steps):
    try:
        for i in range(steps):
            await (time + period)
            log.append('%s step %d @%s' % (name, i, time.now))
        return name
    finally:
        log.append('%s exits @%s' % (name, time.now))


async def caller_direct():
    async for winner in first(contestant('fast', 1, 1), contestant('slow', 3, 3), count=2):
        log.append('caller got %s @%s' % (winner, time.now))
        await (time + 100)


async def caller_variable():
    results = first(contestant('fast', 1, 1), contestant('slow', 3, 3), count=2)
    async for winner in results:
        log.append('caller got %s @%s' % (winner, time.now))
        await (time + 100)


async def main(caller):
    async with Scope() as scope:
        task = scope.do(caller())
        await (time + 2)
        task.cancel()
        log.append('caller cancelled @%s' % time.now)
        await (time + 20)

for caller in (caller_direct, caller_variable):
    log.clear()
    run(main(caller))
    print(caller.__name__, log)
print('expected for both: "slow exits @2", no "slow step" after the cancellation at 2')
