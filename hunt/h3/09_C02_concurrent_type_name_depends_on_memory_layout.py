# Property : C02 "The trace is a function of the program alone"
# Sentence : "Running the same program always produces the same sequence of observable events
#            ... The sequence does not depend on the process, hash seed, memory layout,
#            unrelated allocations ...".
# Scenario : three children of a Scope fail at the same time with three different
#            (user defined) exception types; the program logs the Concurrent it catches
#            (`type(err).__name__`, `str(err)`, `type(err).specialisations`) - which is also
#            what the traceback of a failing `usim.run` shows. The same script is started
#            several times, preceded by a different number of *unrelated* allocations.
# Expected : the same text in every process.
# Observed : the name of the exception type - hence str(err), the traceback text and the
#            public `specialisations` tuple - changes with the number of unrelated objects
#            allocated before: e.g. `Concurrent[ErrC, ErrB, ErrA]` vs
#            `Concurrent[ErrA, ErrC, ErrB]`.
# Cause    : MetaConcurrent._get_specialisation builds name and `specialisations` by iterating
#            `frozenset(item)`; classes hash by address, so the iteration order is a function
#            of the memory layout (for heap types; builtin exception types are static).
# Docs     : "Note that neither the *number* nor *order* of exceptions is captured in the type"
#            speaks about matching, not about the name being arbitrary.
# Confidence: medium-low (only the label of the failure event varies, not who ran when; but
#            the log/traceback of one and the same program is not reproducible).
import sys; sys.path.insert(0, '/tmp/hunt3')
import faulthandler; faulthandler.dump_traceback_later(25, exit=True)
import os
import subprocess

if 'HUNT_JUNK' in os.environ:
    junk = [object() for _ in range(int(os.environ['HUNT_JUNK']))]  # unrelated allocations
    import usim
    assert usim.__file__.startswith('/tmp/hunt3'), usim.__file__
    from usim import run, time, Scope, Concurrent

    class ErrA(Exception):
        pass

    class ErrB(Exception):
        pass

    class ErrC(Exception):
        pass

    async def fail(error):
        await (time + 1)
        raise error

    async def main():
        try:
            async with Scope() as scope:
                for error in (ErrA(), ErrB(), ErrC()):
                    scope.do(fail(error))
        except Concurrent as err:
            print('@%s %s | specialisations=%s' % (
                time.now, err, [t.__name__ for t in type(err).specialisations]))

    run(main())
else:
    seen = set()
    for junk_count in (0, 1, 10, 100, 1000, 1001, 5000, 12345):
        out = subprocess.run(
            [sys.executable, __file__], env=dict(os.environ, HUNT_JUNK=str(junk_count)),
            stdout=subprocess.PIPE, universal_newlines=True, timeout=25,
        ).stdout.strip()
        seen.add(out)
        print('%6d unrelated objects -> %s' % (junk_count, out))
    print('expected: 1 distinct log line; observed: %d distinct' % len(seen))
