# Property : C16
# Sentence : "`collect(a, b, ...)` ...; if any activity fails, the others are aborted at that
#            time and the failure is raised."
# Scenario : collect(slow(), waits_on(victim)) where `waits_on` does `return await victim`
#            and the Task `victim` has been cancelled: awaiting it raises TaskCancelled in
#            `waits_on`, i.e. that activity fails with an ordinary (public) usim exception.
# Expected : at time 1 `slow` is aborted and collect raises the failure: TaskCancelled (or
#            Concurrent[TaskCancelled]).
# Observed : `slow` is aborted at time 1, but collect raises
#            TaskClosed("closed at end of scope ...") - the *abort marker of the innocent
#            sibling* `slow`; the real failure is lost. (With the failing activity as first
#            argument TaskCancelled is raised; the outcome depends on the argument order.)
# Cause    : Scope counts the child as failed (cancels itself) but then filters
#            TaskCancelled/TaskClosed out of the Concurrent (SUPPRESS_CONCURRENT), so the
#            scope exits "cleanly" and `return [await task for task in tasks]` re-raises the
#            result of the first unsuccessful task in argument order.
# Docs     : collect(): ":raises usim.Concurrent: if any of the activities raise an exception".
#            topics/exceptions.rst only names GeneratorExit and Interrupt as suppressed.
# Confidence: medium-low (rare trigger, but the raised TaskClosed is clearly the wrong
#            exception and not documented).
import sys; sys.path.insert(0, '/repo')
import faulthandler; faulthandler.dump_traceback_later(25, exit=True)
import usim
assert usim.__file__.startswith('/repo'), usim.__file__
from usim import run, time, Scope, instant, collect

log = []


async def slow():
    try:
        await (time + 10)
        return 'slow'
    finally:
        log.append('slow exits @%s' % time.now)


async def waits_on(task):
    await (time + 1)
    return await task  # raises TaskCancelled here


async def main(failing_first):
    async with Scope() as outer:
        victim = outer.do(time + 100)
        await instant
        victim.cancel('because')
        try:
            if failing_first:
                result = await collect(waits_on(victim), slow())
            else:
                result = await collect(slow(), waits_on(victim))
            log.append('collect returned %r @%s' % (result, time.now))
        except BaseException as err:
            log.append('collect raised %s: %.60s @%s' % (type(err).__name__, err, time.now))

for failing_first in (True, False):
    log.clear()
    run(main(failing_first))
    print('failing activity is %s argument:' % ('first' if failing_first else 'second'), log)
print('expected in both cases: the failure (TaskCancelled / Concurrent[TaskCancelled]) @1')
