# Property : C20 "Every awaitable operation yields to the other runnable activities
#            at least once"
# Sentence : "Every operation that ... signals, transfers ... - ... put/get/close on queues
#            and channels, borrowing or claiming resources ..., and leaving a scope block -
#            lets every other activity that is runnable at that time run before it
#            completes. Consequently a loop of such operations can never starve other
#            activities or keep the clock from advancing."
# Scenario : operations of that list which complete *by raising*:
#            (a) `await queue.put(x)` / `await channel.put(x)` on a closed stream  -> StreamClosed
#            (b) `async with resources.claim(...)` when the resources are unavailable
#                                                                   -> ResourcesUnavailable
#            (c) leaving an `async with Scope():` block through an exception of the body
# Expected : each of them is a break point (like `await queue` on a closed Queue, which
#            postpones and then raises StreamClosed); a retry/poll loop around them cannot
#            starve the ticker.
# Observed : all three complete without suspending; 1000 repetitions run in one go while a
#            runnable ticker is starved. The natural polling loops
#                while True:
#                    try:  async with res.claim(cores=1): ...
#                    except ResourcesUnavailable:  continue
#            livelock: the clock can never advance, so the resources are never returned.
# Docs     : glossary: "μSim guarantees that all its primitives postpone on asynchronous
#            operations." For (c) the code comment says "there was an exception, we have to
#            abandon the scope fast" - a deliberate implementation choice, not a documented
#            one. For (b) the inherited comment says "do not postpone if we can resume
#            immediately", but the success path does postpone (Tracked.set).
# Confidence: medium-low as "defect" ((a),(b) are plain oversights in the error path and
#            inconsistent with Queue get; (c) looks deliberate), high as literal violation.
import sys; sys.path.insert(0, '/tmp/hunt3')
import faulthandler; faulthandler.dump_traceback_later(25, exit=True)
import usim
assert usim.__file__.startswith('/tmp/hunt3'), usim.__file__
from usim import run, Scope, Queue, Channel, StreamClosed, Resources, ResourcesUnavailable
from usim import instant, time

N = 1000


async def ticker(log):
    for i in range(3):
        log.append('ticker turn %d' % i)
        await instant


async def put_closed(stream):
    try:
        await stream.put(1)
    except StreamClosed:
        pass


async def claim_unavailable(resources):
    try:
        async with resources.claim(cores=1):
            pass
    except ResourcesUnavailable:
        pass


async def leave_scope_by_exception(_):
    try:
        async with Scope():
            raise KeyError
    except KeyError:
        pass


async def main(title, operation, make):
    log = []
    subject = await make()

    async def repeat():
        for _ in range(N):
            await operation(subject)
        log.append('%d operations completed' % N)

    async with Scope() as scope:
        scope.do(ticker(log))
        scope.do(repeat())
    print('%-40s' % title, log)


async def closed(stream):
    await stream.close()
    return stream


async def exhausted():
    resources = Resources(cores=1)
    await resources.decrease(cores=1)
    return resources


async def nothing():
    return None

run(main('Queue.put on closed queue', put_closed, lambda: closed(Queue())))
run(main('Channel.put on closed channel', put_closed, lambda: closed(Channel())))
run(main('claim of unavailable resources', claim_unavailable, exhausted))
run(main('leaving a Scope block via exception', leave_scope_by_exception, nothing))
print("expected everywhere: ticker turns 0..2 BEFORE '%d operations completed'" % N)
