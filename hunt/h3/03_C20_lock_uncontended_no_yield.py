# Property : C20 "Every awaitable operation yields to the other runnable activities
#            at least once" (title), "Every operation that waits for, signals, transfers or
#            iterates ... lets every other activity that is runnable at that time run before
#            it completes. Consequently a loop of such operations can never starve other
#            activities or keep the clock from advancing."
# Scenario : `async with lock:` on a Lock that is free (or already owned by the same
#            activity), and leaving that block again.
# Expected : acquiring and/or releasing is a break point: the ticker gets its turns while
#            another activity acquires/releases the lock 1000 times.
# Observed : neither Lock.__aenter__ (free lock / re-entry) nor Lock.__aexit__ suspends:
#            1000 acquire/release cycles run in one go, the ticker is starved meanwhile; a
#            `while True: async with lock: <sync code>` loop livelocks the simulation and the
#            clock never advances.
# Note     : Lock is not in the enumeration of C20 ("awaiting ..., setting ..., put/get/close
#            ..., borrowing or claiming resources ...") but it is an awaitable operation that
#            "waits for" a shared primitive, and the glossary promises for *all* primitives:
#            "μSim guarantees that all its primitives postpone on asynchronous operations.
#            This ensures that activities are reliably and deterministically interwoven."
#            The Lock docs do not declare an exception. (Queue._await_message even has to
#            add an explicit `await postpone()` after taking its internal Lock.)
# Confidence: medium (literal violation of the title/closing sentence and of the glossary
#            guarantee; arguably outside the enumerated list).
import sys; sys.path.insert(0, '/tmp/hunt3')
import faulthandler; faulthandler.dump_traceback_later(25, exit=True)
import usim
assert usim.__file__.startswith('/tmp/hunt3'), usim.__file__
from usim import run, time, Scope, Lock, instant

log = []


async def ticker():
    for i in range(3):
        log.append('ticker turn %d' % i)
        await instant


async def locker(lock, n):
    for i in range(n):
        async with lock:
            async with lock:  # re-entry
                pass
    log.append('%d acquire/release cycles completed' % n)


async def main():
    lock = Lock()
    async with Scope() as scope:
        scope.do(ticker())
        scope.do(locker(lock, 1000))


run(main())
print(log)
print("expected: ticker turns 0..2 BEFORE '1000 acquire/release cycles completed'")
