# Property : C20 "Every awaitable operation yields to the other runnable activities
#            at least once"
# Sentence : "Every operation that waits for, signals, transfers or iterates ... lets every
#            other activity that is runnable at that time run before it completes."
#            Range: "every state of the primitive in which the operation can complete
#            without waiting (... item buffered ...)".
# Scenario : `async for msg in channel` whose consumer was suspended in its loop body while
#            the producer broadcast further messages, so that several messages are buffered
#            for it. A `ticker` activity is runnable in the same time step.
# Expected : every iteration step (fetching the next message) postpones, so the ticker runs
#            between two messages - this is what the same program does with a Queue.
# Observed : Channel.__aiter__ does `while buffer: yield buffer.popleft()` without any
#            suspension: all buffered messages are delivered back to back; the ticker does
#            not run between them.
# Docs     : glossary "Postponement": "μSim guarantees that all its primitives postpone on
#            asynchronous operations"; glossary "Suspension" lists "fetching the next item
#            of an async for statement". Nothing declares that buffered channel messages
#            are handed over without a break point.
# Confidence: high for the literal violation, medium that upstream would call it a defect
#            (bounded by the number of buffered messages, so no livelock - but the interleaving
#            differs from Queue and from the documented guarantee).
import sys; sys.path.insert(0, '/tmp/hunt3')
import faulthandler; faulthandler.dump_traceback_later(25, exit=True)
import usim
assert usim.__file__.startswith('/tmp/hunt3'), usim.__file__
from usim import run, time, Scope, Channel, Queue, instant

log = []


async def ticker():
    await (time + 10)
    for i in range(4):
        log.append('tick%d' % i)
        await instant


async def consumer(stream):
    async for msg in stream:
        log.append('got %d @%s' % (msg, time.now))
        if msg == 0:
            await (time + 10)  # busy: messages 1..3 pile up meanwhile


async def producer(stream):
    for i in range(4):
        await stream.put(i)
        await (time + 1)
    await (time + 20)
    await stream.close()


async def main(stream):
    async with Scope() as scope:
        scope.do(consumer(stream))
        scope.do(ticker())
        scope.do(producer(stream))


for stream_type in (Queue, Channel):
    log.clear()
    run(main(stream_type()))
    print('%-8s' % stream_type.__name__, log)
print('expected: at time 10 the ticks interleave with the messages 1, 2, 3 (as for Queue)')
