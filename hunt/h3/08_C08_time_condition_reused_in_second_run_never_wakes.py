# Property : C08 "Awaiting a condition returns only when it is true, and is never missed"
# Sentence : "`await c` ... completes ... in the first time step (possibly the current one) in
#            which c is true when the waiter gets its turn; a waiter is never left waiting at
#            the end of a time step in which its condition holds, however deeply the
#            condition is nested."  (atoms: "... and time conditions")
# Scenario : a time condition object is created once (e.g. a module level constant
#            `SHIFT_END = time >= 10`, or `time == 10`) and awaited in two consecutive
#            `usim.run(...)` calls (replications of the same model), directly or nested in
#            `&`/`|` or as `until(...)`.
# Expected : in every run the waiter resumes at time 10.
# Observed : in the first run it resumes at 10. In the second run the waiter is never woken:
#            at time 10, 11, ... `bool(c)` is True while the activity stays suspended for good
#            (the run silently ends early / `until(c)` never fires).
# Cause    : After._ensure_trigger() remembers `self._scheduled = True` forever; the trigger
#            activity it refers to lived in the event loop of the *first* run. In the second
#            run no trigger is scheduled, so nobody ever calls __trigger__.
#            (`time == date` is affected through its internal After; a condition that was
#            already true when first awaited is not affected.)
# Docs     : nothing says that conditions derived from `usim.time` are bound to one run;
#            `usim.time` itself is a global usable in any run, and Flag/Tracked/Delay objects
#            can be reused across runs.
# Confidence: medium (genuine lost wake-up through purely public API, but needs an object
#            surviving from one run to the next).
import sys; sys.path.insert(0, '/repo')
import faulthandler; faulthandler.dump_traceback_later(25, exit=True)
import usim
assert usim.__file__.startswith('/repo'), usim.__file__
from usim import run, time, Scope, Flag, until, eternity

SHIFT_END = time >= 10
MOMENT = time == 10
never = Flag()
NESTED = (time >= 10) | never


async def replication(number):
    woke = {}

    async def waiter(name, condition):
        await condition
        woke[name] = time.now

    async def interrupted(name, condition):
        async with until(condition):
            await eternity
        woke[name] = time.now

    async with Scope() as scope:
        scope.do(waiter('time >= 10', SHIFT_END), volatile=True)
        scope.do(waiter('time == 10', MOMENT), volatile=True)
        scope.do(waiter('(time >= 10) | flag', NESTED), volatile=True)
        scope.do(interrupted('until(time >= 10)', SHIFT_END), volatile=True)
        await (time + 15)
        print('run %d, now=%s: bool(time >= 10)=%s; waiters resumed at: %s' % (
            number, time.now, bool(SHIFT_END), woke))

run(replication(1))
run(replication(2))
print('expected: all four waiters resume at 10 in both runs')
