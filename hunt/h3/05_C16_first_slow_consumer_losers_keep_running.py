# Property : C16 "collect()/first() give the right results at the right time and abort
#            the rest"
# Sentence : "`first(..., count=k)` ... stops after k results ... and aborts the activities
#            still running at that moment so that none of their code runs afterwards."
#            Range: "... every consumer behaviour (slow consumer, early break, ...)".
# Scenario : async for winner in first(fast(1), slow(steps at 2, 4, 6, 8, 10)):   # count=1
#                await (time + 5)          # consumer takes its time with the winner
# Expected : the k-th (here: only) result is available at time 1; `slow` is aborted at time 1
#            and none of its code runs afterwards.
# Observed : `slow` keeps running while the consumer processes the winner: it executes its
#            steps at times 2 and 4 and even the step at time 6 (it is woken before the
#            consumer re-enters the iterator) and is aborted only when the consumer asks for
#            the next item. With a consumer that never comes back (e.g. `await eternity`,
#            or one that keeps the iterator in a variable and returns) the losers run to
#            completion.
# Cause    : first() is an async generator holding `async with Scope()` across `yield`; the
#            volatile contestants are only closed when `a.islice` is resumed after the last
#            result.
# Docs     : first() docstring: "If there are more results than ``count``, any remaining
#            ``activities`` are aborted after yielding the last result." - the losers are not
#            aborted after yielding the last result but after the consumer finished with it.
# Related  : the known finding "first() holds a Scope across yield" (raw CancelScope leak on
#            failure) has the same root cause but a different symptom.
# Confidence: medium-high.
import sys; sys.path.insert(0, '/tmp/hunt3')
import faulthandler; faulthandler.dump_traceback_later(25, exit=True)
import usim
assert usim.__file__.startswith('/tmp/hunt3'), usim.__file__
from usim import run, time, first

log = []


async def contestant(name, period, steps):
    try:
        for i in range(steps):
            await (time + period)
            log.append('%s step %d @%s' % (name, i, time.now))
        return name
    finally:
        log.append('%s exits @%s' % (name, time.now))


async def main():
    async for winner in first(contestant('fast', 1, 1), contestant('slow', 2, 5), count=1):
        log.append('consumer got %s @%s' % (winner, time.now))
        await (time + 5)
        log.append('consumer done with winner @%s' % time.now)
    log.append('loop left @%s' % time.now)

run(main())
for line in log:
    print(line)
late = [line for line in log if line.startswith('slow step')]
print('expected: "slow exits @1" right after the winner, no "slow step" at all')
print('observed: code of the loser that ran after the 1st (= k-th) result:', late)
