# Property : C20 "Every awaitable operation yields to the other runnable activities
#            at least once"
# Sentence : "... put/get/close on queues and channels ... lets every other activity that
#            is runnable at that time run before it completes. Consequently a loop of such
#            operations can never starve other activities or keep the clock from advancing."
#            Range: "... every state of the primitive in which the operation can complete
#            without waiting (... stream closed ...)".
# Scenario : `await channel` on a Channel that is already closed.
# Expected : the get postpones (as `await queue` on a closed Queue does since the F16 fix,
#            and as iterating a closed Channel does) and only then raises StreamClosed;
#            the concurrently runnable `ticker` gets its turns in between.
# Observed : Channel.__await__ raises StreamClosed immediately
#            (`if self._closed: raise StreamClosed(self)` is the first statement); 1000
#            gets in a row complete without the ticker running once and without the clock
#            being able to advance -> a `while True: try: await channel / except
#            StreamClosed: ...` polling loop livelocks the simulation.
# Docs     : glossary "Postponement": "μSim guarantees that all its primitives postpone on
#            asynchronous operations." Channel.close docstring only says that retrieving
#            "fail[s] with StreamClosed". Nothing declares the missing postponement.
# Confidence: high that it violates the statement; medium-high that it is a genuine defect
#            (Queue behaves the other way, so it is an inconsistency, not a design choice).
import sys; sys.path.insert(0, '/tmp/hunt3')
import faulthandler; faulthandler.dump_traceback_later(25, exit=True)
import usim
assert usim.__file__.startswith('/tmp/hunt3'), usim.__file__
from usim import run, time, Scope, Channel, Queue, StreamClosed, instant

log = []


async def ticker():
    for i in range(3):
        log.append('ticker turn %d' % i)
        await instant


async def poll(stream, n):
    for i in range(n):
        try:
            await stream
        except StreamClosed:
            pass
    log.append('%s: %d gets on closed stream completed' % (type(stream).__name__, n))


async def main(stream):
    await stream.close()
    async with Scope() as scope:
        scope.do(ticker())
        scope.do(poll(stream, 1000))


for stream_type in (Queue, Channel):
    log.clear()
    run(main(stream_type()))
    print(stream_type.__name__, log)
    # demanded: the ticker had (at least) all of its 3 turns before 1000 gets completed
print("expected for both: ticker turns 0..2 BEFORE '1000 gets ... completed'")
