import sys; sys.path.insert(0, sys.argv[1] if len(sys.argv) > 1 and sys.argv[1].startswith('/') else '/tmp/huntR1')
import random
import usim
from usim import run, Scope, time, until, Pipe
print(usim.__file__)

def model(P, transfers):
    # transfers: list of dict(start, vol, lim, cancel or None); returns end times (None if cancelled)
    n = len(transfers)
    rem = [t['vol'] for t in transfers]
    state = ['wait'] * n
    end = [None] * n
    now = 0.0
    while True:
        active = [i for i in range(n) if state[i] == 'run']
        tot = sum(transfers[i]['lim'] for i in active)
        scale = min(1.0, P / tot) if tot else 1.0
        # next event
        cands = []
        for i in range(n):
            if state[i] == 'wait': cands.append((transfers[i]['start'], 0, i))
            if state[i] == 'run':
                if transfers[i]["cancel"] is not None: cands.append((transfers[i]["cancel"], 3, i))
                rate = transfers[i]['lim'] * scale
                cands.append((now + rem[i] / rate, 2, i))
        if not cands: break
        t, kind, i = min(cands)
        for j in active:
            rem[j] -= (t - now) * transfers[j]['lim'] * scale
        now = t
        if kind == 0:
            if transfers[i]['cancel'] is not None and transfers[i]['cancel'] <= now:
                state[i] = 'done'
            elif transfers[i]['vol'] == 0:
                state[i] = 'done'; end[i] = now
            else:
                state[i] = 'run'
        elif kind == 3:
            state[i] = 'done'
        else:
            state[i] = 'done'; end[i] = now; rem[i] = 0
    return end

def one(seed):
    rng = random.Random(seed)
    P = rng.choice([1.0, 2.0, 3.0, 5.0])
    n = rng.randrange(2, 6)
    trs = []
    for i in range(n):
        trs.append(dict(start=float(rng.randrange(0, 6)), vol=float(rng.choice([0, 1, 2, 3, 5, 8])),
                        lim=float(rng.choice([1, 2, 3, 5])), cancel=None, how=None))
        if rng.random() < 0.4:
            trs[-1]['cancel'] = trs[-1]['start'] + rng.choice([0.5, 1.0, 1.5, 2.5])
            trs[-1]['how'] = rng.choice(['cancel', 'until', 'close'])
    got = [None] * n
    async def tr(pipe, i):
        t = trs[i]
        await (time == t['start'])
        if t['how'] == 'until':
            async with until(time == t['cancel']):
                await pipe.transfer(t['vol'], t['lim'])
                got[i] = time.now
        else:
            await pipe.transfer(t['vol'], t['lim'])
            got[i] = time.now
    async def main():
        pipe = Pipe(P)
        async with Scope() as s:
            tasks = []
            for i in range(n):
                how = trs[i]['how']
                if how == 'close':
                    async def closer(i=i):
                        async with Scope() as s2:
                            s2.do(tr(pipe, i), volatile=True)
                            await (time == trs[i]['cancel'])
                    s.do(closer())
                elif how == 'cancel':
                    task = s.do(tr(pipe, i))
                    async def canceller(task=task, i=i):
                        await (time == trs[i]['cancel'])
                        task.cancel()
                    s.do(canceller())
                else:
                    s.do(tr(pipe, i))
        assert not pipe._subscriptions and pipe._throughput_scale == 1.0, (pipe._subscriptions, pipe._throughput_scale)
    run(main())
    exp = model(P, trs)
    return exp, got, P, trs

bad = 0
for seed in range(int(sys.argv[-1]) if sys.argv[-1].isdigit() else 2000):
    try:
        exp, got, P, trs = one(seed)
    except BaseException as e:
        print(seed, 'EXC', type(e).__name__, e); bad += 1; continue
    ok = all((e is None and g is None) or (e is not None and g is not None and abs(e - g) < 1e-6) for e, g in zip(exp, got))
    if not ok:
        bad += 1
        if bad < 6: print(seed, 'exp', exp, 'got', got, P, trs)
print('mismatches', bad)
