import sys; sys.path.insert(0, sys.argv[1] if len(sys.argv) > 1 else '/tmp/huntR1')
import gc, types
import usim
from usim import run, Scope, time, until, Flag, eternity, instant, Tracked, TaskCancelled
print(usim.__file__)

def watchers():
    gc.collect()
    return [o for o in gc.get_objects() if isinstance(o, types.CoroutineType)
            and o.__name__ == '__watch_children__' and o.cr_frame is not None]

async def setter(flag, at, to=True):
    await (time == at)
    await flag.set(to)

async def scenario(tag, mk, sets, expect, dur=20):
    flags = [Flag() for _ in range(4)]
    cond = mk(*flags)
    t0 = time.now
    res = None
    async with Scope() as s:
        for i, d, *to in sets:
            s.do(setter(flags[i], t0 + d, *to))
        async with until(cond):
            await (time + dur)
            res = 'completed'
        if res is None:
            res = time.now - t0
    print(tag, 'expect', expect, 'got', res, 'OK' if res == expect else 'MISMATCH', 'watchers', len(watchers()))
    await (time + 50)

async def main():
    await scenario('a&b', lambda a, b, c, d: a & b, [(0, 1), (1, 2)], 2)
    await scenario('a&b rev', lambda a, b, c, d: a & b, [(1, 1), (0, 2)], 2)
    await scenario('a|b', lambda a, b, c, d: a | b, [(1, 3)], 3)
    await scenario('a&(b|c)', lambda a, b, c, d: a & (b | c), [(2, 1), (0, 4)], 4)
    await scenario('a&(b|c) 2', lambda a, b, c, d: a & (b | c), [(0, 1), (2, 4)], 4)
    await scenario('a|(b&c)', lambda a, b, c, d: a | (b & c), [(1, 1), (2, 4)], 4)
    await scenario('(a|b)&(c|d)', lambda a, b, c, d: (a | b) & (c | d), [(1, 1), (3, 5)], 5)
    await scenario('a&~b', lambda a, b, c, d: a & ~b, [(1, 0), (0, 2), (1, 3, False)], 3)
    await scenario('a&b never', lambda a, b, c, d: a & b, [(0, 1)], 'completed')
    await scenario('a&b same step', lambda a, b, c, d: a & b, [(0, 1), (1, 1)], 1)
    await scenario('a&(b|(c&d))', lambda a, b, c, d: a & (b | (c & d)), [(0, 1), (2, 2), (3, 3)], 3)
    await scenario('~(a&b) already', lambda a, b, c, d: ~(a & b), [], 0)
    await scenario('a&b&time', lambda a, b, c, d: a & b & (time >= time.now + 7), [(0, 1), (1, 2)], 7)
    # body ends by exception
    f, g = Flag(), Flag()
    try:
        async with until(f & g):
            await (time + 1)
            raise KeyError
    except KeyError:
        print('exception exit watchers', len(watchers()))
    # task cancelled inside
    async def victim():
        async with until(f & (g | f)):
            await eternity
    async with Scope() as s:
        t = s.do(victim())
        await (time + 1)
        t.cancel()
    print('cancel exit watchers', len(watchers()))
    async with Scope() as s:
        t = s.do(victim(), volatile=True)
        await (time + 1)
    print('close exit watchers', len(watchers()))
    # two scopes share one connective
    c = f & g
    async def user(tag, dur):
        async with until(c):
            await (time + dur)
            print(tag, 'completed', time.now)
            return
        print(tag, 'interrupted', time.now)
    t0 = time.now
    async with Scope() as s:
        s.do(user('u1 (expect completed +1)', 1))
        s.do(user('u2 (expect interrupted +3)', 10))
        s.do(user('u3 (expect interrupted +3)', 10), after=2)
        await (time + 3)
        print('now', time.now - t0)
        await f.set()
        await g.set()
    print('shared', time.now - t0, 'watchers', len(watchers()))

run(main())
print('after run watchers', len(watchers()))
