import sys; sys.path.insert(0, sys.argv[1] if len(sys.argv) > 1 else '/tmp/huntR1')
import usim
from usim import run, Scope, time, TaskCancelled, TaskState, until, Flag, eternity, instant
print(usim.__file__)
log = []
async def p(name):
    log.append((name, time.now))

async def main():
    async with Scope() as s:
        s.do(p('at0'), at=0)
        s.do(p('at0.0'), at=0.0)
        s.do(p('at-3'), at=-3)
        s.do(p('after0'), after=0)
        s.do(p('atnow'), at=time.now)
        s.do(p('at-0.0'), at=-0.0)
        t = s.do(p('cancelled at0'), at=0)
        await (time == -1)
        t.cancel()
    print(time.now, log)
    log.clear()
    async with Scope() as s:
        s.do(p('atnow0'), at=0)
        s.do(p('after0'), after=0.0)
    print(time.now, log)

run(main(), start=-5)
print('expected at-3 at -3, the three at=0 variants at 0 in order, after0/atnow at -5')
