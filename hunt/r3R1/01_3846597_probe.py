import sys; sys.path.insert(0, sys.argv[1] if len(sys.argv) > 1 else '/tmp/huntR1')
import warnings; warnings.simplefilter('error')
import usim
from usim import run, Scope, time, TaskCancelled, TaskState, until, Flag, eternity, instant
print(usim.__file__)
log = []

async def payload(name, d=0):
    log.append((name, 'start', time.now))
    try:
        if d:
            await (time + d)
        else:
            await instant
        log.append((name, 'end', time.now))
    finally:
        log.append((name, 'fin', time.now))

async def t1():
    # cancel before start, immediate and delayed
    async with Scope() as s:
        a = s.do(payload('a'))
        b = s.do(payload('b'), after=5)
        c = s.do(payload('c'), at=7)
        print('status', a.status, b.status, c.status)
        a.cancel('x'); b.cancel('y'); c.cancel()
        print('status', a.status, b.status, c.status)
        a.cancel('again')
        try:
            await a
        except TaskCancelled as e:
            print('a cancelled', e.args, e.subject is a)
        print('children', len(s._children))
    print('t1 exit', time.now, log)

async def t2():
    # cancel delayed after wrapper start
    log.clear()
    async with Scope() as s:
        b = s.do(payload('b'), after=5)
        await instant
        print('status b', b.status)
        b.cancel()
        await instant
        print('status b', b.status)
    print('t2 exit', time.now, log)

async def t3():
    log.clear()
    try:
        async with Scope() as s:
            s.do(payload('a'))
            s.do(payload('b'), after=3)
            s.do(payload('v'), volatile=True)
            raise KeyError(1)
    except KeyError:
        print('t3 keyerror', time.now, log)
    await (time + 10)
    print('t3 after', log)

async def t4():
    log.clear()
    async with until(instant) as s:   # already true
        s.do(payload('a'))
        s.do(payload('b'), after=3)
        await eternity
    print('t4', time.now, log)
    await (time + 10)
    print('t4 after', log)

async def t5():
    # awaiting a created, then cancelled, task from a sibling
    log.clear()
    async def waiter(t):
        try:
            await t
        except TaskCancelled as e:
            log.append(('waiter', 'TaskCancelled', time.now))
    async with Scope() as s:
        a = s.do(payload('a', 5), after=2)
        s.do(waiter(a))
        await instant
        await instant
        a.cancel()
    print('t5', time.now, log)

async def main():
    await t1(); await t2(); await t3(); await t4(); await t5()

run(main())
