import sys; sys.path.insert(0, sys.argv[1] if len(sys.argv) > 1 and sys.argv[1].startswith('/') else '/tmp/huntR1')
import random, gc, types, warnings
warnings.simplefilter('error')
import usim
from usim import run, Scope, time, until, Flag, eternity, instant, TaskCancelled
print(usim.__file__)

def watchers():
    return [o for o in gc.get_objects() if isinstance(o, types.CoroutineType)
            and o.__name__ == '__watch_children__' and o.cr_frame is not None]

def one(seed):
    rng = random.Random(seed)
    trace = []
    async def victim(flags, shape):
        a, b, c = flags
        cond = {0: a & b, 1: a | b, 2: a & (b | c), 3: (a & b) | c, 4: (a | b) & (b | c) & ~c}[shape]
        try:
            async with until(cond) as s:
                s.do(sub(cond))
                for _ in range(rng.randrange(0, 4)):
                    await instant
                if rng.random() < 0.5:
                    await (time + rng.randrange(1, 4))
                else:
                    await cond
                trace.append(('body done', time.now))
            trace.append(('left', time.now))
        finally:
            trace.append(('fin', time.now))
    async def sub(cond):
        async with until(cond):
            await eternity
        trace.append(('sub left', time.now))
    async def toggler(flags):
        for _ in range(rng.randrange(1, 8)):
            for _ in range(rng.randrange(0, 3)):
                await instant
            if rng.random() < 0.3:
                await (time + 1)
            await rng.choice(flags).set(rng.random() < 0.7)
    async def main():
        flags = [Flag() for _ in range(3)]
        shape = rng.randrange(5)
        how = rng.choice(['cancel', 'close', 'none', 'until'])
        k = rng.randrange(0, 12)
        async with Scope() as outer:
            outer.do(toggler(flags))
            outer.do(toggler(flags))
            if how == 'until':
                async with until(time + rng.choice([1, 2])):
                    await victim(flags, shape)
            else:
                async with Scope() as s:
                    t = s.do(victim(flags, shape), volatile=(how == 'close'))
                    for _ in range(k):
                        await instant
                    if rng.random() < 0.3:
                        await (time + 1)
                    if how == 'cancel':
                        t.cancel()
                    elif how == 'none':
                        async with until(time + 6):
                            await t
                        t.cancel()
            mark = len(trace)
        await (time + 5)
        assert len(trace) == mark, ('code ran after scope', trace[mark:])
    run(main())
    gc.collect()
    w = watchers()
    assert not w, ('leftover watchers', len(w))

bad = 0
for seed in range(int(sys.argv[-1]) if sys.argv[-1].isdigit() else 3000):
    try:
        one(seed)
    except BaseException as e:
        bad += 1
        if bad < 6:
            import traceback; print(seed, 'EXC', type(e).__name__, e)
print('failures', bad)
