import sys; sys.path.insert(0, sys.argv[1] if len(sys.argv) > 1 else '/tmp/huntR1')
import usim
from usim.py import Environment
from usim.py.resources.resource import PriorityResource, PreemptiveResource, Resource
from usim.py.resources.store import FilterStore, Store, PriorityStore
from usim.py.resources.container import Container
print(usim.__file__)

# --- PriorityResource order after several serve rounds
env = Environment()
res = PriorityResource(env, capacity=1)
log = []
def user(name, prio, delay, hold):
    yield env.timeout(delay)
    with res.request(priority=prio) as req:
        yield req
        log.append((name, env.now))
        yield env.timeout(hold)
env.process(user('first', 0, 0, 10))
for i, (p, d) in enumerate([(5, 1), (3, 2), (4, 3), (1, 4), (3, 5), (2, 11), (0, 12), (9, 0.5)]):
    env.process(user(f'u{i}p{p}', p, d, 10))
env.run()
print([n for n, t in log])
print('expect first, u3p1, u1p3, u4p3(?by time), ... strictly by (prio,time) among those queued at each release')
print(type(res.put_queue).__name__, type(res.queue).__name__)

# cancel in a priority queue, then order
env = Environment()
res = PriorityResource(env, capacity=1)
log = []
def canceller():
    yield env.timeout(1)
    req = res.request(priority=1)
    yield env.timeout(1)
    req.cancel(); req.cancel()
    log.append(('cancelled', env.now, len(res.queue)))
env.process(user('first', 0, 0, 10)); env.process(canceller())
env.process(user('p2', 2, 1.5, 1)); env.process(user('p1late', 1, 3, 1))
env.run()
print(log, 'expect first, cancelled (queue len 1), p1late 10, p2 11')

# --- FilterStore
env = Environment()
fs = FilterStore(env, capacity=2)
log = []
def getter(name, flt, delay=0):
    yield env.timeout(delay)
    item = yield fs.get(flt)
    log.append((name, item, env.now))
def putter(items, delay=0):
    yield env.timeout(delay)
    for it in items:
        yield fs.put(it)
        log.append(('put', it, env.now))
env.process(getter('g_even_big', lambda x: x % 2 == 0 and x > 100))
env.process(getter('g_odd', lambda x: x % 2 == 1))
env.process(getter('g_any', lambda x: True))
env.process(getter('g_odd2', lambda x: x % 2 == 1))
env.process(putter([2, 4, 3, 5, 7, 200, 6], 1))
env.run()
print(log)
print('items left', fs.items, 'pending gets', len(fs.get_queue), 'pending puts', len(fs.put_queue))

# --- Process ends before first yield
env = Environment()
def quick():
    return 42
    yield
def failing():
    raise KeyError('boom')
    yield
def parent():
    v = yield env.process(quick())
    print('quick value', v, env.now, 'active', env.active_process)
    try:
        yield env.process(failing())
    except KeyError as e:
        print('caught', repr(e))
    return 'done'
p = env.process(parent())
print('run ->', env.run(until=p))
env = Environment()
env.process(failing())
try:
    env.run()
except KeyError as e:
    print('unhandled failing process ends run with', repr(e))

# --- active_process after a process ended (first send vs later)
env = Environment()
seen = []
def ends_at_once():
    return 1
    yield
def ends_later():
    yield env.timeout(1)
def cb(ev):
    seen.append((env.now, env.active_process))
p1 = env.process(ends_at_once()); p1.callbacks.append(cb)
p2 = env.process(ends_later()); p2.callbacks.append(cb)
env.run()
print('active_process seen by callbacks after the process ended (simpy: None):', seen)
