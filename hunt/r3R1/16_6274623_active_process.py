import sys; sys.path.insert(0, sys.argv[1] if len(sys.argv) > 1 else '/tmp/huntR1')
import usim
from usim.py import Environment
assert usim.__file__.startswith(sys.path[0]), usim.__file__
# 6274623 resets env.active_process in a `finally` for the FIRST send only. The later
# sends in the same method still leave env.active_process pointing at a process
# whose generator has just ended or raised (simpy: None outside of a process step).
env = Environment()
seen = []
def ends_at_once():
    return 1
    yield
def ends_later():
    yield env.timeout(1)
def fails_later():
    yield env.timeout(2)
    raise KeyError
def cb(ev):
    ev.defused = True
    seen.append((env.now, env.active_process))
for gen in (ends_at_once, ends_later, fails_later):
    env.process(gen()).callbacks.append(cb)
env.run()
print('expected: active_process is None in every callback')
for now, proc in seen:
    print('observed at', now, ':', proc)
