import sys; sys.path.insert(0, sys.argv[1] if len(sys.argv) > 1 and sys.argv[1].startswith('/') else '/tmp/huntR1')
import random, warnings
warnings.simplefilter('error')
import usim
from usim import run, Scope, time, until, Flag, eternity, instant, TaskCancelled, TaskState, TaskClosed
print(usim.__file__)

def one(seed):
    rng = random.Random(seed)
    started = {}
    results = {}
    async def payload(i, d):
        started[i] = time.now
        for _ in range(rng.randrange(0, 3)):
            await instant
        if d:
            await (time + d)
        return i
    async def awaiter(i, task):
        try:
            results[i] = ('ok', await task)
        except TaskCancelled as e:
            results[i] = ('cancelled', e.subject is task)
        except TaskClosed:
            results[i] = ('closed',)
    async def main():
        n = rng.randrange(1, 5)
        spec = []
        exit_how = rng.choice(['normal', 'raise', 'until'])
        try:
            async with (until(time + rng.choice([1, 2, 3])) if exit_how == 'until' else Scope()) as s:
                tasks = []
                for i in range(n):
                    kw = rng.choice([{}, {}, {'after': rng.choice([0, 1, 2])}, {'at': time.now + rng.choice([0, 1, 2])}])
                    vol = rng.random() < 0.3
                    t = s.do(payload(i, rng.choice([0, 1, 3])), volatile=vol, **kw)
                    assert t.status == TaskState.CREATED
                    tasks.append(t)
                    s.do(awaiter(i, t), volatile=True)
                    pre = rng.random() < 0.4
                    if pre:
                        t.cancel('pre')
                        assert t.status == TaskState.CANCELLED
                    spec.append((kw, vol, pre))
                    for _ in range(rng.randrange(0, 2)):
                        await instant
                for _ in range(rng.randrange(0, 4)):
                    await instant
                if rng.random() < 0.3:
                    await (time + 1)
                for t in tasks:
                    if rng.random() < 0.3:
                        t.cancel('late')
                if exit_how == 'raise':
                    raise KeyError
                # let the volatile awaiters see results before scope end
                for t in tasks:
                    if not t.__volatile__:
                        await t.done
                await instant; await instant
        except KeyError:
            pass
        for i, (kw, vol, pre) in enumerate(spec):
            if pre:
                assert i not in started, ('payload of pre-cancelled task ran', i, kw)
                assert tasks[i].status == TaskState.CANCELLED
                if i in results: assert results[i] == ('cancelled', True), results[i]
            assert tasks[i].status & TaskState.FINISHED, (i, tasks[i].status)
            st = tasks[i].status
            await instant
            assert tasks[i].status == st
    run(main())

bad = 0
for seed in range(int(sys.argv[-1]) if sys.argv[-1].isdigit() else 3000):
    try:
        one(seed)
    except BaseException as e:
        bad += 1
        if bad < 6:
            print(seed, 'EXC', type(e).__name__, e)
print('failures', bad)
