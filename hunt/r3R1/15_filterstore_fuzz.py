import sys; sys.path.insert(0, sys.argv[1] if len(sys.argv) > 1 and sys.argv[1].startswith('/') else '/tmp/huntR1')
import random
import usim
from usim.py import Environment
from usim.py.resources.store import FilterStore
print(usim.__file__)

def mkfilter(kind, arg):
    if kind == 'mod': return lambda x: x % 3 == arg
    if kind == 'gt': return lambda x: x > arg
    return lambda x: True

def model(cap, ops):
    # ops sorted by time: ('put', t, item) / ('get', t, idx, filter, cancel_t)
    items, pend_get, pend_put = [], [], []
    res = {}
    evs = []
    for op in ops:
        evs.append((op[1], 0, op))
        if op[0] == 'get' and op[4] is not None:
            evs.append((op[4], 1, op))
    evs.sort(key=lambda e: (e[0], e[1]))
    def settle(t):
        changed = True
        while changed:
            changed = False
            while pend_put and len(items) < cap:
                items.append(pend_put.pop(0)); changed = True
            for g in list(pend_get):
                for k, it in enumerate(items):
                    if g[3](it):
                        items.pop(k); pend_get.remove(g); res[g[2]] = (it, t); changed = True
                        break
    for t, kind, op in evs:
        if kind == 1:
            if op in pend_get: pend_get.remove(op)
            continue
        if op[0] == 'put': pend_put.append(op[2])
        else: pend_get.append(op)
        settle(t)
    return res, items

def one(seed):
    rng = random.Random(seed)
    cap = rng.choice([1, 2, 3, float('inf')])
    ops = []
    t = 0.0
    gi = 0
    for k in range(rng.randrange(4, 16)):
        t += rng.choice([0.5, 1.0, 1.5])
        if rng.random() < 0.5:
            ops.append(('put', t, rng.randrange(0, 12)))
        else:
            kind = rng.choice(['mod', 'gt', 'any'])
            arg = rng.randrange(0, 3) if kind == 'mod' else rng.randrange(2, 11)
            ops.append(('get', t, gi, mkfilter(kind, arg), (t + rng.choice([0.25, 1.25, 3.25])) if rng.random() < 0.2 else None))
            gi += 1
    env = Environment()
    fs = FilterStore(env, capacity=cap)
    got = {}
    def putter(op):
        yield env.timeout(op[1])
        yield fs.put(op[2])
    def getter(op):
        yield env.timeout(op[1])
        req = fs.get(op[3])
        if op[4] is None:
            item = yield req
        else:
            r = yield req | env.timeout(op[4] - op[1])
            if req not in r:
                req.cancel(); return
            item = r[req]
        got[op[2]] = (item, env.now)
    for op in ops:
        env.process(putter(op) if op[0] == 'put' else getter(op))
    env.run(until=100)
    exp, items = model(cap, ops)
    return exp, got, items, fs.items, cap, ops

bad = 0
for seed in range(int(sys.argv[-1]) if sys.argv[-1].isdigit() else 2000):
    try:
        exp, got, items, fitems, cap, ops = one(seed)
    except BaseException as e:
        print(seed, 'EXC', type(e).__name__, e); bad += 1; continue
    if exp != got or items != fitems:
        bad += 1
        if bad < 5: print(seed, 'exp', exp, items, 'got', got, fitems, cap, [o[:3] + o[4:] for o in ops])
print('mismatches', bad)
