import sys; sys.path.insert(0, sys.argv[1] if len(sys.argv) > 1 else '/tmp/huntR1')
import usim
from usim import run, Scope, time, until, Flag, eternity, instant, Resources, Capacities, ResourcesUnavailable
print(usim.__file__)

bad = []
def check(tag, res, supply):
    lv = dict(res.levels)
    if lv != supply:
        bad.append((tag, lv))

async def monitor(res, tag, stop):
    # runs every turn, checks non-negativity
    while not stop:
        for k, v in res.levels:
            if v < 0:
                bad.append((tag, 'negative', dict(res.levels)))
        await instant

async def borrower(res, amounts, nested=None, claim=False):
    ctx = res.claim(**amounts) if claim else res.borrow(**amounts)
    async with ctx as b:
        await instant
        if nested:
            async with b.borrow(**nested):
                await instant
                await instant
        await instant

async def scenario(kind, k, mkres, supply, amounts, nested, claim, contender):
    res = mkres()
    tag = (kind, k, type(res).__name__, nested, claim, contender)
    async with Scope() as outer:
        outer.do(monitor(res, tag, []), volatile=True)
        if contender:
            # someone holds part so that the borrower has to wait
            async def holder():
                async with res.borrow(**amounts):
                    await instant; await instant
            outer.do(holder())
        if kind == 'cancel':
            async with Scope() as s:
                t = s.do(borrower(res, amounts, nested, claim))
                for _ in range(k):
                    await instant
                t.cancel()
        elif kind == 'close':
            async with Scope() as s:
                t = s.do(borrower(res, amounts, nested, claim), volatile=True)
                for _ in range(k):
                    await instant
        elif kind == 'until':
            f = Flag()
            async def trig():
                for _ in range(k):
                    await instant
                await f.set()
            outer.do(trig())
            async with until(f):
                try:
                    await borrower(res, amounts, nested, claim)
                except ResourcesUnavailable:
                    pass
        for _ in range(10):
            await instant
    check(tag, res, supply)

async def main():
    n = 0
    for kind in ('cancel', 'close', 'until'):
        for k in range(0, 16):
            for mkres, supply in ((lambda: Resources(a=3, b=2), {'a': 3, 'b': 2}), (lambda: Capacities(a=3, b=2), {'a': 3, 'b': 2})):
                for nested in (None, {'a': 1}):
                    for claim in (False, True):
                        for contender in (False, True):
                            if claim and contender:
                                continue
                            try:
                                await scenario(kind, k, mkres, supply, {'a': 2, 'b': 1}, nested, claim, contender)
                            except ResourcesUnavailable:
                                pass
                            n += 1
    print('scenarios', n, 'violations', len(bad))
    for b in bad[:20]:
        print(b)
run(main())
