import sys; sys.path.insert(0, sys.argv[1] if len(sys.argv) > 1 else '/tmp/huntR1')
import usim
from usim import run, time
from usim.py import Environment, Interrupt
print(usim.__file__)

def quick(v=42):
    return v
    yield
def failing():
    raise KeyError('boom')
    yield

env = Environment()
print('run(until=quick) ->', env.run(until=env.process(quick())), env.now)

env = Environment()
def parent():
    a, b = env.process(quick(1)), env.process(quick(2))
    r = yield a & b
    print('allof', list(r.values()), env.now)
    t = env.timeout(5)
    r = yield env.process(quick(3)) | t
    print('anyof', list(r.values()), env.now)
    p = env.process(quick(4))
    yield env.timeout(1)
    v = yield p      # already processed
    print('late wait', v, env.now)
    f = env.process(failing())
    try:
        yield f | env.timeout(1)
    except KeyError as e:
        print('anyof failing', repr(e), env.now)
    # interrupt a process that ends at once
    q = env.process(quick(5))
    q.interrupt('x')
    v = yield q
    print('interrupted quick', v, env.now)
    # empty generator without return value
    def empty():
        if False:
            yield
    v = yield env.process(empty())
    print('empty', v)
env.process(parent())
env.run()

# embedded in a native simulation, awaited by an activity
async def native():
    async with Environment() as env:
        p = env.process(quick(7))
        print('native await', await p, time.now)
        f = env.process(failing())
        try:
            await f
        except KeyError as e:
            print('native await failing', repr(e))
run(native())

# failing-before-yield process nobody waits for, inside native: run ends with KeyError
async def native2():
    async with Environment() as env:
        env.process(failing())
        await (time + 5)
        print('not reached')
try:
    run(native2())
except BaseException as e:
    print('native2 ->', type(e).__name__, e)
