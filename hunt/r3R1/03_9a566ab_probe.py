import sys; sys.path.insert(0, sys.argv[1] if len(sys.argv) > 1 else '/tmp/huntR1')
import usim
from usim import run, Scope, time, until, Flag, eternity, instant
print(usim.__file__)

async def body(tag, cond, dur=3):
    t0 = time.now
    try:
        async with until(cond):
            await (time + dur)
            print(tag, 'body completed at', time.now)
            return
    except BaseException as e:
        print(tag, 'EXC', type(e), e)
        raise
    print(tag, 'interrupted at', time.now)

async def main():
    await (time + 10)
    await body('>= now   (expect interrupted 10)', time >= 10)
    await body('>= past  (expect interrupted 10)', time >= 5)
    await body('== now   (expect interrupted 10)', time == 10)
    await body('== past  (expect completed 13)', time == 5)
    await body('<  now   (expect completed 16)', time < 16)
    await body('<  past  (expect completed 19)', time < 1)
    await body('<  future(expect interrupted 19)', time < 100)
    await body('== future(expect interrupted 20)', time == 20)
    await body('>= future(expect interrupted 21)', time >= 21)
    f = Flag()
    await body('(== past)&f (expect completed 24)', (time == 5) & f)
    await body('(== past)|f (expect completed 27)', (time == 5) | f)
    await f.set()
    await body('(== past)|f set (expect interrupted 27)', (time == 5) | f)
    await body('(== past)&f set (expect completed 30)', (time == 5) & f)
    await body('(>= now)&f set (expect interrupted 30)', (time >= 30) & f)
    await body('(== now)&f set (expect interrupted 30)', (time == 30) & f)
    # same object nested
    c = time == 31
    async with until(c):
        async with until(c):
            await (time + 5)
        print('inner left at', time.now, '(expect 31)')
        await (time + 5)
    print('outer left at', time.now, '(expect 31)')
    # same Moment object, one subscription before and one after the date
    m = time == 32
    async with until(m):
        await eternity
    print('m first', time.now, '(expect 32)')
    await (time + 1)
    await body('m reused past (expect completed 36)', m)
    a = time >= 37
    async def w(tag):
        async with until(a):
            await eternity
        print(tag, time.now)
    async with Scope() as s:
        s.do(w('w1 expect 37'))
        s.do(w('w2 expect 37'), at=37)
        s.do(w('w3 expect 38'), at=38)
    print('end', time.now)

run(main())
for start, till in ((0, 0), (5, 5), (-3, -3), (5, 2)):
    async def r():
        print('root runs at', time.now)
        await (time + 1)
        print('root not expected here', time.now)
    run(r(), start=start, till=till)
    print('run till=start ok', start, till)
