import sys; sys.path.insert(0, sys.argv[1] if len(sys.argv) > 1 else '/tmp/huntR1')
import gc
import usim
from usim import run, Scope, time, until, Flag, eternity, instant, interval, delay, Queue, Channel, first, Lock, Resources
print(usim.__file__)
keep = []
log = []
async def ticker(mk, hold):
    source = mk()
    if hold:
        keep.append(source)   # generator outlives the task
    async for now in source:
        log.append(now)

async def main():
    for mk in (lambda: interval(10), lambda: delay(10)):
        for hold in (False, True):
            async with Scope() as s:
                s.do(ticker(mk, hold), volatile=True)
                await (time + 25)
            t = time.now
            await (time + 30)
            print('ok', hold, t, log); log.clear()
    # closed while blocked in an async generator that holds a lock / borrow
    lock = Lock(); res = Resources(a=1)
    async def gen():
        async with lock:
            async with res.borrow(a=1):
                yield 1
                await eternity
                yield 2
    async def user(hold):
        g = gen()
        if hold: keep.append(g)
        async for x in g:
            log.append(x)
    for hold in (False, True):
        async with Scope() as s:
            s.do(user(hold), volatile=True)
            await (time + 1)
        await (time + 1)
        gc.collect()
        print('after close: lock available', lock.available, 'levels', res.levels, 'hold', hold)
run(main())
