import sys; sys.path.insert(0, sys.argv[1] if len(sys.argv) > 1 else '/tmp/huntR1')
import usim
from usim import run, Scope, time, Concurrent, TaskCancelled
print(usim.__file__)

class MyErr(Exception): pass

async def ok(d=1):
    await (time + d)
async def fail(d, exc):
    await (time + d)
    raise exc
async def own_concurrent():
    async with Scope() as s:
        s.do(fail(1, KeyError(1)))
        s.do(fail(1, IndexError(2)))
async def raises_plain_concurrent():
    await (time + 1)
    raise Concurrent(KeyError('inner'))
async def raises_empty_concurrent():
    await (time + 1)
    raise Concurrent()

def show(tag, *acts, **kw):
    res = []
    for k in ({}, {'till': 100}):
        try:
            run(*[a() for a in acts], **k, **kw)
            res.append('no exception')
        except BaseException as e:
            res.append(repr(e))
    print(tag, '| without till:', res[0], '| with till:', res[1], '|', 'SAME' if res[0] == res[1] else 'DIFFERENT')

show('plain', lambda: fail(1, KeyError('k')))
show('two fail same step', lambda: fail(1, KeyError('first')), lambda: fail(1, IndexError('second')))
show('two fail diff step', lambda: fail(2, KeyError('late')), lambda: fail(1, IndexError('early')))
show('own concurrent', own_concurrent)
show('raise Concurrent(KeyError)', raises_plain_concurrent)
show('raise Concurrent()', raises_empty_concurrent)
show('assertion', lambda: fail(1, AssertionError('a')))
show('fail at start', lambda: fail(0, MyErr('now')) , start=5)
