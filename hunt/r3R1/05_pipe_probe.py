import sys; sys.path.insert(0, sys.argv[1] if len(sys.argv) > 1 else '/tmp/huntR1')
import usim
from usim import run, Scope, time, until, Flag, eternity, instant, Pipe, UnboundedPipe
print(usim.__file__)

async def tr(pipe, tag, total, thr=None, log=None):
    t0 = time.now
    try:
        await pipe.transfer(total, thr)
    finally:
        if log is not None:
            log.append((tag, time.now - t0))

async def main():
    p = Pipe(throughput=2)
    log = []
    # A: 10 units; B: 10 units cancelled at t=1; expect A: 1 time unit at rate 1 + 9/2 = 5.5
    async with Scope() as s:
        a = s.do(tr(p, 'A', 10, log=log))
        b = s.do(tr(p, 'B', 10, log=log))
        await (time + 1)
        b.cancel()
    print('cancel', log, 'expect A 5.5', p._subscriptions, p._throughput_scale)
    log.clear()
    async with Scope() as s:
        a = s.do(tr(p, 'A', 10, log=log))
        async with until(time + 1):
            await p.transfer(10)
    print('until', log, 'expect A 5.5', p._subscriptions, p._throughput_scale)
    log.clear()
    async with Scope() as s:
        a = s.do(tr(p, 'A', 10, log=log))
        async with Scope() as s2:
            s2.do(tr(p, 'B', 100), volatile=True)
            await (time + 1)
    print('volatile close', log, 'expect A 5.5', p._subscriptions, p._throughput_scale)
    log.clear()
    # cancel before start: never registered
    async with Scope() as s:
        a = s.do(tr(p, 'A', 10, log=log))
        b = s.do(tr(p, 'B', 10, log=log))
        b.cancel()
    print('cancel before start', log, 'expect A 5.0', p._subscriptions, p._throughput_scale)
    log.clear()
    # zero-volume transfers next to a real one: expect A 5.0, zero at 0
    order = []
    async def zero(n):
        for i in range(n):
            await p.transfer(0)
            order.append(('z', i, time.now))
    async def other():
        for i in range(3):
            order.append(('o', i, time.now))
            await instant
    t0 = time.now
    async with Scope() as s:
        a = s.do(tr(p, 'A', 10, log=log))
        s.do(zero(3), after=1.1)
        s.do(other(), after=1.1)
    print('zero', log, 'expect A 5.0', [(a, b, c - t0) for a, b, c in order], p._subscriptions, p._throughput_scale)
    # zero transfer cancelled during its postpone
    async with Scope() as s:
        z = s.do(p.transfer(0))
        await instant
        z.cancel()
    print('zero cancelled', p._subscriptions, p._throughput_scale)
    # many transfers, one interrupted, check fluid model
    log.clear()
    p3 = Pipe(throughput=3)
    async with Scope() as s:
        s.do(tr(p3, 'A', 6, 3, log=log))   # alone: 2
        s.do(tr(p3, 'B', 6, 3, log=log))
        c = s.do(tr(p3, 'C', 6, 3, log=log))
        await (time + 3)   # each has 3 transferred at rate 1
        c.cancel()         # A, B continue at 1.5 -> 2 more
    print('three', log, 'expect C 3, A 5, B 5')

run(main())
