import sys; sys.path.insert(0, sys.argv[1] if len(sys.argv) > 1 and sys.argv[1].startswith('/') else '/tmp/huntR1')
import random, heapq
import usim
from usim.py import Environment
from usim.py.resources.resource import PriorityResource
print(usim.__file__)

def model(cap, users):
    # users: (arrive, prio, hold, cancel_after or None); returns grant times
    events = [(u[0], 0, i) for i, u in enumerate(users)]
    heapq.heapify(events)
    queue = []   # (prio, arrive, i)
    inuse = 0
    grant = [None] * len(users)
    cancelled = set()
    while events:
        t, kind, i = heapq.heappop(events)
        if kind == 0:
            if inuse < cap and not queue:
                inuse += 1; grant[i] = t
                heapq.heappush(events, (t + users[i][2], 1, i))
            else:
                heapq.heappush(queue, (users[i][1], users[i][0], i))
                if users[i][3] is not None:
                    heapq.heappush(events, (t + users[i][3], 2, i))
        elif kind == 2:
            if grant[i] is None:
                cancelled.add(i)
        else:
            inuse -= 1
            while queue and inuse < cap:
                p, a, j = heapq.heappop(queue)
                if j in cancelled: continue
                inuse += 1; grant[j] = t
                heapq.heappush(events, (t + users[j][2], 1, j))
    return grant

def one(seed):
    rng = random.Random(seed)
    cap = rng.choice([1, 1, 2, 3])
    n = rng.randrange(3, 12)
    users = []
    for i in range(n):
        users.append((round(rng.uniform(0, 10), 3) + i * 1e-4, rng.randrange(0, 4), round(rng.uniform(0.5, 6), 3) + i * 1e-5,
                      (round(rng.uniform(0.1, 5), 3) + i * 1e-6) if rng.random() < 0.25 else None))
    env = Environment()
    res = PriorityResource(env, capacity=cap)
    got = [None] * n
    def user(i):
        a, p, h, c = users[i]
        yield env.timeout(a)
        req = res.request(priority=p)
        if c is None:
            yield req
        else:
            r = yield req | env.timeout(c)
            if req not in r:
                req.cancel()
                return
        got[i] = env.now
        yield env.timeout(h)
        yield res.release(req)
    for i in range(n):
        env.process(user(i))
    env.run()
    return model(cap, users), got, cap, users

bad = 0
for seed in range(int(sys.argv[-1]) if sys.argv[-1].isdigit() else 2000):
    try:
        exp, got, cap, users = one(seed)
    except BaseException as e:
        print(seed, 'EXC', type(e).__name__, e); bad += 1; continue
    ok = all((e is None and g is None) or (e is not None and g is not None and abs(e - g) < 1e-9) for e, g in zip(exp, got))
    if not ok:
        bad += 1
        if bad < 5: print(seed, 'exp', exp, 'got', got, cap, users)
print('mismatches', bad)
