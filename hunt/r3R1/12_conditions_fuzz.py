import sys; sys.path.insert(0, sys.argv[1] if len(sys.argv) > 1 and sys.argv[1].startswith('/') else '/tmp/huntR1')
import random, faulthandler
faulthandler.enable()
import usim
from usim import run, Scope, time, until, Flag, eternity, instant
print(usim.__file__)
HORIZON = 8

def gen_tree(rng, depth, nflags):
    if depth == 0 or rng.random() < 0.3:
        k = rng.random()
        if k < 0.45: return ('f', rng.randrange(nflags))
        if k < 0.65: return ('nf', rng.randrange(nflags))
        if k < 0.8: return ('ge', rng.randrange(0, HORIZON))
        if k < 0.9: return ('eq', rng.randrange(0, HORIZON))
        return ('lt', rng.randrange(0, HORIZON))
    op = rng.choice(['and', 'or'])
    return (op, [gen_tree(rng, depth - 1, nflags) for _ in range(rng.randrange(2, 4))])

def build(tree, flags):
    k = tree[0]
    if k == 'f': return flags[tree[1]]
    if k == 'nf': return ~flags[tree[1]]
    if k == 'ge': return time >= tree[1]
    if k == 'eq': return time == tree[1]
    if k == 'lt': return time < tree[1]
    parts = [build(t, flags) for t in tree[1]]
    c = parts[0]
    for p in parts[1:]:
        c = (c & p) if k == 'and' else (c | p)
    return c

def truth(tree, vals, t):
    k = tree[0]
    if k == 'f': return vals[tree[1]]
    if k == 'nf': return not vals[tree[1]]
    if k == 'ge': return t >= tree[1]
    if k == 'eq': return t == tree[1]
    if k == 'lt': return t < tree[1]
    rs = [truth(x, vals, t) for x in tree[1]]
    return all(rs) if k == 'and' else any(rs)

def expected(tree, nflags, changes, t0):
    vals = [False] * nflags
    times = sorted(set([t0] + [float(t) for t in range(HORIZON + 1)]))
    for t in times:
        for (ct, i, v) in changes:
            if ct == t: vals[i] = v
        if t >= t0 and truth(tree, vals, t):
            return t
    return None

def one(seed, mode):
    rng = random.Random(seed)
    nflags = 3
    tree = gen_tree(rng, 3, nflags)
    changes = []
    for t in range(HORIZON + 1):
        for i in range(nflags):
            if rng.random() < 0.25:
                changes.append((float(t), i, rng.random() < 0.6))
    t0 = rng.randrange(0, HORIZON) + 0.5
    got = []
    async def setter(t, i, v, flags):
        await (time == t)
        await flags[i].set(v)
    async def waiter(flags):
        await (time == t0)
        c = build(tree, flags)
        if mode == 'await':
            await c
            got.append(time.now)
        else:
            async with until(c):
                await eternity
            got.append(time.now)
    async def main():
        flags = [Flag() for _ in range(nflags)]
        async with until(time >= HORIZON + 2) as s:
            for (t, i, v) in changes:
                s.do(setter(t, i, v, flags))
            s.do(waiter(flags))
    run(main())
    exp = expected(tree, nflags, changes, t0)
    g = got[0] if got else None
    return exp, g, tree, changes, t0

bad = 0
N = int(sys.argv[-1]) if sys.argv[-1].isdigit() else 3000
for mode in ('await', 'until'):
    for seed in range(N):
        try:
            exp, g, tree, changes, t0 = one(seed, mode)
        except BaseException as e:
            print(mode, seed, 'EXC', type(e).__name__, e); bad += 1; continue
        if exp != g:
            bad += 1
            if bad < 8:
                print(mode, seed, 'expected', exp, 'got', g, tree, changes, t0)
print('mismatches', bad)
