import sys; sys.path.insert(0, sys.argv[1] if len(sys.argv) > 1 else '/tmp/huntR1')
import usim
from usim import run, Scope, time, Tracked, instant
assert usim.__file__.startswith(sys.path[0]), usim.__file__
# The commit message says "in subscription order"; what is implemented is the order in
# which the comparison OBJECTS were created, not the order in which activities
# started to wait. Deterministic, but not FIFO over waiters.
order = []
async def waiter(name, cond):
    await cond
    order.append(name)
async def main():
    t = Tracked(0)
    late_created_first = t > 1     # created first, awaited last
    early = t > 0                  # created second, awaited first
    junk = [t > i for i in range(50)]; del junk   # dead listeners in between
    async with Scope() as s:
        s.do(waiter('A (started waiting first)', early))
        await instant
        s.do(waiter('B (started waiting second)', late_created_first))
        await instant
        await t.set(5)
run(main())
print('wake order:', order)
print('FIFO over waiters would be A, B; implemented (creation order of comparisons) gives B, A')
