import sys; sys.path.insert(0, sys.argv[1] if len(sys.argv) > 1 else '/tmp/huntR1')
import traceback
import usim
from usim import run, Scope, time, Concurrent
print(usim.__file__)

async def failing():
    await (time + 1)
    try:
        {}['missing']
    except KeyError:
        raise ValueError('while handling the KeyError')   # implicit __context__

async def nested():
    async with Scope() as s:
        s.do(failing())

for kw in ({}, {'till': 10}):
    for act in (failing, nested):
        try:
            run(act(), **kw)
        except BaseException as e:
            leaf = e.children[0] if isinstance(e, Concurrent) else e
            print(kw, act.__name__, '->', type(e).__name__, '| leaf.__context__ =', repr(leaf.__context__),
                  '| e.__context__ =', type(e.__context__).__name__)
print()
print('expected: identical rows with and without till; the ValueError keeps __context__ KeyError')
print('--- traceback shown to the user with till=10:')
try:
    run(failing(), till=10)
except ValueError:
    tb = traceback.format_exc()
    print('KeyError mentioned in traceback:', "KeyError: 'missing'" in tb)
try:
    run(failing())
except ValueError:
    tb = traceback.format_exc()
    print('without till, KeyError mentioned in traceback:', "KeyError: 'missing'" in tb)
