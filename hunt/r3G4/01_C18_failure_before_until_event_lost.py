# Property C18, sentence: "`env.run(until=...)` stops exactly at the given time or event and
# returns its value, an unhandled failed event ends the run with that exception".
#
# Scenario: an event fails, nobody waits for it (unhandled), and LATER IN THE SAME TIME STEP
# the `until` event of env.run(until=event) triggers.  The failed event was triggered
# strictly before the until event, so (as in SimPy, which processes events in trigger
# order) the run has to end with the exception of the failed event.
#
# Expected: env.run(until=proc) raises ValueError('boom')   (SimPy: does)
# Observed: env.run returns 'done'; the failure is silently dropped.
#
# Mechanism: the failing event's callback activity fails -> the environment scope schedules
# its own cancellation, but the activity of Environment.until() was already woken by the
# until event; it raises StopSimulation, which is in PROMOTE_CONCURRENT of EnvironmentScope,
# so Scope._propagate_exceptions() returns without looking at the collected child failures.
#
# Not the known "run(until=failing_event) returns the exception" nor "callbacks/waiters of the
# until event are not run": here a DIFFERENT event fails, and it fails first.
# Confidence: medium-high (clear loss of an exception; differs from SimPy; docs silent).
import sys; sys.path.insert(0, '/tmp/huntG4')
import usim
assert usim.__file__.startswith('/tmp/huntG4')
from usim.py import Environment


def variant_one_process():
    env = Environment()
    broken = env.event()

    def proc(env):
        yield env.timeout(1)
        broken.fail(ValueError('boom'))  # nobody waits for `broken`
        return 'done'

    p = env.process(proc(env))
    return env, env.run(until=p)


def variant_two_processes():
    env = Environment()
    stop = env.event()

    def failing(env):
        yield env.timeout(1)
        raise ValueError('boom')  # nobody waits for this process

    def stopper(env):
        yield env.timeout(1)  # same time, but started later: runs after `failing`
        stop.succeed('stopped')

    env.process(failing(env))
    env.process(stopper(env))
    return env, env.run(until=stop)


def control_without_until():
    env = Environment()
    broken = env.event()

    def proc(env):
        yield env.timeout(1)
        broken.fail(ValueError('boom'))
        return 'done'

    env.process(proc(env))
    return env, env.run()


for variant in (variant_one_process, variant_two_processes, control_without_until):
    try:
        env, result = variant()
    except ValueError as err:
        print(f'{variant.__name__}: run raised {err!r}  (what the property demands)')
    else:
        print(f'{variant.__name__}: run returned {result!r} at {env.now}'
              f'  <-- VIOLATION: the unhandled failure was dropped')
