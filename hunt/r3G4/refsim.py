"""
Small reference model of SimPy 4 semantics (written from memory of the SimPy sources),
used only as an oracle for differential fuzzing of ``usim.py``.

Deviation on purpose: ``Process.interrupt`` of a finished process is ignored
(that is what property C18 demands) instead of raising RuntimeError.
"""
from heapq import heappush, heappop
from itertools import count

PENDING = object()
URGENT = 0
NORMAL = 1


class Interrupt(Exception):
    @property
    def cause(self):
        return self.args[0]


class StopSimulation(Exception):
    @classmethod
    def callback(cls, event):
        if event._ok:
            raise cls(event._value)
        raise event._value


class EmptySchedule(Exception):
    pass


class Event:
    def __init__(self, env):
        self.env = env
        self.callbacks = []
        self._value = PENDING
        self._ok = None

    @property
    def triggered(self):
        return self._value is not PENDING

    @property
    def processed(self):
        return self.callbacks is None

    @property
    def ok(self):
        return self._ok

    @property
    def defused(self):
        return hasattr(self, '_defused')

    @defused.setter
    def defused(self, value):
        self._defused = True

    @property
    def value(self):
        if self._value is PENDING:
            raise AttributeError('value not yet available')
        return self._value

    def trigger(self, event):
        self._ok = event._ok
        self._value = event._value
        self.env.schedule(self)

    def succeed(self, value=None):
        if self._value is not PENDING:
            raise RuntimeError('already triggered')
        self._ok = True
        self._value = value
        self.env.schedule(self)
        return self

    def fail(self, exception):
        if self._value is not PENDING:
            raise RuntimeError('already triggered')
        if not isinstance(exception, BaseException):
            raise ValueError('not an exception')
        self._ok = False
        self._value = exception
        self.env.schedule(self)
        return self

    def __and__(self, other):
        return Condition(self.env, Condition.all_events, [self, other])

    def __or__(self, other):
        return Condition(self.env, Condition.any_events, [self, other])


class Timeout(Event):
    def __init__(self, env, delay, value=None):
        if delay < 0:
            raise ValueError('negative delay')
        self.env = env
        self.callbacks = []
        self._value = value
        self._delay = delay
        self._ok = True
        env.schedule(self, NORMAL, delay)


class Initialize(Event):
    def __init__(self, env, process):
        self.env = env
        self.callbacks = [process._resume]
        self._value = None
        self._ok = True
        env.schedule(self, URGENT)


class Interruption(Event):
    def __init__(self, process, cause):
        self.env = process.env
        self.callbacks = [self._interrupt]
        self._value = Interrupt(cause)
        self._ok = False
        self._defused = True
        self.process = process
        self.env.schedule(self, URGENT)

    def _interrupt(self, event):
        if self.process._value is not PENDING:
            return
        self.process._target.callbacks.remove(self.process._resume)
        self.process._resume(self)


class Process(Event):
    def __init__(self, env, generator):
        super().__init__(env)
        self._generator = generator
        self._target = Initialize(env, self)

    @property
    def target(self):
        return self._target

    @property
    def is_alive(self):
        return self._value is PENDING

    def interrupt(self, cause=None):
        if self._value is not PENDING:
            return  # property C18: ignored for a finished process
        Interruption(self, cause)

    def _resume(self, event):
        self.env._active_proc = self
        while True:
            try:
                if event._ok:
                    event = self._generator.send(event._value)
                else:
                    event._defused = True
                    event = self._generator.throw(event._value)
            except StopIteration as e:
                event = None
                self._ok = True
                self._value = e.args[0] if len(e.args) else None
                self.env.schedule(self)
                break
            except BaseException as e:
                event = None
                self._ok = False
                self._value = e
                self.env.schedule(self)
                break
            if event.callbacks is not None:
                event.callbacks.append(self._resume)
                break
        self._target = event
        self.env._active_proc = None


class ConditionValue:
    def __init__(self):
        self.events = []

    def __getitem__(self, key):
        if key not in self.events:
            raise KeyError(key)
        return key._value

    def __contains__(self, key):
        return key in self.events

    def todict(self):
        return {e: e._value for e in self.events}

    def keys(self):
        return iter(self.events)


class Condition(Event):
    def __init__(self, env, evaluate, events):
        super().__init__(env)
        self._evaluate = evaluate
        self._events = tuple(events)
        self._count = 0
        if not self._events:
            self.succeed(ConditionValue())
            return
        for event in self._events:
            if event.callbacks is None:
                self._check(event)
            else:
                event.callbacks.append(self._check)
        self.callbacks.append(self._build_value)

    def _populate_value(self, value):
        for event in self._events:
            if isinstance(event, Condition):
                event._populate_value(value)
            elif event.callbacks is None:
                value.events.append(event)

    def _build_value(self, event):
        self._remove_check_callbacks()
        if event._ok:
            self._value = ConditionValue()
            self._populate_value(self._value)

    def _remove_check_callbacks(self):
        for event in self._events:
            if event.callbacks and self._check in event.callbacks:
                event.callbacks.remove(self._check)
            if isinstance(event, Condition):
                event._remove_check_callbacks()

    def _check(self, event):
        if self._value is not PENDING:
            return
        self._count += 1
        if not event._ok:
            event._defused = True
            self.fail(event._value)
        elif self._evaluate(self._events, self._count):
            self.succeed()

    @staticmethod
    def all_events(events, count):
        return len(events) == count

    @staticmethod
    def any_events(events, count):
        return count > 0 or len(events) == 0


class AllOf(Condition):
    def __init__(self, env, events):
        super().__init__(env, Condition.all_events, events)


class AnyOf(Condition):
    def __init__(self, env, events):
        super().__init__(env, Condition.any_events, events)


class Environment:
    def __init__(self, initial_time=0):
        self._now = initial_time
        self._queue = []
        self._eid = count()
        self._active_proc = None

    @property
    def now(self):
        return self._now

    @property
    def active_process(self):
        return self._active_proc

    def schedule(self, event, priority=NORMAL, delay=0):
        heappush(self._queue, (self._now + delay, priority, next(self._eid), event))

    def process(self, generator):
        return Process(self, generator)

    def timeout(self, delay, value=None):
        return Timeout(self, delay, value)

    def event(self):
        return Event(self)

    def all_of(self, events):
        return AllOf(self, events)

    def any_of(self, events):
        return AnyOf(self, events)

    def step(self):
        try:
            self._now, _, _, event = heappop(self._queue)
        except IndexError:
            raise EmptySchedule()
        callbacks, event.callbacks = event.callbacks, None
        for callback in callbacks:
            callback(event)
        if not event._ok and not hasattr(event, '_defused'):
            raise event._value

    def run(self, until=None):
        if until is not None:
            if not isinstance(until, Event):
                at = until
                if at <= self.now:
                    raise ValueError('until must be > now')
                until = Event(self)
                until._ok = True
                until._value = None
                self.schedule(until, URGENT, at - self.now)
            elif until.callbacks is None:
                return until.value
            until.callbacks.append(StopSimulation.callback)
        try:
            while True:
                self.step()
        except StopSimulation as exc:
            return exc.args[0]
        except EmptySchedule:
            if until is not None:
                raise RuntimeError('until event was not triggered')
        return None


# ---------------------------------------------------------------- resources
class BaseRequest(Event):
    def __init__(self, resource):
        super().__init__(resource._env)
        self.resource = resource
        self.proc = self.env.active_process

    def __enter__(self):
        return self

    def __exit__(self, *a):
        self.cancel()


class Put(BaseRequest):
    def __init__(self, resource):
        super().__init__(resource)
        resource.put_queue.append(self)
        self.callbacks.append(resource._trigger_get)
        resource._trigger_put(None)

    def cancel(self):
        if not self.triggered and self in self.resource.put_queue:
            self.resource.put_queue.remove(self)


class Get(BaseRequest):
    def __init__(self, resource):
        super().__init__(resource)
        resource.get_queue.append(self)
        self.callbacks.append(resource._trigger_put)
        resource._trigger_get(None)

    def cancel(self):
        if not self.triggered and self in self.resource.get_queue:
            self.resource.get_queue.remove(self)


class BaseResource:
    PutQueue = list
    GetQueue = list

    def __init__(self, env, capacity):
        self._env = env
        self._capacity = capacity
        self.put_queue = self.PutQueue()
        self.get_queue = self.GetQueue()

    @property
    def capacity(self):
        return self._capacity

    def _trigger_put(self, get_event):
        idx = 0
        while idx < len(self.put_queue):
            put_event = self.put_queue[idx]
            proceed = self._do_put(put_event)
            if not put_event.triggered:
                idx += 1
            elif self.put_queue.pop(idx) != put_event:
                raise RuntimeError('Put queue invariant violated')
            if not proceed:
                break

    def _trigger_get(self, put_event):
        idx = 0
        while idx < len(self.get_queue):
            get_event = self.get_queue[idx]
            proceed = self._do_get(get_event)
            if not get_event.triggered:
                idx += 1
            elif self.get_queue.pop(idx) != get_event:
                raise RuntimeError('Get queue invariant violated')
            if not proceed:
                break


class ContainerPut(Put):
    def __init__(self, container, amount):
        if amount <= 0:
            raise ValueError('amount must be > 0')
        self.amount = amount
        super().__init__(container)


class ContainerGet(Get):
    def __init__(self, container, amount):
        if amount <= 0:
            raise ValueError('amount must be > 0')
        self.amount = amount
        super().__init__(container)


class Container(BaseResource):
    def __init__(self, env, capacity=float('inf'), init=0):
        if capacity <= 0:
            raise ValueError
        if init < 0 or init > capacity:
            raise ValueError
        super().__init__(env, capacity)
        self._level = init

    @property
    def level(self):
        return self._level

    def put(self, amount=1):
        return ContainerPut(self, amount)

    def get(self, amount=1):
        return ContainerGet(self, amount)

    def _do_put(self, event):
        if self._capacity - self._level >= event.amount:
            self._level += event.amount
            event.succeed()
            return True
        return None

    def _do_get(self, event):
        if self._level >= event.amount:
            self._level -= event.amount
            event.succeed()
            return True
        return None


class StorePut(Put):
    def __init__(self, store, item):
        self.item = item
        super().__init__(store)


class StoreGet(Get):
    pass


class FilterStoreGet(StoreGet):
    def __init__(self, resource, filter=lambda item: True):
        self.filter = filter
        super().__init__(resource)


class Store(BaseResource):
    def __init__(self, env, capacity=float('inf')):
        if capacity <= 0:
            raise ValueError
        super().__init__(env, capacity)
        self.items = []

    def put(self, item):
        return StorePut(self, item)

    def get(self):
        return StoreGet(self)

    def _do_put(self, event):
        if len(self.items) < self._capacity:
            self.items.append(event.item)
            event.succeed()
        return None

    def _do_get(self, event):
        if self.items:
            event.succeed(self.items.pop(0))
        return None


class PriorityStore(Store):
    def _do_put(self, event):
        if len(self.items) < self._capacity:
            self.items.append(event.item)
            self.items.sort()
            event.succeed()
        return None

    def _do_get(self, event):
        if self.items:
            event.succeed(self.items.pop(0))
        return None


class FilterStore(Store):
    def get(self, filter=lambda item: True):
        return FilterStoreGet(self, filter)

    def _do_get(self, event):
        for item in self.items:
            if event.filter(item):
                self.items.remove(item)
                event.succeed(item)
                break
        return True


class Preempted:
    def __init__(self, by, usage_since, resource):
        self.by = by
        self.usage_since = usage_since
        self.resource = resource


class Request(Put):
    def __exit__(self, *a):
        super().__exit__(*a)
        if self.triggered:  # simpy: exc_type is not GeneratorExit
            self.resource.release(self)

    usage_since = None


class Release(Get):
    def __init__(self, resource, request):
        self.request = request
        super().__init__(resource)


class PriorityRequest(Request):
    def __init__(self, resource, priority=0, preempt=True):
        self.priority = priority
        self.preempt = preempt
        self.time = resource._env.now
        self.usage_since = None
        self.key = (self.priority, self.time, not self.preempt)
        super().__init__(resource)


class SortedQueue(list):
    def append(self, item):
        super().append(item)
        super().sort(key=lambda e: e.key)


class Resource(BaseResource):
    def __init__(self, env, capacity=1):
        if capacity <= 0:
            raise ValueError
        super().__init__(env, capacity)
        self.users = []
        self.queue = self.put_queue

    @property
    def count(self):
        return len(self.users)

    def request(self):
        return Request(self)

    def release(self, request):
        return Release(self, request)

    def _do_put(self, event):
        if len(self.users) < self.capacity:
            self.users.append(event)
            event.usage_since = self._env.now
            event.succeed()
        return None

    def _do_get(self, event):
        try:
            self.users.remove(event.request)
        except ValueError:
            pass
        event.succeed()
        return None


class PriorityResource(Resource):
    PutQueue = SortedQueue

    def request(self, priority=0, preempt=True):
        return PriorityRequest(self, priority, preempt)


class PreemptiveResource(PriorityResource):
    def _do_put(self, event):
        if len(self.users) >= self.capacity and event.preempt:
            preempt = sorted(self.users, key=lambda e: e.key)[-1]
            if preempt.key > event.key:
                self.users.remove(preempt)
                preempt.proc.interrupt(
                    Preempted(by=event.proc, usage_since=preempt.usage_since,
                              resource=self))
        return super()._do_put(event)
