# Property C18, sentences: "AllOf/AnyOf fire when all/any members have fired", "every process
# or activity waiting for it ... has its exception raised", "an unhandled failed event ends
# the run with that exception" (so a HANDLED failure must not end the run).
#
# Scenario: a process waits for  timeout(1) | (never & worker)  -- the outer AnyOf fires at
# t=1 through the timeout, the process goes on.  At t=5 `worker` fails and the process that
# waits for `worker` catches the exception: the failure is handled.
#
# Expected (SimPy: a condition that fired detaches its nested conditions, _remove_check_
# callbacks): the run goes on to t=15 and ends normally.
# Observed: the run ends at t=5 with the worker's exception, although it was handled: the
# nested AllOf keeps watching after its parent fired, fails with the member's exception, and
# nobody can ever wait for/defuse it.
# Confidence: medium (difference to SimPy in a plain `a | (b & c)` expression; the nested
# condition is an object the user never sees, so he cannot defuse it).
import sys; sys.path.insert(0, '/tmp/huntG4')
import usim
assert usim.__file__.startswith('/tmp/huntG4')
from usim.py import Environment


class Boom(Exception):
    pass


def worker(env):
    yield env.timeout(5)
    raise Boom('worker failed')


def user(env, work, never):
    result = yield env.timeout(1, 'tick') | (never & work)
    print(env.now, 'condition fired with', list(result.values()))
    try:
        yield work
    except Boom as err:
        print(env.now, 'user handled', repr(err))
    yield env.timeout(10)
    print(env.now, 'user done')


env = Environment()
never = env.event()
work = env.process(worker(env))
env.process(user(env, work, never))
try:
    env.run()
except Boom as err:
    print(f'VIOLATION: run ended at {env.now} with the handled exception {err!r}')
else:
    print('run ended normally at', env.now)
