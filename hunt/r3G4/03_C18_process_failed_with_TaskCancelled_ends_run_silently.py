# Property C18, sentences: "an unhandled failed event ends the run with that exception" and
# "activities and processes can wait for each other's events, notifications and coroutines
# with the same results".
#
# Scenario: a process yields a native Task that gets cancelled.  `yield task` raises
# TaskCancelled in the process (same result as `await task` in an activity - fine).  The
# process does not handle it, so the Process event FAILS with TaskCancelled and nobody waits
# for it: an unhandled failed event.
#
# Expected: the run ends with that exception (TaskCancelled), like for any other exception
#           type (see the control with ValueError below).
# Observed: env.until()/`async with env` returns NORMALLY at t=1; the other, unrelated process
#           (due at t=5) is silently closed and never finishes; the failure is only visible
#           as p.ok == False.
#
# Mechanism: Event._invoke_callbacks raises the exception inside a child task of the
# EnvironmentScope; TaskCancelled/TaskClosed/GeneratorExit are in Scope.SUPPRESS_CONCURRENT,
# so the scope is cancelled by the failed child but re-raises nothing.
#
# RELATED KNOWN ITEM: "A child that awaits a cancelled sibling and does not handle
# TaskCancelled stops its scope, which then ends without exception (SUPPRESS_CONCURRENT, by
# design)".  This is the same mechanism surfacing in the SimPy layer, where the failure is a
# failed *event* (Process) and the property promises that it ends the run with the exception.
# Confidence: low-medium (may be judged "by design" together with the known item).
import sys; sys.path.insert(0, '/tmp/huntG4')
import usim
assert usim.__file__.startswith('/tmp/huntG4')
from usim import Scope, time, run
from usim.py import Environment


def scenario(make_error):
    result = {}

    async def main():
        async with Scope() as scope:
            task = scope.do(time + 100, volatile=True)
            env = Environment()

            def fragile(env):
                yield env.timeout(1)
                if make_error is None:
                    task.cancel()
                    yield task  # raises TaskCancelled here, not handled
                else:
                    raise make_error

            def other(env):
                yield env.timeout(5)
                result['other finished'] = env.now

            proc = env.process(fragile(env))
            env.process(other(env))
            try:
                await env.until()
            except BaseException as err:
                result['until raised'] = repr(err)
            else:
                result['until returned at'] = env.now
            result['proc.ok'] = proc.ok
            result['proc.value'] = repr(proc.value)
    run(main())
    return result


print('control, process fails with ValueError:  ', scenario(ValueError('boom')))
print('process fails with TaskCancelled:        ', scenario(None))
