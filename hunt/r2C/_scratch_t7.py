import sys; sys.path.insert(0, '/tmp/huntC')
import usim
from usim import run, time, Scope, TaskCancelled, first

log = []
async def act(name, d):
    try:
        await (time + d)
        log.append((name, 'done', time.now))
        return name
    except BaseException as e:
        log.append((name, type(e).__name__, time.now))
        raise

async def caller_named():
    gen = first(act('a', 1), act('b', 5), act('c', 6), count=3)
    async for r in gen:
        log.append(('got', r, time.now))
        await (time + 100)

async def caller_named_wait():
    gen = first(act('a', 1), act('b', 5), act('c', 6), count=3)
    async for r in gen:
        log.append(('got', r, time.now))

async def main():
    for caller in (caller_named, caller_named_wait):
        t0 = time.now
        async with Scope() as s:
            t = s.do(caller())
            await (time + 3)
            t.cancel('x')
            await (time + 20)
        print(caller.__name__, [(a, b, c - t0) for a, b, c in log]); log.clear()
run(main())
