import sys; sys.path.insert(0, '/tmp/huntC')
import usim
assert usim.__file__.startswith('/tmp/huntC')
from usim import run, time, Scope, TaskCancelled, first, collect, until, instant

log = []
async def winner():
    await (time + 1)
    return 'w'

async def loser():
    await (time + 1)
    log.append(('loser step1', time.now))
    await instant
    log.append(('loser step2', time.now))
    await instant
    log.append(('loser step3', time.now))
    await (time + 1)
    log.append(('loser step4', time.now))

async def main():
    async for r in first(winner(), loser(), count=1):
        log.append(('consumer got', r, time.now))
    log.append(('first() finished', time.now))
    await (time + 5)
    for l in log: print(l)

run(main())
