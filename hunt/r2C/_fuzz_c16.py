import sys; sys.path.insert(0, '/tmp/huntC')
import random, traceback
import usim
assert usim.__file__.startswith('/tmp/huntC')
from usim import (run, time, Scope, TaskCancelled, TaskClosed, Concurrent, until, instant, first, collect)

class Boom(Exception): pass

async def act(i, segs, outcome, log):
    # segs: list of durations (0 -> instant)
    try:
        for d in segs:
            if d == 0:
                await instant
            else:
                await (time + d)
            log.append((i, 'step', time.now))
        if outcome == 'fail':
            log.append((i, 'fail', time.now))
            raise Boom(i)
        log.append((i, 'done', time.now))
        return i
    except GeneratorExit:
        log.append((i, 'abort', time.now))
        raise
    except Boom:
        raise
    except BaseException as e:
        log.append((i, type(e).__name__, time.now))
        raise

def gen(rng):
    n = rng.randint(0, 4)
    acts = []
    for i in range(n):
        segs = [rng.choice([0, 0, 1, 1, 2, 3]) for _ in range(rng.randint(0, 3))]
        outcome = 'fail' if rng.random() < 0.2 else 'ok'
        acts.append((segs, outcome))
    return acts

async def scen_collect(seed, problems):
    rng = random.Random(seed)
    acts = gen(rng)
    log = []
    t0 = time.now
    desc = ('collect', seed, acts)
    ends = [sum(s) for s, o in acts]
    fails = [sum(s) for s, o in acts if o == 'fail']
    try:
        res = await collect(*(act(i, s, o, log) for i, (s, o) in enumerate(acts)))
        if fails:
            problems.append((desc, 'no failure raised', res))
        if res != list(range(len(acts))):
            problems.append((desc, 'wrong results', res))
        if time.now != (max(ends) if ends else 0):
            problems.append((desc, 'wrong time', time.now))
    except Concurrent as e:
        tf = time.now
        if not fails:
            problems.append((desc, 'unexpected failure', repr(e)))
        elif tf != min(fails):
            problems.append((desc, 'failure at wrong time', tf, min(fails)))
        await (time + 10)
        late = [l for l in log if l[2] > tf]
        if late:
            problems.append((desc, 'code ran after failure', late))
        if not all(isinstance(c, Boom) for c in e.children):
            problems.append((desc, 'weird children', repr(e)))
    except BaseException as e:
        problems.append((desc, 'other exception', repr(e)))

async def scen_first(seed, problems):
    rng = random.Random(seed)
    acts = gen(rng)
    n = len(acts)
    count = rng.choice([None, 1, 1, 2, 3, 0, n, n + 1])
    consumer = rng.choice(['fast', 'fast', 'break', 'slow0'])
    log = []
    desc = ('first', seed, acts, count, consumer)
    ends = sorted((sum(s), i) for i, (s, o) in enumerate(acts))
    fails = [sum(s) for s, o in acts if o == 'fail']
    k = n if count is None else count
    got = []
    try:
        async for r in first(*(act(i, s, o, log) for i, (s, o) in enumerate(acts)), count=count):
            got.append((r, time.now))
            if consumer == 'break':
                break
            if consumer == 'slow0':
                await instant
        tend = time.now
        if k > n:
            problems.append((desc, 'no ValueError')); return
        await (time + 10)
        if consumer == 'break':
            k = min(k, 1)
        # expected: the first k by time, provided no failure strictly before the k-th finish time
        oks = [(t, i) for (t, i) in ends if acts[i][1] == 'ok']
        if len(oks) < k:
            problems.append((desc, 'finished with fewer results (expected failure)', got)); return
        tk = oks[k - 1][0] if k else 0
        if any(f < tk for f in fails):
            problems.append((desc, 'failure before k-th result not raised', got, fails)); return
        if len(got) != k:
            problems.append((desc, 'wrong number', got)); return
        for (r, t) in got:
            if t != sum(acts[r][0]):
                problems.append((desc, 'yielded at wrong time', got)); break
        if [t for r, t in got] != sorted(t for r, t in got) or len(set(r for r, t in got)) != len(got):
            problems.append((desc, 'order', got))
        if sorted(t for r, t in got) != [t for t, i in oks[:k]]:
            problems.append((desc, 'not the first k', got, oks))
        late = [l for l in log if l[2] > tend]
        if late and consumer != 'slow0':
            problems.append((desc, 'code ran after end', late, tend))
    except ValueError as e:
        if k <= n:
            problems.append((desc, 'ValueError', repr(e)))
    except Concurrent as e:
        if not fails:
            problems.append((desc, 'unexpected failure', repr(e)))
        tf = time.now
        await (time + 10)
        late = [l for l in log if l[2] > tf]
        if late:
            problems.append((desc, 'code ran after failure', late))
    except BaseException as e:
        if consumer == 'slow0' and type(e).__name__ == 'CancelScope' and fails:
            return  # F11 known
        problems.append((desc, 'other exception', repr(e), traceback.format_exc()[-400:]))

def main():
    lo, hi = int(sys.argv[1]), int(sys.argv[2])
    problems = []
    for seed in range(lo, hi):
        for scen in (scen_collect, scen_first):
            n0 = len(problems)
            flag = []
            async def root():
                await scen(seed, problems)
                flag.append(1)
            try:
                run(root())
            except BaseException as e:
                problems.append(((scen.__name__, seed), 'run raised', repr(e), traceback.format_exc()[-600:]))
            if not flag and len(problems) == n0:
                problems.append(((scen.__name__, seed), 'scenario never completed (hang)'))
    cats = {}
    for p in problems:
        cats.setdefault(p[1], []).append(p)
    for k, v in cats.items():
        print('==', k, len(v))
        for p in v[:3]:
            print('   ', p)
main()
