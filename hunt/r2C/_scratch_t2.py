import sys; sys.path.insert(0, '/tmp/huntC')
import usim
assert usim.__file__.startswith('/tmp/huntC')
from usim import run, time, Scope, TaskCancelled, first, collect

async def sleeper(d, log):
    await (time + d)
    log.append(('sleeper done', d, time.now))
    return d

async def main():
    log = []
    async with Scope() as s:
        victim = s.do(sleeper(100, log))
        other = s.do(sleeper(3, log))
        async def canceller():
            await (time + 1)
            victim.cancel()
        s.do(canceller())
        got = []
        try:
            async for r in first(victim, other, count=2):
                got.append((r, time.now))
            print("first finished", got, time.now)
        except BaseException as e:
            print("first raised", repr(e), time.now)
        print("after first", time.now)
    print("main end", time.now)

run(main())
print("run returned")

async def main2():
    log = []
    async with Scope() as s:
        victim = s.do(sleeper(100, log))
        async def canceller():
            await (time + 1)
            victim.cancel()
        s.do(canceller())
        try:
            r = await collect(victim, sleeper(10, log))
            print("collect returned", r, time.now)
        except BaseException as e:
            print("collect raised", repr(e), time.now, log)
run(main2())
