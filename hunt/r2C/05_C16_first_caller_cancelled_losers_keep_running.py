# Property C16 (first): "... aborts the activities still running at that moment so that none of
#   their code runs afterwards"; range: "every consumer behaviour (slow consumer, early break,
#   cancellation of the caller)".
# Violated for "cancellation of the caller" (and likewise for a caller that fails) when the
#   first() iterator is bound to a name in the caller (`results = first(...)` followed by
#   `async for r in results:`) and the caller is cancelled while it is in its own loop body:
#   the contestants are NOT aborted - they keep running to their regular end, long after the
#   only consumer of their results is gone.
# Cause: first() is an async generator that keeps its Scope open across `yield`; when the
#   consumer dies in its loop body nothing is thrown into the generator, the contestants are only
#   closed when the generator object is finalised.  But the dead caller's frame (and with it the
#   local `results`) stays alive: Task._result -> TaskCancelled.__cause__ -> CancelTask
#   .__traceback__ -> frames of the payload.  As this forms a reference cycle with the Task
#   (traceback -> payload_wrapper frame -> self), even dropping every reference to the task
#   does not help until the cyclic garbage collector happens to run.
# Expected: 'b' and 'c' are aborted at t=3, when the caller is cancelled (this is what happens
#   when the iterator is anonymous: `async for r in first(...)`).
# Observed: 'b' finishes at t=5 and 'c' at t=6, in both variants (task kept / task dropped).
# Docs: first(): "any remaining activities are aborted after yielding the last result."  Nothing
#   asks the user to close the iterator explicitly.
# Confidence: medium-low (Python's lazy finalisation of async generators is the proximate cause,
#   but it is usim's design - a Scope held across yield, clean-up left to finalisation, and the
#   traceback stored in the task - that makes the abort depend on how the caller spells the loop).
#   Distinct from F11 (that is about a slow consumer / failing contestant); here the consumer is
#   gone for good and the losers run on unboundedly.
import sys; sys.path.insert(0, '/tmp/huntC')
import usim
assert usim.__file__.startswith('/tmp/huntC')
from usim import run, time, Scope, first

log = []


async def contestant(name, duration):
    try:
        await (time + duration)
        log.append('%s finished regularly at t=%s' % (name, time.now))
        return name
    except BaseException as err:
        log.append('%s aborted (%s) at t=%s' % (name, type(err).__name__, time.now))
        raise


async def caller_named():
    results = first(contestant('a', 1), contestant('b', 5), contestant('c', 6), count=3)
    async for result in results:
        await (time + 100)          # handling the result; cancelled here at t=3


async def caller_anonymous():
    async for result in first(contestant('a', 1), contestant('b', 5), contestant('c', 6), count=3):
        await (time + 100)


async def main(caller, keep_task):
    async with Scope() as scope:
        task = scope.do(caller())
        await (time + 3)
        task.cancel()
        if not keep_task:
            del task
        await (time + 20)
    print('%-17s keep_task=%-5s %s' % (caller.__name__, keep_task, log))
    log.clear()


run(main(caller_anonymous, True))
run(main(caller_named, True))
run(main(caller_named, False))
print("EXPECTED in all three: b and c 'aborted (GeneratorExit) at t=3'")
