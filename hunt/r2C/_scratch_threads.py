import sys; sys.path.insert(0, '/tmp/huntC')
import threading
import usim
from usim import run, time, Scope, first, collect, Concurrent, TaskCancelled

class Boom(Exception): pass
async def ok(d):
    await (time + d); return d
async def bad(d):
    await (time + d); raise Boom(d)

errors = []
def worker(n):
    try:
        for i in range(300):
            out = {}
            async def main():
                out['c'] = await collect(ok(3), ok(1), ok(2))
                got = []
                async for r in first(ok(3), ok(1), ok(2), count=2):
                    got.append((r, time.now))
                out['f'] = got
                try:
                    await collect(ok(5), bad(1))
                except Concurrent[Boom] as e:
                    out['e'] = time.now
                async with Scope() as s:
                    t = s.do(ok(10))
                    await (time + 1)
                    t.cancel(n)
                    try:
                        await t
                    except TaskCancelled as e:
                        out['t'] = e.args
            run(main())
            assert out == {'c': [3, 1, 2], 'f': [(1, 4), (2, 5)], 'e': 6, 't': (n,)}, out
    except BaseException as e:
        import traceback; traceback.print_exc()
        errors.append(e)

ts = [threading.Thread(target=worker, args=(i,)) for i in range(6)]
[t.start() for t in ts]; [t.join() for t in ts]
print('errors', errors)
