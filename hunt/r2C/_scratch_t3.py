import sys; sys.path.insert(0, '/tmp/huntC')
import usim
assert usim.__file__.startswith('/tmp/huntC')
from usim import run, time, Scope, TaskCancelled, first, collect

log = []
async def act(name, d):
    log.append((name, 'start', time.now))
    try:
        await (time + d)
        log.append((name, 'done', time.now))
        return name
    except BaseException as e:
        log.append((name, type(e).__name__, time.now))
        raise

async def main():
    print("--- count=0")
    got = []
    async for r in first(act('a', 1), act('b', 2), count=0):
        got.append(r)
    print(got, time.now, log)
    log.clear()
    print("--- no activities, count=None")
    async for r in first(count=None):
        got.append(r)
    print(got, time.now)
    print("--- early break")
    async for r in first(act('a', 1), act('b', 2), act('c', 3), count=3):
        print("got", r, time.now)
        break
    await (time + 10)
    print(log, time.now)
    log.clear()
    print("--- early break, kept reference + aclose")
    gen = first(act('a', 1), act('b', 2), act('c', 3), count=3)
    async for r in gen:
        print("got", r, time.now)
        break
    await gen.aclose()
    await (time + 10)
    print(log, time.now)
    log.clear()
    print('--- ties count=1')
    async for r in first(act('a', 1), act('b', 1), act('c', 1), count=1):
        print("got", r, time.now)
    print(log, time.now)
    log.clear()
    print('--- count too big')
    try:
        async for r in first(act('a', 1), count=2):
            pass
    except ValueError as e:
        print("ValueError", e)
    print(log)

run(main())
