# Property C16 (first): "`first(..., count=k)` yields results in the order and at the times they
#   become available, stops after k results (all if k is None ...)"
# Violated: it never stops.  If one of the contestants ends with TaskCancelled (it IS a Task that
#   somebody cancels, or it is a coroutine that awaits such a task) - or with TaskClosed - and the
#   remaining contestants cannot supply `count` results, the `async for` over first() neither
#   finishes nor raises: the consumer is suspended forever, the event loop runs dry and `usim.run`
#   returns normally, silently skipping all code after the loop.
# Cause: Task.payload_wrapper treats TaskCancelled/TaskClosed escaping from a payload as "not a
#   failure" (failed=False), so first()'s internal Scope is not stopped, while _first_monitor never
#   puts anything in the result queue for that contestant; islice(results, count) waits forever.
# Expected: first() ends after the results that can still arrive (here: 'b' at t=3), or raises
#   (docs: ":raises usim.Concurrent: if any of the activities raise an exception").
# Observed: 'b' is yielded at t=3, then nothing; "after first()" is never printed; run() returns.
# Docs: first() docstring says nothing that would make a hang acceptable; "If there are less
#   results than count, the iterator finishes after yielding the last result."
# Confidence: high (a silent permanent hang of the consumer is never intended).
import sys; sys.path.insert(0, '/tmp/huntC')
import usim
assert usim.__file__.startswith('/tmp/huntC')
from usim import run, time, Scope, first, TaskCancelled

reached = []


async def sleeper(name, d):
    await (time + d)
    return name


async def canceller(task, at):
    await (time + at)
    task.cancel('no longer needed')


async def scenario(label, make_contestant):
    got = []
    async with Scope() as scope:
        victim = scope.do(sleeper('a', 100))
        scope.do(canceller(victim, 1))
        async for result in first(make_contestant(victim), sleeper('b', 3), count=None):
            got.append((result, time.now))
            print(label, 'yielded', result, 'at', time.now)
        print(label, 'first() finished at', time.now, 'with', got)
    reached.append(label)


async def wait_for(task):       # an ordinary activity that depends on the cancelled task
    return await task


for label, make in (('task-as-contestant', lambda t: t), ('coroutine-awaiting-task', wait_for)):
    run(scenario(label, make))
    print(label, '-> run() returned; code after the loop reached:', label in reached)
print('EXPECTED: both scenarios reach the code after `async for ... in first(...)`')
print('OBSERVED:', reached)
