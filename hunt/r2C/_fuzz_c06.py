import sys; sys.path.insert(0, '/tmp/huntC')
import random, traceback
import usim
assert usim.__file__.startswith('/tmp/huntC')
from usim import (run, time, Scope, TaskCancelled, TaskClosed, TaskState, CancelTask, until, instant,
                  Flag, Lock, Queue, Channel, Resources, Capacities, eternity, first, collect, interval, delay)

class Ctx: pass

def make_steps(rng, n):
    kinds = ['delay', 'instant', 'moment', 'after', 'flag', 'lock', 'queue', 'nested', 'until',
             'task', 'borrow', 'interval', 'collect', 'first', 'channel', 'finally_instant', 'delay0']
    return [(rng.choice(kinds), rng.choice([1, 1, 2, 3])) for _ in range(n)]

async def do_step(ctx, kind, d, st):
    if kind == 'delay':
        await (time + d)
    elif kind == 'delay0':
        await (time + 0)
    elif kind == 'instant':
        await instant
    elif kind == 'moment':
        await (time == time.now + d)
    elif kind == 'after':
        await (time >= time.now + d)
    elif kind == 'flag':
        await ctx.flags[d]
    elif kind == 'lock':
        async with ctx.lock:
            await (time + d)
    elif kind == 'queue':
        await ctx.queue
    elif kind == 'channel':
        await ctx.channel
    elif kind == 'nested':
        async with Scope() as s:
            s.do(helper(d))
            s.do(helper(d + 1), volatile=True)
            await (time + 1)
    elif kind == 'until':
        async with until(time + d):
            await eternity
    elif kind == 'task':
        await ctx.helper_task
    elif kind == 'borrow':
        async with ctx.res.borrow(a=2):
            await (time + d)
    elif kind == 'claim':
        async with ctx.cap.claim(a=2):
            await (time + d)
    elif kind == 'interval':
        n = 0
        async for _ in interval(d):
            n += 1
            if n >= 2: break
    elif kind == 'collect':
        await collect(helper(d), helper(1))
    elif kind == 'first':
        async for _ in first(helper(d), helper(3)):
            pass
    elif kind == 'finally_instant':
        await (time + d)

async def helper(d):
    await (time + d)
    return d

async def victim(ctx, steps, st):
    st['started'] = time.now
    try:
        for i, (kind, d) in enumerate(steps):
            st['pos'] = i
            st['pos_time'] = time.now
            await do_step(ctx, kind, d, st)
        st['pos'] = 'end'
        st['finished'] = time.now
        return 'result'
    except BaseException as e:
        st['exc'] = (type(e).__name__, time.now, st['pos'], e)
        raise

async def env(ctx, horizon):
    # background activity that drives flags, lock contention, queue, resources
    async def flagger():
        for t in range(1, horizon):
            await (time + 1)
            for k, f in ctx.flags.items():
                if t % (k + 1) == 0:
                    await f.set(not bool(f))
    async def locker():
        while time.now < horizon:
            async with ctx.lock:
                await (time + 1)
            await (time + 1)
    async def putter():
        while time.now < horizon:
            await (time + 2)
            await ctx.queue.put(time.now)
            await ctx.channel.put(time.now)
    async def hog():
        while time.now < horizon:
            async with ctx.res.borrow(a=2):
                await (time + 1)
            async with ctx.cap.claim(a=2):
                await (time + 1)
            await (time + 1)
    async with Scope() as s:
        s.do(flagger()); s.do(locker()); s.do(putter()); s.do(hog())

async def awaiter(task, out, when, extra):
    if when:
        await (time + when)
    for _ in range(extra):
        await instant
    for _ in range(2):
        try:
            r = await task
            out.append(('ok', r, time.now))
        except BaseException as e:
            if isinstance(e, (CancelTask,)) or type(e).__name__ in ('CancelScope', 'GeneratorExit'):
                raise
            out.append(('exc', e, time.now))

async def status_monitor(task, seq, horizon):
    while time.now <= horizon:
        for _ in range(6):
            seq.append((time.now, task.status, bool(task.done)))
            await instant
        await (time + 1)

async def scenario(seed, problems):
    rng = random.Random(seed)
    horizon = 14
    ctx = Ctx()
    ctx.flags = {1: Flag(), 2: Flag(), 3: Flag()}
    ctx.lock = Lock(); ctx.queue = Queue(); ctx.channel = Channel()
    ctx.res = Resources(a=3); ctx.cap = Capacities(a=3)
    steps = make_steps(rng, rng.randint(1, 4))
    st = {}
    tc = rng.choice([0, 0, 1, 2, 3, 4, 5])
    extra_turns = rng.randint(0, 4)
    start_after = rng.choice([None, None, 1, 2])
    order_first = rng.random() < 0.5
    ncancel = rng.choice([1, 1, 1, 1, 2])
    sibling_state = {}
    seq = []
    outs = [[] for _ in range(3)]
    cinfo = {}
    desc = dict(seed=seed, steps=steps, tc=tc, extra=extra_turns, start_after=start_after, order_first=order_first, ncancel=ncancel)

    async def sibling():
        await (time + horizon)
        sibling_state['done'] = time.now

    async def canceller(task):
        if tc:
            await (time + tc)
        for _ in range(extra_turns):
            await instant
        cinfo['status'] = task.status
        cinfo['pos'] = st.get('pos')
        cinfo['started'] = 'started' in st
        cinfo['time'] = time.now
        cinfo['exc_before'] = st.get('exc')
        for i in range(ncancel):
            task.cancel('tok', i)
        cinfo['status_after'] = task.status

    body_ok = False
    try:
        async with Scope() as scope:
            scope.do(env(ctx, horizon), volatile=True)
            ctx.helper_task = scope.do(helper(3))
            if order_first:
                c = None
            sib = scope.do(sibling())
            if order_first:
                # canceller scheduled before the victim
                holder = {}
                async def late_canceller():
                    await canceller(holder['t'])
                scope.do(late_canceller())
                t = scope.do(victim(ctx, steps, st), after=start_after)
                holder['t'] = t
            else:
                t = scope.do(victim(ctx, steps, st), after=start_after)
                scope.do(canceller(t))
            scope.do(status_monitor(t, seq, horizon), volatile=True)
            scope.do(awaiter(t, outs[0], 0, 0))
            scope.do(awaiter(t, outs[1], tc, extra_turns + 1))
            scope.do(awaiter(t, outs[2], horizon - 1, 0))
            await (time + (horizon + 1))
            body_ok = True
    except BaseException as e:
        problems.append((desc, 'parent scope raised', repr(e)))
        return
    if not body_ok:
        problems.append((desc, 'parent body aborted'))
    if sibling_state.get('done') != horizon:
        problems.append((desc, 'sibling disturbed', sibling_state))
    # status monotone
    rank = {TaskState.CREATED: 0, TaskState.RUNNING: 1, TaskState.CANCELLED: 2, TaskState.FAILED: 2, TaskState.SUCCESS: 2}
    last = None
    for (tm, s, d) in seq:
        if last is not None:
            if rank[s] < rank[last[1]] or (rank[last[1]] == 2 and s != last[1]):
                problems.append((desc, 'status went backwards', last, (tm, s, d)))
                break
        last = (tm, s, d)
    final = t.status
    # awaiters agree
    allouts = [o for out in outs for o in out]
    if len(allouts) != 6:
        problems.append((desc, 'awaiter count', [len(o) for o in outs]))
    kinds = {(o[0], id(o[1]) if o[0] == 'exc' else o[1]) for o in allouts}
    if len(kinds) > 1:
        problems.append((desc, 'awaiters disagree', allouts))
    # cancellation semantics
    if cinfo.get('status') is TaskState.CREATED:
        if 'started' in st:
            problems.append((desc, 'cancelled before start but code ran', st))
        if final is not TaskState.CANCELLED:
            problems.append((desc, 'cancel before start, final', final))
    elif cinfo.get('status') is TaskState.RUNNING:
        if not cinfo['started']:
            # delayed start pending: must never run
            if 'started' in st:
                problems.append((desc, 'cancelled while delayed but code ran', st))
            if final is not TaskState.CANCELLED:
                problems.append((desc, 'cancel while delayed, final', final))
        else:
            exc = st.get('exc')
            if exc is None:
                if st.get('finished') != cinfo['time']:
                    problems.append((desc, 'suspended victim not cancelled', cinfo, st, final))
            else:
                if exc[0] != 'CancelTask' or exc[1] != cinfo['time']:
                    problems.append((desc, 'cancellation raised elsewhere', cinfo, st, final))
            if final is TaskState.CANCELLED:
                for o in allouts:
                    if o[0] != 'exc' or not isinstance(o[1], TaskCancelled) or o[1].subject is not t or (o[1].args != ('tok', 0) and ncancel == 1):
                        problems.append((desc, 'awaiter got wrong', o)); break
                    if o[2] < cinfo['time']:
                        problems.append((desc, 'awaiter early', o)); break
    else:
        # finished before cancel: nothing changes
        if cinfo.get('status') != final:
            problems.append((desc, 'cancel of finished changed status', cinfo, final))

def main():
    lo, hi = int(sys.argv[1]), int(sys.argv[2])
    problems = []
    for seed in range(lo, hi):
        n0 = len(problems)
        try:
            run(scenario(seed, problems))
        except BaseException as e:
            problems.append((seed, 'run raised', repr(e), traceback.format_exc()[-600:]))
    cats = {}
    for p in problems:
        cats.setdefault(p[1], []).append(p)
    for k, v in cats.items():
        print('==', k, len(v))
        for p in v[:3]:
            print('   ', p)
main()
