# Property C16 (first): "stops after k results ... and aborts the activities still running at that
#   moment so that none of their code runs afterwards."
# Violated although the consumer is NOT slow (this is not F11: the consumer's loop body does not
#   suspend at all): after the k-th result has been handed to the consumer and the consumer has
#   returned control to first(), the generator's Scope.__aexit__ first does
#   `await self._body_done.set()` - a postponement - before it closes the remaining contestants.
#   Every loser that has an activation pending in that time step (it was postponed, got a
#   notification, was granted a lock, reached its date...) runs another piece of its code AFTER the
#   winner was delivered and first() was already told to stop.
# Expected: after "consumer got w", no further "loser ..." line.
# Observed: "loser step2" runs after "consumer got w" (same time step t=1); only then it is closed.
# Docs: first(): "any remaining activities are aborted after yielding the last result."
# Confidence: medium-low (same time step, so simulation time is right; but the loser's side
#   effects - here a log entry, in a model e.g. taking an item from a Queue or setting a Flag -
#   happen after the race was decided, contradicting "none of their code runs afterwards").
import sys; sys.path.insert(0, '/tmp/huntC')
import usim
assert usim.__file__.startswith('/tmp/huntC')
from usim import run, time, first, instant, Queue

log = []
shared = Queue()   # the loser's side effect goes here


async def winner():
    await (time + 1)
    return 'w'


async def loser():
    await (time + 1)
    log.append('loser step1 (t=%s)' % time.now)
    await instant
    log.append('loser step2 (t=%s): side effect - puts a message' % time.now)
    await shared.put('message from the loser')
    log.append('loser step3 (t=%s)' % time.now)


async def main():
    async for result in first(winner(), loser(), count=1):
        log.append('consumer got %s (t=%s)' % (result, time.now))   # no suspension here
    log.append('first() finished (t=%s)' % time.now)
    await (time + 5)
    print('\n'.join(log))
    decided = log.index('consumer got w (t=1)')
    late = [line for line in log[decided + 1:] if line.startswith('loser')]
    print('EXPECTED: no loser code after the k-th result was delivered')
    print('OBSERVED:', late)


run(main())


# Variant, same mechanism: count=0 ("stops after k results") - first() yields nothing, yet every
# activity is started and runs up to its first suspension before being closed.
async def probe(name):
    log.append('%s: code ran' % name)
    await (time + 1)


async def main0():
    log.clear()
    async for _ in first(probe('x'), probe('y'), count=0):
        pass
    print('count=0 -> EXPECTED no activity code, OBSERVED', log)


run(main0())
