import sys; sys.path.insert(0, '/tmp/huntC')
import usim
assert usim.__file__.startswith('/tmp/huntC')
from usim import run, time, Scope, TaskCancelled, TaskClosed, first, collect, until, instant, Flag, Queue, eternity, TaskState

async def sleeper(d, log, name):
    try:
        await (time + d)
        log.append((name, 'done', time.now))
        return name
    except BaseException as e:
        log.append((name, type(e).__name__, time.now))
        raise

async def main():
    log = []
    print('--- payload kinds with cancel')
    f = Flag(); q = Queue()
    async with Scope() as s:
        inner = s.do(sleeper(50, log, 'inner'))
        kinds = {
            'delay': time + 20, 'flag': f, 'queue': q, 'task': inner, 'eternity': eternity,
            'moment': time == 30, 'after': time >= 30, 'conn': f | (time >= 30), 'notdone': ~inner.done & f,
        }
        tasks = {k: s.do(v) for k, v in kinds.items()}
        await (time + 1)
        for k, t in tasks.items():
            t.cancel(k)
        for k, t in tasks.items():
            try:
                await t
                print(k, 'no exception?')
            except TaskCancelled as e:
                assert e.subject is t and e.args == (k,), (k, e.args)
        print('all cancelled at', time.now, {k: t.status.name for k, t in tasks.items()})
        inner.cancel()
    print('scope exit', time.now, log)
    log.clear()
    print('--- first() with Task contestants')
    async with Scope() as s:
        ta = s.do(sleeper(1, log, 'ta'))
        tb = s.do(sleeper(5, log, 'tb'))
        async for r in first(ta, tb):
            print('got', r, time.now)
        print('after first', time.now, tb.status)
    print(log, time.now)

run(main())
