import sys; sys.path.insert(0, '/tmp/huntC')
import usim
assert usim.__file__.startswith('/tmp/huntC')
from usim import run, time, Scope, TaskCancelled, first, collect, until, instant

log = []
async def act(name, d):
    log.append((name, 'start', time.now))
    try:
        await (time + d)
        log.append((name, 'done', time.now))
        return name
    except BaseException as e:
        log.append((name, type(e).__name__, time.now))
        raise

async def caller_first_body():
    async for r in first(act('a', 1), act('b', 5), act('c', 6), count=3):
        log.append(('got', r, time.now))
        await (time + 100)

async def caller_first_wait():
    async for r in first(act('a', 1), act('b', 5), act('c', 6), count=3):
        log.append(('got', r, time.now))

async def caller_collect():
    r = await collect(act('a', 1), act('b', 5), act('c', 6))
    log.append(('collected', r, time.now))

async def main():
    for caller in (caller_first_body, caller_first_wait, caller_collect):
        print('---', caller.__name__)
        t0 = time.now
        async with Scope() as s:
            t = s.do(caller())
            await (time + 3)
            t.cancel('x')
            try:
                await t
            except TaskCancelled as e:
                print('cancelled at', time.now - t0)
            await (time + 20)
        print([(a, b, c - t0) for a, b, c in log])
        log.clear()
    for caller in (caller_first_body, caller_first_wait, caller_collect):
        print('--- until', caller.__name__)
        t0 = time.now
        async with until(time + 3):
            await caller()
        print('interrupted at', time.now - t0)
        await (time + 20)
        print([(a, b, c - t0) for a, b, c in log])
        log.clear()

run(main())
