# Property C16 (collect): "if any activity fails, the others are aborted at that time and the
#   failure is raised."
# Violated for an activity that fails with TaskCancelled (or TaskClosed): e.g. one argument is a
#   Task (or a coroutine awaiting a Task) which is cancelled by somebody while collect() waits.
#   The other activities are NOT aborted: they run to completion, and the TaskCancelled is raised
#   by collect() only at the time the slowest one finishes.
# Cause: Task.payload_wrapper reports TaskCancelled/TaskClosed escaping a payload as failed=False,
#   so collect()'s Scope is not stopped; `[await task for task in tasks]` raises afterwards.
# Expected: collect() raises at t=1 (when the activity fails); 'slow' is aborted at t=1 and does
#   not run its later steps.
# Observed: collect() raises TaskCancelled at t=10; 'slow' executed all its steps (t=5, t=10).
# Docs: collect docstring only says ":raises usim.Concurrent: if any of the activities raise an
#   exception" - nothing exempts TaskCancelled.  (Upstream usim aborted the scope here.)
# Confidence: medium (the no-abort for TaskCancelled children is a deliberate rule for plain
#   Scopes, but for collect() it contradicts the property as stated and wastes the whole run).
import sys; sys.path.insert(0, '/tmp/huntC')
import usim
assert usim.__file__.startswith('/tmp/huntC')
from usim import run, time, Scope, collect, TaskCancelled

log = []


async def slow():
    for _ in range(2):
        await (time + 5)
        log.append(('slow step', time.now))
    return 'slow'


async def sleeper(d):
    await (time + d)


async def canceller(task, at):
    await (time + at)
    task.cancel()


async def depends_on(task):
    return await task


async def main():
    async with Scope() as scope:
        victim = scope.do(sleeper(100))
        scope.do(canceller(victim, 1))
        try:
            result = await collect(depends_on(victim), slow())
            print('collect returned', result, 'at', time.now)
        except BaseException as err:
            print('collect raised %r at t=%s' % (err, time.now))
    print('steps of the other activity:', log)
    print('EXPECTED: raised at t=1, no steps of the other activity')


run(main())
