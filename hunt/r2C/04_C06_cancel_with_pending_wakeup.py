# Property C06: "cancelling a suspended task raises the cancellation inside it at its current
#   suspension point in the same time step and awaiters get TaskCancelled carrying the task and
#   the token"   (range: "every activation boundary at which cancel() is called ... at each
#   suspension")
# Violated whenever the suspended task already has a wake-up pending in the current time step:
#   (A) it is postponed (`await instant`, `flag.set()`, `queue.put()`, a free `borrow` ...),
#   (B) what it waits for was triggered earlier in this time step (Flag set, message put, lock
#       released), or
#   (C) it sleeps until the very date at which the canceller (scheduled before it) wakes up.
#   Task.cancel() appends the CancelTask activation BEHIND that wake-up, so the task is resumed
#   normally first: the code after its current suspension point runs (side effects included), and
#   the cancellation is raised only at the NEXT suspension point - or is dropped entirely if the
#   task finishes before suspending again: status SUCCESS, awaiters get the result, although
#   cancel() was called while the task was suspended (status RUNNING, not done).
# Expected (property): CancelTask raised at the suspension point the task is at when cancel() is
#   called; the statements after it do not run; awaiters get TaskCancelled(task, token).
# Observed: see output - 'after' code runs in all three variants; in the *-finish variants the
#   task ends with SUCCESS.
# Docs: Task.cancel: "If the Task is running, a CancelTask is raised once the activity suspends.
#   ... If the Task is done before CancelTask is raised, the cancellation is ignored."  That
#   sentence covers the "ignored" outcome formally, but the task here is not running, it IS
#   suspended; and the glossary says of postponement: "When an activity is postponed,
#   notifications may be received" - here they are not received at the postponement.
# Confidence: medium-low as a defect (partly documented, inherent in the FIFO activation queue),
#   high that the property as literally stated does not hold at these boundaries.
import sys; sys.path.insert(0, '/tmp/huntC')
import usim
assert usim.__file__.startswith('/tmp/huntC')
from usim import run, time, Scope, Flag, instant, TaskCancelled, CancelTask


async def victim(kind, more, flag, log):
    try:
        if kind == 'A-postponed':
            await (time + 1)
            log.append('suspending')
            await instant                      # <- suspended here when cancel() is called
        elif kind == 'B-flag-set-this-step':
            log.append('suspending')
            await flag                         # <- suspended here
        elif kind == 'C-same-date':
            log.append('suspending')
            await (time + 1)                   # <- suspended here
        log.append('code AFTER the suspension point ran')
        if more:
            await (time + 1)                   # a later suspension point
            log.append('even later code ran')
        return 'result'
    except CancelTask:
        log.append('CancelTask raised at t=%s' % time.now)
        raise


async def scenario(kind, more):
    log, flag = [], Flag()
    async with Scope() as scope:
        async def setter():
            await (time + 1)
            await flag.set()                   # wakes the victim (activation queued), postpones

        async def canceller():
            await (time + 1)
            log.append('cancel(): status=%s done=%s' % (task.status.name, bool(task.done)))
            task.cancel('token')
        # order of starting = order of waking at t=1
        if kind == 'A-postponed':
            task = scope.do(victim(kind, more, flag, log)); scope.do(canceller())
        elif kind == 'B-flag-set-this-step':
            task = scope.do(victim(kind, more, flag, log)); scope.do(setter()); scope.do(canceller())
        else:
            scope.do(canceller()); task = scope.do(victim(kind, more, flag, log))
        try:
            outcome = 'result %r' % (await task)
        except TaskCancelled as err:
            outcome = 'TaskCancelled%r' % (err.args,)
    print('%-22s %-7s -> %s, awaiter got %s\n    %s' % (
        kind, 'more' if more else 'finish', task.status.name, outcome, log))


for kind in ('A-postponed', 'B-flag-set-this-step', 'C-same-date'):
    for more in (True, False):
        run(scenario(kind, more))
print("EXPECTED everywhere: no 'code AFTER the suspension point ran', status CANCELLED, "
      "awaiter got TaskCancelled('token',)")
