import sys; sys.path.insert(0, sys.argv[1] if len(sys.argv) > 1 else '/repo')
import faulthandler; faulthandler.dump_traceback_later(25, exit=True)
import usim
from usim import run, time, Scope, eternity, until, Flag
assert usim.__file__.startswith(sys.path[0]), usim.__file__

# No clean-up code that awaits anywhere: these programs did not hit the
# RuntimeError('coroutine ignored GeneratorExit') the commit is about.


def outcome(*roots, **kw):
    try:
        run(*roots, **kw)
    except BaseException as err:
        return '%s(%s)' % (type(err).__name__, err)
    return 'run() returned normally'


def with_till(priv):
    async def checker():
        await (time + 5)
        raise priv('invariant broken at t=5')

    async def root():
        async with Scope() as s:
            s.do(checker())
            await eternity
    return outcome(root(), till=5)


def with_until(priv):
    stop = Flag()

    async def checker():
        await (time + 5)
        raise priv('invariant broken at t=5')

    async def worker():
        async with Scope() as s:
            s.do(checker())
            await eternity

    async def stopper():
        await (time + 5)
        await stop.set()

    async def main():
        async with until(stop) as scope:
            scope.do(worker())
            scope.do(stopper())
        await (time + 10)
        print('      simulation goes on until', time.now)
    return outcome(main())


for priv in (AssertionError, SystemExit, KeyboardInterrupt):
    print(priv.__name__)
    print('   run(till=5), failure at t=5 : expected the failure (docs: never collapsed or '
          'dropped); observed:', with_till(priv))
    print('   until(flag), both at t=5    : observed:', with_until(priv))
