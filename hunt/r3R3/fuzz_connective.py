"""Random condition trees (shared connective objects) with several until/await waiters that
leave in different ways; leave times are compared with a pure model.

usage: fuzz_connective.py [tree] [first_seed] [count]
"""
import sys; sys.path.insert(0, sys.argv[1] if len(sys.argv) > 1 else '/tmp/huntR3')
import faulthandler; faulthandler.dump_traceback_later(28, exit=True)
import math
import random
import usim
from usim import run, time, Scope, eternity, until, Flag
from usim._primitives.condition import Connective
assert usim.__file__.startswith(sys.path[0]), usim.__file__

HORIZON = 10


class Node:
    def __init__(self, kind, arg):
        self.kind, self.arg, self.cond = kind, arg, None

    def build(self, flags):
        if self.cond is not None:
            return self.cond
        k, a = self.kind, self.arg
        if k == 'flag':
            c = flags[a]
        elif k == 'notflag':
            c = ~flags[a]
        elif k == 'after':
            c = time >= a
        elif k == 'before':
            c = time < a
        elif k == 'moment':
            c = time == a
        elif k == 'and':
            c = a[0].build(flags)
            for child in a[1:]:
                c = c & child.build(flags)
        else:
            c = a[0].build(flags)
            for child in a[1:]:
                c = c | child.build(flags)
        self.cond = c
        return c

    def value(self, state, now):
        k, a = self.kind, self.arg
        if k == 'flag':
            return state[a]
        if k == 'notflag':
            return not state[a]
        if k == 'after':
            return now >= a
        if k == 'before':
            return now < a
        if k == 'moment':
            return now == a
        if k == 'and':
            return all(c.value(state, now) for c in a)
        return any(c.value(state, now) for c in a)

    def __str__(self):
        k, a = self.kind, self.arg
        if k in ('and', 'or'):
            return '(' + (' & ' if k == 'and' else ' | ').join(map(str, a)) + ')'
        return '%s%s' % (k, a)


def gen_node(rng, depth, pool):
    if pool and rng.random() < 0.3:
        return rng.choice(pool)
    if depth >= 3 or rng.random() < 0.35:
        kind = rng.choice(['flag', 'flag', 'flag', 'notflag', 'after', 'before', 'moment'])
        if kind in ('flag', 'notflag'):
            node = Node(kind, rng.randrange(3))
        else:
            node = Node(kind, rng.randrange(1, HORIZON) + 0.25)
    else:
        kind = rng.choice(['and', 'or'])
        node = Node(kind, [gen_node(rng, depth + 1, pool) for _ in range(rng.randint(2, 3))])
        pool.append(node)
    return node


def one(seed, verbose=False):
    rng = random.Random(seed)
    flags = [Flag() for _ in range(3)]
    pool = []
    roots = [gen_node(rng, 0, pool) for _ in range(rng.randint(1, 3))]
    roots = [r for r in roots if r.kind in ('and', 'or')] or [Node('and', [Node('flag', 0), Node('flag', 1)])]
    # one flag change per integer time
    changes = {t: rng.randrange(3) for t in range(1, HORIZON) if rng.random() < 0.7}
    # model of flag states after the change at each time
    state_at = {}
    state = [False] * 3
    event_times = sorted(set(list(range(0, HORIZON + 1)) + [k + 0.25 for k in range(0, HORIZON + 1)]
                             + [k + 0.5 for k in range(0, HORIZON + 1)]))
    for t in event_times:
        if t in changes:
            state = list(state)
            state[changes[t]] = not state[changes[t]]
        state_at[t] = state

    def trigger_time(node, start):
        for t in event_times:
            if t >= start and node.value(state_at[t], t):
                return t
        return math.inf

    waiters = []
    for w in range(rng.randint(1, 5)):
        waiters.append(dict(
            node=rng.choice(roots), start=rng.randrange(0, 5) + 0.5,
            mode=rng.choice(['until', 'until', 'until', 'await']),
            body=rng.choice([None, None, 1, 2, 3]),
            cancel=rng.choice([None, None, rng.randrange(1, HORIZON) + 0.75]),
            rounds=rng.choice([1, 1, 2, 3]),
        ))
    observed = {}
    expected = {}
    for w, spec in enumerate(waiters):
        exp = []
        s = spec['start']
        limit = spec['cancel'] if spec['cancel'] is not None else HORIZON + 0.6
        for _ in range(spec['rounds']):
            if s >= limit:
                break
            trig = trigger_time(spec['node'], s)
            if spec['mode'] == 'await':
                leave = trig
                if leave >= limit:
                    break
                exp.append(leave)
                leave_body = leave
            else:
                leave = min(trig, s + spec['body'] if spec['body'] is not None else math.inf)
                if leave >= limit:
                    break
                exp.append(leave)
            nxt = math.floor(leave) + 0.5
            if nxt <= leave:
                nxt += 1
            s = nxt
        expected[w] = exp

    async def waiter(w, spec):
        observed[w] = []
        cond = spec['node'].build(flags)
        await (time == spec['start'])
        for _ in range(spec['rounds']):
            if spec['mode'] == 'await':
                await cond
            else:
                async with until(cond):
                    if spec['body'] is None:
                        await eternity
                    else:
                        await (time + spec['body'])
            observed[w].append(time.now)
            nxt = math.floor(time.now) + 0.5
            if nxt <= time.now:
                nxt += 1
            await (time == nxt)

    async def driver():
        for t in range(1, HORIZON):
            await (time == t)
            if t in changes:
                f = flags[changes[t]]
                await f.set(not f)

    async def canceller(task, at):
        await (time == at)
        task.cancel()

    async def main():
        async with until(time == HORIZON + 0.6) as scope:
            scope.do(driver())
            for w, spec in enumerate(waiters):
                task = scope.do(waiter(w, spec))
                if spec['cancel'] is not None:
                    scope.do(canceller(task, spec['cancel']))
            await eternity

    problems = []
    try:
        run(main())
    except BaseException as err:
        problems.append('run raised %r' % (err,))
    for w, spec in enumerate(waiters):
        if observed.get(w) != expected[w]:
            problems.append('waiter %d %s on %s start=%s body=%s cancel=%s: expected leaves %s observed %s' % (
                w, spec['mode'], spec['node'], spec['start'], spec['body'], spec['cancel'],
                expected[w], observed.get(w)))
    # leftovers: nobody waits any more, so no helper may be left and no subscription
    for node in pool:
        c = node.cond
        if c is not None and isinstance(c, Connective):
            if c._waiting:
                problems.append('%s still has waiters %s' % (node, c._waiting))
            if getattr(c, '_watched', None):
                problems.append('%s still has a helper' % (node,))
    for i, f in enumerate(flags):
        if f._waiting:
            problems.append('flag %d still has %d waiters' % (i, len(f._waiting)))
    if verbose or problems:
        print('seed', seed, 'changes', changes)
    return problems


if __name__ == '__main__':
    first = int(sys.argv[2]) if len(sys.argv) > 2 else 0
    count = int(sys.argv[3]) if len(sys.argv) > 3 else 300
    bad = 0
    for seed in range(first, first + count):
        faulthandler.cancel_dump_traceback_later()
        faulthandler.dump_traceback_later(20, exit=True)
        problems = one(seed)
        if problems:
            bad += 1
            for p in problems[:4]:
                print('   ', p)
    print('done', first, count, 'bad:', bad)
