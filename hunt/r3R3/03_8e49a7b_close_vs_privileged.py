import sys; sys.path.insert(0, sys.argv[1] if len(sys.argv) > 1 else '/repo')
import faulthandler; faulthandler.dump_traceback_later(25, exit=True)
import usim
from usim import run, time, Scope, eternity, until, Flag, Concurrent
assert usim.__file__.startswith(sys.path[0]), usim.__file__

log = []


def scenario(where, priv=AssertionError, cleanup_awaits=True):
    """worker has an inner scope whose child fails with a privileged exception at t=1;
    a sibling of worker fails (ValueError) at t=1 just before, so the outer scope
    closes worker forcefully while the inner failure is pending"""
    del log[:]

    async def inner_child():
        await (time + 1)
        raise priv('inner')

    async def sibling():
        await (time + 1)
        raise ValueError('sibling')

    async def worker():
        try:
            async with Scope() as s:
                s.do(inner_child())
                if where == 'body':
                    await eternity
                # where == 'exit': the scope is closed while waiting for its children
        except GeneratorExit:
            log.append('worker saw GeneratorExit')
            raise
        except BaseException as err:
            log.append('worker saw %s' % type(err).__name__)
            if cleanup_awaits:
                await (time + 1)   # legitimate for an ordinary exception
            raise

    async def main():
        async with Scope() as outer:
            outer.do(worker())
            outer.do(sibling())

    try:
        run(main())
    except BaseException as err:
        return '%s: %s' % (type(err).__name__, err), list(log)
    return 'no exception', list(log)


for where in ('body', 'exit'):
    for priv in (AssertionError, KeyboardInterrupt, SystemExit):
        print(where, priv.__name__, '->', *scenario(where, priv))
