import sys; sys.path.insert(0, sys.argv[1] if len(sys.argv) > 1 else '/tmp/huntR3')
import faulthandler; faulthandler.dump_traceback_later(25, exit=True)
import gc, weakref
import usim
from usim import run, time
assert usim.__file__.startswith(sys.path[0]), usim.__file__
gc.disable()


class Err(Exception):
    pass


async def activity():
    await (time + 1)
    raise Err('x')


def probe(**kw):
    try:
        run(activity(), **kw)
    except Err as err:
        ref = weakref.ref(err)
    return ref


for kw in ({}, {'till': 10}):
    ref = probe(**kw)
    print(kw, 'exception freed by refcount alone:', ref() is None)
