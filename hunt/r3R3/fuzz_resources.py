"""Random borrow trees with cancel / until / close / failure injected; checks conservation.

usage: fuzz_resources.py [tree] [first_seed] [count]
"""
import sys; sys.path.insert(0, sys.argv[1] if len(sys.argv) > 1 else '/tmp/huntR3')
import faulthandler; faulthandler.dump_traceback_later(28, exit=True)
import random
import usim
from usim import run, time, Scope, eternity, until, Flag, Resources, Capacities, Concurrent
from usim._basics.tracked import Tracked
from usim._basics.resource import ResourcesUnavailable
assert usim.__file__.startswith(sys.path[0]), usim.__file__

violations = []
tracked_names = {}


def check(tracked):
    value = tracked.__dict__['_v']
    try:
        items = dict(value)
    except TypeError:
        return
    if any(v < 0 for v in items.values()):
        violations.append((time.now, tracked_names.get(id(tracked), '?'), items))


class _V:
    def __get__(self, obj, owner):
        return obj.__dict__['_v']

    def __set__(self, obj, val):
        obj.__dict__['_v'] = val
        if usim._core.handler.__USIM_STATE__.is_active:
            check(obj)


Tracked._value = _V()


class Boom(Exception):
    pass


def gen_plan(rng, depth, limit):
    """plan = (amount, use_claim, [steps]); step = ('sleep', d) | ('nest', plan) |
    ('scope', [(plan, volatile, guard)], body_sleep, fail_at)"""
    amount = rng.randint(0, limit)
    steps = []
    for _ in range(rng.randint(0, 3)):
        kind = rng.choice(['sleep', 'sleep', 'nest', 'scope'] if depth < 3 else ['sleep'])
        if kind == 'sleep':
            steps.append(('sleep', rng.choice([0, 0, 1, 2, 3])))
        elif kind == 'nest':
            steps.append(('nest', gen_plan(rng, depth + 1, amount)))
        else:
            children = [
                (gen_plan(rng, depth + 1, amount), rng.random() < 0.4,
                 rng.choice([None, None, 1, 2, 3]))
                for _ in range(rng.randint(1, 3))
            ]
            steps.append(('scope', children, rng.choice([0, 1, 2, 3, None]),
                          rng.choice([None, None, None, 1, 2])))
    return amount, rng.random() < 0.15, steps


async def failing(at):
    await (time + at)
    raise Boom()


async def execute(plan, source, name):
    amount, use_claim, steps = plan
    ctx = (source.claim if use_claim else source.borrow)(a=amount)
    tracked_names[id(ctx._available)] = name
    try:
        async with ctx as share:
            for idx, step in enumerate(steps):
                if step[0] == 'sleep':
                    await (time + step[1])
                elif step[0] == 'nest':
                    await execute(step[1], share, '%s.%d' % (name, idx))
                else:
                    _, children, body_sleep, fail_at = step
                    try:
                        async with Scope() as scope:
                            for cidx, (cplan, volatile, guard) in enumerate(children):
                                cname = '%s.%d/%d' % (name, idx, cidx)
                                if guard is None:
                                    scope.do(execute(cplan, share, cname),
                                             volatile=volatile)
                                else:
                                    scope.do(guarded(cplan, share, cname, guard),
                                             volatile=volatile)
                            if fail_at is not None:
                                scope.do(failing(fail_at))
                            if body_sleep is None:
                                pass
                            else:
                                await (time + body_sleep)
                    except Concurrent:
                        pass
    except ResourcesUnavailable:
        pass


async def guarded(plan, source, name, guard):
    async with until(time + guard):
        await execute(plan, source, name)


async def canceller(tasks, rng_times):
    for delay, idx in rng_times:
        await (time + delay)
        if idx < len(tasks):
            tasks[idx].cancel()


def one(seed):
    rng = random.Random(seed)
    del violations[:]
    tracked_names.clear()
    supply = (Resources if rng.random() < 0.5 else Capacities)(a=6)
    tracked_names[id(supply._available)] = 'supply'
    plans = [gen_plan(rng, 0, 6) for _ in range(rng.randint(1, 4))]
    cancels = [(rng.choice([0, 1, 1, 2]), rng.randint(0, 3)) for _ in range(rng.randint(0, 3))]
    abort = rng.choice([None, None, 2, 4])

    async def main():
        try:
            async with Scope() as scope:
                tasks = [scope.do(execute(p, supply, 'r%d' % i)) for i, p in enumerate(plans)]
                scope.do(canceller(tasks, cancels))
                if abort is not None:
                    scope.do(failing(abort))
        except Concurrent:
            pass
    error = None
    try:
        run(main())
    except BaseException as err:
        error = err
    final = dict(supply.levels)
    problems = []
    if error is not None:
        problems.append('run raised %r' % error)
    if violations:
        problems.append('negative level(s): %s' % violations[:3])
    if final != {'a': 6}:
        problems.append('final supply %s != 6' % final)
    return problems


if __name__ == '__main__':
    first = int(sys.argv[2]) if len(sys.argv) > 2 else 0
    count = int(sys.argv[3]) if len(sys.argv) > 3 else 300
    bad = 0
    for seed in range(first, first + count):
        faulthandler.cancel_dump_traceback_later()
        faulthandler.dump_traceback_later(20, exit=True)
        problems = one(seed)
        if problems:
            bad += 1
            print('seed', seed, problems)
    print('done', first, count, 'bad:', bad)
