import sys; sys.path.insert(0, sys.argv[1] if len(sys.argv) > 1 else '/tmp/huntR3')
import faulthandler; faulthandler.dump_traceback_later(25, exit=True)
import warnings; warnings.simplefilter('error')
import gc
import usim
from usim import run, time, Scope, eternity, until, Flag
assert usim.__file__.startswith(sys.path[0]), usim.__file__

a, b, c = Flag(), Flag(), Flag()
inner = a & b
outer = inner | c
log = []


# 1. block left by an exception in the very turn it was entered (helper never started)
async def immediate():
    try:
        async with until(inner):
            raise KeyError
    except KeyError:
        pass
    await (time + 1)
    log.append(('immediate done', time.now, inner._watched, len(a._waiting), len(b._waiting)))

run(immediate()); gc.collect()
print('1 expected no helper, no subscriptions:', log[-1])


# 2. several waiters on shared nested connectives leaving in every order, re-entering
async def waiter(name, cond, leave_after, rounds=2):
    for _ in range(rounds):
        async with until(cond):
            await (time + leave_after)
        log.append((name, time.now))


async def setter():
    await (time + 10)
    await a.set()
    await (time + 1)
    await b.set()          # inner and outer hold at 11


async def main(order):
    async with Scope() as s:
        for name, cond, d in order:
            s.do(waiter(name, cond, d))
        s.do(setter())

import itertools
specs = [('x', inner, 3), ('y', outer, 4), ('z', inner, 20), ('w', outer, 20)]
results = set()
for order in itertools.permutations(specs):
    del log[:]
    for f in (a, b, c):
        f._value = False
    run(main(order))
    results.add(tuple(sorted(log)))
    leftovers = (inner._watched, outer._watched, inner._waiting, outer._waiting,
                 a._waiting, b._waiting, c._waiting)
    assert not any(leftovers), leftovers
print('2 distinct outcomes over all 24 start orders (expected 1):', len(results))
print('  ', sorted(results)[0])


# 3. same connective objects used in a later run after run(till=) cut waiters off
async def blocked():
    async with until(outer):
        await eternity
    log.append(('blocked left', time.now))

for f in (a, b, c):
    f._value = False
run(blocked(), blocked(), till=5)
print('3 after till-run: helpers', inner._watched, outer._watched, 'waiting', len(inner._waiting), len(a._waiting))
del log[:]
run(blocked(), setter())
print('3 later run: expected blocked left at 11:', log)
