import sys; sys.path.insert(0, sys.argv[1] if len(sys.argv) > 1 else '/repo')
import faulthandler; faulthandler.dump_traceback_later(25, exit=True)
import usim
from usim import run, time
assert usim.__file__.startswith(sys.path[0]), usim.__file__

# An activity raises exception E while handling a KeyError, so E.__context__ is
# that KeyError.  run() without till reports E with this context; the commit says
# run(till=) does so as well.


def make(exc_type):
    async def activity():
        await (time + 1)
        try:
            raise KeyError('original context')
        except KeyError:
            raise exc_type('failure')
    return activity


def context_of(exc_type, **kwargs):
    try:
        run(make(exc_type)(), **kwargs)
    except BaseException as err:
        return type(err).__name__, repr(err.__context__)
    return 'no exception', None


for exc_type in (ValueError, AssertionError, KeyboardInterrupt, SystemExit):
    plain = context_of(exc_type)
    till = context_of(exc_type, till=10)
    print(f'{exc_type.__name__:18} expected (as without till) {plain}')
    print(f'{"":18} observed with till=10     {till}',
          'OK' if plain == till else '<-- MISMATCH')

# Same pattern one level down: it is Scope._propagate_exceptions that raises the stored
# privileged exception inside the handler of its own CancelScope signal.
from usim import Scope


async def in_scope():
    async with Scope() as scope:
        scope.do(make(AssertionError)())

try:
    run(in_scope())
except AssertionError as err:
    print('plain Scope, no till: context', repr(err.__context__),
          '(expected KeyError; an internal signal object leaks to the user)')
