# Property C12 (Resources are conserved)
#
# Violated sentence:
#   "Whatever a block borrowed is returned when the block is left by any route - normal
#    exit ... - so the available level ... equals the supply at quiescence."
#   (range: "for every supply ..., arbitrary amounts" - "exotic but legal arguments: infinity")
#
# Scenario: an unlimited supply `Resources(a=inf)` (the natural way to say "not a
#   bottleneck", cf. UnboundedPipe) from which somebody borrows everything
#   `borrow(a=inf)`.  Levels are computed as  available - amount  /  available + amount,
#   so inside the block the level is inf - inf = nan, and after a perfectly normal exit
#   it is nan + inf = nan - for ever.  Every later borrower, even of a=1, waits for ever
#   (nan >= 1 is False); claim() raises ResourcesUnavailable for ever.
#
# Expected: inside the block level 0 (or at least "not available"), after the block the
#           level is inf again and `borrow(a=1)` proceeds.
# Observed: level nan inside and after; borrow(a=1) never enters.
#
# Confidence: low-medium.  It is plain IEEE arithmetic and borrowing an infinite amount
# is unusual; on the other hand both arguments are accepted without complaint and the
# resource is silently destroyed by a normal enter/exit pair.  Finite borrows from an
# infinite supply are fine.
import sys; sys.path.insert(0, '/tmp/huntE')
import usim
from usim import run, time, Resources
assert usim.__file__.startswith('/tmp/huntE')

inf = float('inf')
res = Resources(a=inf)
log = []


async def everything():
    async with res.borrow(a=inf):
        log.append('inside: %s' % res.levels.a)
    log.append('after normal exit: %s' % res.levels.a)


async def later():
    await (time + 1)
    async with res.borrow(a=1):
        log.append('borrow(a=1) entered at %s' % time.now)


run(everything(), later(), till=10)
print('expected: inside 0 (or unavailable), after exit inf, borrow(a=1) entered at 1')
print('observed:', log, '| final level', res.levels.a)
