# Properties C10 (Queue), C09 (Lock), also C11/C12 by the same mechanism.
#
# Violated sentences:
#   C10: "Every item accepted by `put` is received by exactly one receiver ... and waiting
#         receivers are served in the order in which they started waiting."
#   C09: "... so the lock is free whenever nobody holds or waits for it."
#   C12: "... equals the supply at quiescence."
#
# Scenario ("sequences of several runs", "what is readable after a run has ended"):
#   `usim.run(a(), b())` WITHOUT `till` schedules the given coroutines as bare root
#   activities.  When the event queue runs dry, run() returns normally - but a root
#   activity that is still blocked (the classic `async for job in queue:` server loop,
#   or someone parked inside `async with lock:` / `async with resources.borrow():`) is
#   neither closed nor cancelled.  It stays subscribed in the Queue's / Lock's
#   Notification, which keeps the coroutine alive.  If the Queue / Lock / Capacities is
#   used in a later run(), the leftover coroutine of the FIRST simulation
#     * is woken by a `put` of the second simulation, runs its (first simulation's) code
#       inside the second event loop and swallows the item - the consumer of the second
#       run, which has been waiting, is passed over (it even owns the read mutex forever);
#     * still owns the Lock, so in the second run the lock is never available although
#       no activity of that run (or any live run) holds or waits for it;
#     * still holds its borrowed resources.
#   With `till=` this does not happen, because run(till=) wraps the roots in a scope that
#   closes them; likewise for children of any Scope.  Only bare roots are leaked.
#
# Expected: after run() has returned, the simulation is over: nobody of it holds the lock /
#           the queue's reader slot / resources any more (as it is for run(..., till=T)),
#           and a second run sees a free lock, and ITS consumer receives the items.
# Observed: see output - job 0 of run 2 is delivered to the server of run 1, the lock is
#           never acquired in run 2, capacities are short in run 2; at interpreter exit
#           "RuntimeError: ... can only be accessed with an active usim event loop" and
#           "ValueError: list.remove(x)" are reported from the late clean-up.
#
# Confidence: medium-low.  Nothing in the docs says that objects may not be shared between
# successive runs (conditions shared across runs were treated as a defect and fixed:
# "time condition objects reused across runs"), and nothing says that run() leaves blocked
# roots behind; but one may argue that a run ending with blocked activities is a modelling
# error (deadlock) and re-use afterwards is unsupported.
import sys; sys.path.insert(0, '/tmp/huntE')
import usim
from usim import run, time, Queue, Lock, Capacities, eternity
assert usim.__file__.startswith('/tmp/huntE')

# ---- C10 -------------------------------------------------------------------------
queue = Queue()
log = []


async def server(name):
    async for job in queue:
        log.append('%s got job %s at %s' % (name, job, time.now))


async def client(jobs):
    await (time + 1)
    for job in jobs:
        await queue.put(job)
    await (time + 1)


run(server('server-of-run-1'), client(['a', 'b']))
log.clear()
run(server('server-of-run-2'), client([0, 1, 2]))
print('C10 expected: all three jobs of run 2 go to server-of-run-2')
print('C10 observed:', log)

# ---- C09 -------------------------------------------------------------------------
lock = Lock()
entered = []


async def parked(name):
    async with lock:
        entered.append(name)
        await eternity


async def bystander():
    await (time + 5)


run(parked('run-1'), bystander())
print('C09 after run 1: lock free? expected True, observed owner =', lock._owner)
entered.clear()
run(parked('run-2'), bystander())
print('C09 expected: run-2 enters the lock; observed entered =', entered)

# ---- C12 -------------------------------------------------------------------------
cap = Capacities(a=2)
got = []


async def hog(name):
    async with cap.borrow(a=2):
        got.append(name)
        await eternity


run(hog('run-1'), bystander())
print('C12 after run 1: expected levels a=2 (quiescence), observed', cap.levels)
got.clear()
run(hog('run-2'), bystander())
print('C12 expected: run-2 obtains a=2; observed obtained by', got)
