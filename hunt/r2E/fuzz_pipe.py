"""helper: random fuzz of Pipe (C13) against a fluid reference model"""
import sys; sys.path.insert(0, '/tmp/huntE')
import random, math
import usim
from usim import run, time, Scope, Pipe, TaskCancelled
assert usim.__file__.startswith('/tmp/huntE')


def fluid(cap, specs):
    """specs: list of (start, volume, limit, cancel_at or None) -> list of end time or None"""
    n = len(specs)
    remaining = [s[1] for s in specs]
    state = ['wait'] * n   # wait / active / done / cancelled
    end = [None] * n
    now = min(s[0] for s in specs)
    while True:
        # start / cancel events at now
        for i, (st, vol, lim, can) in enumerate(specs):
            if state[i] == 'wait' and can is not None and can <= st and can <= now:
                state[i] = 'cancelled'
            if state[i] == 'wait' and st <= now:
                state[i] = 'active'
            if state[i] == 'active' and can is not None and can <= now:
                state[i] = 'cancelled'
            if state[i] == 'active' and remaining[i] <= 1e-12 * max(1, specs[i][1]):
                state[i] = 'done'
                end[i] = now
        active = [i for i in range(n) if state[i] == 'active']
        total = sum(specs[i][2] for i in active)
        scale = min(1.0, cap / total) if total > 0 else 1.0
        rate = {i: specs[i][2] * scale for i in active}
        # next event
        cands = []
        for i in active:
            cands.append(now + remaining[i] / rate[i])
            if specs[i][3] is not None:
                cands.append(specs[i][3])
        for i in range(n):
            if state[i] == 'wait':
                cands.append(specs[i][0])
        cands = [c for c in cands if c > now]
        if not cands:
            # zero-remaining actives?
            if active:
                for i in active:
                    state[i] = 'done'; end[i] = now
                continue
            break
        nxt = min(cands)
        for i in active:
            remaining[i] -= rate[i] * (nxt - now)
        now = nxt
    return end


def one(seed):
    rng = random.Random(seed)
    cap = rng.choice([1, 2, 3, 10, 0.5, 7.5])
    n = rng.randint(1, 5)
    specs = []
    for _ in range(n):
        st = rng.choice([0, 0, 1, 2, 2.5, 3, 5])
        vol = rng.choice([0, 1, 2, 3, 5, 10, 0.3, 7])
        lim = rng.choice([None, 1, 2, 0.5, 3, 20])
        can = rng.choice([None, None, None, 1, 2, 3, 4, 6, 2.5])
        specs.append((st, vol, lim if lim is not None else cap, can))
    expect = fluid(cap, specs)
    got = [None] * n
    pipe = Pipe(throughput=cap)

    async def xfer(i, vol, lim):
        await pipe.transfer(vol, throughput=lim)
        got[i] = time.now

    async def main():
        async with Scope() as scope:
            tasks = []
            for i, (st, vol, lim, can) in enumerate(specs):
                tasks.append(scope.do(xfer(i, vol, lim), at=st if st > 0 else None))
            for i, (st, vol, lim, can) in enumerate(specs):
                if can is not None:
                    async def kill(t=tasks[i], can=can):
                        await (time == can)
                        t.cancel()
                    scope.do(kill())
    try:
        run(main())
    except BaseException as err:
        return 'run failed %r' % (err,)
    for i in range(n):
        e, g = expect[i], got[i]
        can = specs[i][3]
        if (e is None) != (g is None) and can is not None and g is not None and abs(g - can) < 1e-9:
            continue  # borderline: cancelled exactly at completion
        if (e is None) != (g is None):
            # borderline: cancel at exactly completion time
            return 'completion mismatch %s: expect %s got %s specs %s cap %s' % (i, expect, got, specs, cap)
        if e is not None and not math.isclose(e, g, rel_tol=1e-9, abs_tol=1e-9):
            return 'time mismatch %s: expect %s got %s specs %s cap %s' % (i, expect, got, specs, cap)
    if pipe._subscriptions:
        return 'leaked subscriptions'
    return None


if __name__ == '__main__':
    lo, hi = int(sys.argv[1]), int(sys.argv[2])
    bad = 0
    for seed in range(lo, hi):
        res = one(seed)
        if res:
            bad += 1
            print(seed, res)
            if bad > 8:
                break
    print('done', bad)
