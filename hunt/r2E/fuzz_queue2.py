"""helper: random fuzz of Queue (C10) with cancels / until-interrupts / volatile closes"""
import sys; sys.path.insert(0, '/tmp/huntE')
import random
import usim
from usim import run, time, Scope, Queue, Flag, until, StreamClosed, TaskCancelled, instant
assert usim.__file__.startswith('/tmp/huntE')


def one(seed, verbose=False):
    rng = random.Random(seed)
    q = Queue()
    put_log = []       # items accepted
    recv_log = []      # (item, consumer)
    wait_log = []      # (ticket, consumer) on start waiting
    done_log = []      # ticket on completion
    ticket = [0]
    left = set()       # tickets of consumers that left without item
    n_prod = rng.randint(1, 3)
    n_cons = rng.randint(1, 4)
    times = [0, 0, 1, 1, 2, 3]
    counter = [0]

    async def producer(pid):
        for _ in range(rng.randint(0, 4)):
            d = rng.choice(times)
            if d:
                await (time + d)
            elif rng.random() < .5:
                await instant
            item = counter[0]
            counter[0] += 1
            try:
                # accepted as soon as put is called and does not raise StreamClosed
                if not q.closed:
                    put_log.append(item)
                await q.put(item)
            except StreamClosed:
                assert item not in put_log
                return

    async def single(cid, flag):
        for _ in range(rng.randint(1, 4)):
            d = rng.choice(times)
            if d:
                await (time + d)
            t = ticket[0]
            ticket[0] += 1
            wait_log.append((t, cid))
            try:
                if flag is not None:
                    got = False
                    async with until(flag):
                        item = await q
                        got = True
                        recv_log.append((item, cid))
                        done_log.append(t)
                    if not got:
                        left.add(t)
                        return
                else:
                    item = await q
                    recv_log.append((item, cid))
                    done_log.append(t)
            except StreamClosed:
                left.add(t)
                return
            except BaseException:
                left.add(t)
                raise

    async def iterate(cid):
        async for item in q:
            recv_log.append((item, cid))
            if rng.random() < .3:
                await (time + rng.choice(times))

    async def hosted(coro):
        async with Scope() as host:
            host.do(coro, volatile=True)
            for _ in range(rng.randint(0, 6)):
                if rng.random() < .6:
                    await instant
                else:
                    await (time + rng.choice([1, 2]))

    async def main():
        flags = []
        async with Scope() as outer:
            async with Scope() as scope:
                tasks = []
                for p in range(n_prod):
                    scope.do(producer(p))
                for c in range(n_cons):
                    kind = rng.random()
                    if kind < .5:
                        flag = Flag() if rng.random() < .4 else None
                        if flag is not None:
                            flags.append(flag)
                        tasks.append(scope.do(hosted(single(c, flag)) if rng.random() < .5 else single(c, flag), volatile=rng.random() < .3))
                    else:
                        tasks.append(scope.do(hosted(iterate(c)) if rng.random() < .5 else iterate(c), volatile=rng.random() < .5))

                async def killer():
                    for _ in range(rng.randint(0, 4)):
                        d = rng.choice(times)
                        if d:
                            await (time + d)
                        else:
                            await instant
                        what = rng.random()
                        if what < .5 and tasks:
                            rng.choice(tasks).cancel()
                        elif what < .8 and flags:
                            await rng.choice(flags).set()
                        elif what < .9:
                            await q.close()
                scope.do(killer())
                scope.do(killer())
                await (time + rng.choice([1, 2, 3, 5, 8]))
                await q.close()
            # drain the rest
            rest = []
            try:
                while True:
                    rest.append(await q)
            except StreamClosed:
                pass
            for item in rest:
                recv_log.append((item, 'drain'))

    try:
        run(main())
    except BaseException as err:
        return 'run failed: %r' % (err,)
    received = [i for i, _ in recv_log]
    if sorted(received) != sorted(put_log):
        return 'lost/dup: put %s received %s' % (put_log, recv_log)
    if received != put_log:
        return 'order: put %s received %s' % (put_log, recv_log)
    if done_log != sorted(done_log):
        return 'waiter order: %s (waits %s)' % (done_log, wait_log)
    return None


if __name__ == '__main__':
    lo, hi = int(sys.argv[1]), int(sys.argv[2])
    bad = 0
    for seed in range(lo, hi):
        res = one(seed)
        if res:
            bad += 1
            print(seed, res)
            if bad > 5:
                break
    print('done', bad)
