"""helper: random fuzz of Lock (C09) with cancels / until-interrupts / volatile closes"""
import sys; sys.path.insert(0, '/tmp/huntE')
import random
import usim
from usim import run, time, Scope, Flag, until, instant, Lock
assert usim.__file__.startswith('/tmp/huntE')


def one(seed):
    rng = random.Random(seed)
    lock = Lock()
    problems = []
    times = [0, 0, 0, 1, 1, 2, 3]
    inside = []
    ticket = [0]
    acquired = []

    async def pause():
        d = rng.choice(times)
        if d:
            await (time + d)
        elif rng.random() < .5:
            await instant

    async def user(uid):
        for _ in range(rng.randint(1, 3)):
            await pause()
            t = ticket[0]
            ticket[0] += 1
            avail = lock.available
            if avail and inside:
                problems.append('available %s but inside %s' % (avail, inside))
            async with lock:
                if inside:
                    problems.append('mutual exclusion: %s enters while %s inside' % (uid, inside))
                inside.append(uid)
                acquired.append(t)
                try:
                    if not lock.available:
                        problems.append('owner sees unavailable')
                    await pause()
                    for depth in range(rng.randint(0, 2)):
                        async with lock:
                            await pause()
                            if inside != [uid]:
                                problems.append('inner: inside %s' % inside)
                        await pause()
                        if inside != [uid]:
                            problems.append('after inner: inside %s' % inside)
                finally:
                    inside.remove(uid)

    async def main():
        flags = []
        async with Scope() as scope:
            tasks = []

            async def wrapped(uid, flag):
                if flag is None:
                    await user(uid)
                else:
                    async with until(flag):
                        await user(uid)
            for u in range(rng.randint(1, 5)):
                flag = Flag() if rng.random() < .4 else None
                if flag:
                    flags.append(flag)
                tasks.append(scope.do(wrapped(u, flag), volatile=rng.random() < .3))

            async def killer():
                for _ in range(rng.randint(0, 4)):
                    await pause()
                    what = rng.random()
                    if what < .6:
                        rng.choice(tasks).cancel()
                    elif flags:
                        await rng.choice(flags).set()
            scope.do(killer())
            scope.do(killer())
            await (time + rng.choice([1, 2, 3, 5, 8]))
        await instant
        if not lock.available:
            problems.append('not free at quiescence %r' % lock)
        async with lock:
            pass

    try:
        run(main())
    except BaseException as err:
        return 'run failed: %r' % (err,)
    if acquired != sorted(acquired):
        problems.append('fifo %s' % acquired)
    return problems[:3] or None


if __name__ == '__main__':
    lo, hi = int(sys.argv[1]), int(sys.argv[2])
    bad = 0
    for seed in range(lo, hi):
        res = one(seed)
        if res:
            bad += 1
            print(seed, res)
            if bad > 8:
                break
    print('done', bad)
