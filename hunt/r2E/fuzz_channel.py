"""helper: random fuzz of Channel (C11) with cancels / until-interrupts / volatile closes"""
import sys; sys.path.insert(0, '/tmp/huntE')
import random
import usim
from usim import run, time, Scope, Flag, until, instant, Channel, StreamClosed
assert usim.__file__.startswith('/tmp/huntE')


def one(seed):
    rng = random.Random(seed)
    ch = Channel()
    problems = []
    times = [0, 0, 0, 1, 1, 2, 3]
    puts = []          # accepted messages in order
    subs = {}          # cid -> index into puts at subscription
    got = {}           # cid -> list
    ended = {}         # cid -> True if iteration ended normally (closed)
    singles = []       # (index at start, result or None)

    async def pause():
        d = rng.choice(times)
        if d:
            await (time + d)
        elif rng.random() < .5:
            await instant

    async def producer():
        for _ in range(rng.randint(0, 5)):
            await pause()
            if ch.closed:
                try:
                    await ch.put('x')
                except StreamClosed:
                    return
                problems.append('put on closed accepted')
            m = len(puts)
            puts.append(m)
            await ch.put(m)

    async def iterate(cid):
        await pause()
        subs[cid] = len(puts)
        got[cid] = []
        async for m in ch:
            got[cid].append(m)
            if rng.random() < .4:
                await pause()
        ended[cid] = True

    async def single(cid):
        await pause()
        rec = [len(puts), None, ch.closed]
        singles.append(rec)
        try:
            rec[1] = await ch
        except StreamClosed:
            rec[1] = 'closed'

    async def main():
        flags = []
        async with Scope() as scope:
            tasks = []

            async def wrapped(coro, flag):
                if flag is None:
                    await coro
                else:
                    async with until(flag):
                        await coro
            for p in range(rng.randint(1, 3)):
                scope.do(producer())
            for c in range(rng.randint(1, 5)):
                flag = Flag() if rng.random() < .3 else None
                if flag:
                    flags.append(flag)
                coro = iterate(c) if rng.random() < .7 else single(c)
                tasks.append(scope.do(wrapped(coro, flag), volatile=rng.random() < .3))

            async def killer():
                for _ in range(rng.randint(0, 3)):
                    await pause()
                    what = rng.random()
                    if what < .6:
                        rng.choice(tasks).cancel()
                    elif flags:
                        await rng.choice(flags).set()
            scope.do(killer())
            await (time + rng.choice([2, 3, 5, 8, 12]))
            await ch.close()

    try:
        run(main())
    except BaseException as err:
        return 'run failed: %r' % (err,)
    for cid, start in subs.items():
        expect = puts[start:]
        if ended.get(cid):
            if got[cid] != expect:
                problems.append('consumer %s: got %s expected %s' % (cid, got[cid], expect))
        else:
            if got[cid] != expect[:len(got[cid])]:
                problems.append('consumer %s (left): got %s expected prefix of %s' % (cid, got[cid], expect))
    for start, result, was_closed in singles:
        if result is None:
            continue
        if result == 'closed':
            if len(puts) > start and not was_closed:
                # messages were put after it started waiting?? only fine if it was closed before
                problems.append('single: StreamClosed although %s put after start %s' % (puts[start:], start))
        elif result != start:
            problems.append('single: got %s expected %s' % (result, start))
    if ch._consumer_buffers:
        problems.append('leftover buffers')
    return problems[:3] or None


if __name__ == '__main__':
    lo, hi = int(sys.argv[1]), int(sys.argv[2])
    bad = 0
    for seed in range(lo, hi):
        res = one(seed)
        if res:
            bad += 1
            print(seed, res)
            if bad > 8:
                break
    print('done', bad)
