# Property C12 (Resources are conserved ... never leaked)
#
# Violated sentence:
#   "Whatever a block borrowed is returned when the block is left by any route - normal
#    exit, exception, cancellation or interruption ..., forceful close - so the available
#    level ... equals the supply at quiescence."
#
# Scenario ("what is readable after a run has ended", "error paths"):
#   A borrower is closed forcefully because a sibling fails and the failure ends the run
#   (the usual way a simulation dies).  BorrowedResources.__aexit__ cannot await on
#   GeneratorExit, so it only *schedules* two new activities that will hand the amount
#   back "eventually".  The failure then propagates out of the root, run() raises, the
#   event loop stops - and the scheduled activities never run.  The Capacities object is
#   left permanently short ("coroutine '__insert_resources__' was never awaited").
#   A Lock in the same situation IS released (its release is synchronous), so after the
#   same failed run `lock.available` is fine while `capacities.levels` is wrong.
#
# Expected: after run() has raised, capacities.levels == supply (a=3): the only borrower
#           has been closed; a following run can borrow everything.
# Observed: levels a=1 for ever; a following run(…, till=50) that needs a=3 never gets it.
#
# Confidence: medium-low.  Genuine leak through the public API, but only visible to code
# that inspects or re-uses the resources after a *failed* run (post-mortem statistics,
# parameter sweeps that catch the exception and go on).
import sys; sys.path.insert(0, '/tmp/huntE')
import usim
from usim import run, time, Scope, Capacities, Lock, Concurrent
assert usim.__file__.startswith('/tmp/huntE')

cap = Capacities(a=3)
lock = Lock()


async def holder():
    async with lock:
        async with cap.borrow(a=2):
            await (time + 100)


async def failing():
    await (time + 5)
    raise KeyError('boom')


async def main():
    async with Scope() as scope:
        scope.do(holder())
        scope.do(failing())


try:
    run(main())
except Concurrent as err:
    print('run failed with', repr(err))
print('lock owner after failed run       : expected None, observed', lock._owner)
print('capacities after failed run       : expected a=3,  observed', cap.levels)

result = []


async def second():
    async with cap.borrow(a=3):
        result.append(time.now)


run(second(), till=50)
print('second run borrows a=3            : expected at time 0, observed', result or 'never')
