# Property C12 (Resources are conserved: never negative, never leaked, claims never wait)
#
# Violated sentences:
#   "Resource levels never drop below zero"
#   "Whatever a block borrowed is returned when the block is left by any route - ...
#    cancellation or interruption at any suspension point including while acquiring
#    or releasing ..."
#   "Nested borrowing from a borrowed share can never exceed that share."
#
# Scenario (single borrower, one cancel, no other activity touches the share):
#   async with capacities.borrow(a=3) as share:      # share holds 3
#       async with share.borrow(a=2):                # <- cancelled while ACQUIRING
#           ...
#   The nested borrow takes its 2 units from the share in one step (share level 1) and is
#   then postponed inside __aenter__.  A cancel delivered at that postponement makes
#   BorrowedResources.__aenter__ call __return_resources__(), which does NOT return the
#   2 units but only *schedules* an activity that will return them later in the time
#   step.  The CancelTask propagates at once into the outer block's __aexit__, which
#   immediately removes the full 3 units from the share: 1 - 3 = -2.
#
# Expected: share.levels.a is within 0..3 at every moment (1 -> 3 -> 0 or 1 -> 0).
# Observed: share.levels.a == -2 for several turns of the time step (visible to any
#           activity that looks at the share, e.g. a sibling that was handed `share`
#           for claim()/borrow(), or a condition on it), before it is patched up to 0.
#           The same happens when the nested borrow is interrupted while RELEASING
#           (cancel delivered inside the nested __aexit__), see second part.
#
# Not F25 (no earlier signal is lost: there is exactly one signal), not F23 (the share is
# never used by another activity; the observer only reads `levels`).  The until-interrupt
# variant behaves identically.
#
# Confidence: medium.  The accounting is repaired within the same time step and the
# top-level Capacities never goes negative, so the practical damage is small, but the
# statement "levels never drop below zero" is literally false for a borrowed share, and
# nothing in the documentation announces transiently negative levels
# (Capacities docstring: "guarantees that its resources are conserved").
import sys; sys.path.insert(0, '/tmp/huntE')
import usim
from usim import run, time, Scope, Capacities, Flag, until, instant
assert usim.__file__.startswith('/tmp/huntE')


def scenario(title, interrupt_while):
    cap = Capacities(a=3)
    shares = []
    seen = []
    hit = Flag()

    async def worker():
        async with cap.borrow(a=3) as share:
            shares.append(share)
            await (time + 1)
            if interrupt_while == 'acquiring':
                await hit.set()                     # tell main to cancel us *now* ...
                async with share.borrow(a=2):       # ... delivered while postponed in __aenter__
                    await (time + 10)
            else:
                async with share.borrow(a=2):
                    await (time + 1)
                    await hit.set()                 # ... delivered while postponed in __aexit__

    async def observer(at):
        await (time == at)
        for _ in range(12):
            seen.append(shares[0].levels.a)
            await instant

    async def main():
        async with Scope() as scope:
            task = scope.do(worker())
            scope.do(observer(1 if interrupt_while == 'acquiring' else 2))
            await hit
            task.cancel()

    run(main())
    print(title)
    print('  share level seen turn by turn :', seen)
    print('  expected: all values in 0..3  | observed minimum:', min(seen))
    print('  final levels: share', shares[0].levels.a, ' capacities', cap.levels.a)


scenario('nested borrow cancelled while acquiring', 'acquiring')
scenario('nested borrow cancelled while releasing', 'releasing')


# Variant without any cancel/interrupt: a volatile helper works on part of the share and is
# closed at the end of the scope inside the share's block (the documented use of volatile).
def volatile_variant():
    cap = Capacities(a=3)
    shares = []
    seen = []

    async def helper(share):
        async with share.borrow(a=2):
            await (time + 100)

    async def owner():
        async with cap.borrow(a=3) as share:
            shares.append(share)
            async with Scope() as scope:
                scope.do(helper(share), volatile=True)
                await (time + 5)
            # helper closed here; its 2 units are handed back "eventually", share left at once

    async def observer():
        await (time == 5)
        for _ in range(12):
            seen.append(shares[0].levels.a)
            await instant

    run(observer(), owner())
    print('volatile helper closed at the end of a scope inside the share block')
    print('  share level seen turn by turn :', seen)
    print('  expected: all values in 0..3  | observed minimum:', min(seen))
    print('  final levels: share', shares[0].levels.a, ' capacities', cap.levels.a)


volatile_variant()
