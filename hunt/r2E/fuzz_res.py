"""helper: random fuzz of Resources/Capacities (C12) with cancels / until-interrupts / volatile closes"""
import sys; sys.path.insert(0, '/tmp/huntE')
import random
import usim
from usim import run, time, Scope, Flag, until, instant, Resources, Capacities, ResourcesUnavailable
assert usim.__file__.startswith('/tmp/huntE')


def one(seed):
    rng = random.Random(seed)
    names = ['a', 'b'][:rng.randint(1, 2)]
    supply = {n: rng.randint(1, 4) for n in names}
    kind = rng.choice([Resources, Capacities])
    res = kind(**supply)
    problems = []
    times = [0, 0, 1, 1, 2, 3]
    held = []  # amounts inside blocks

    def check(where):
        lv = dict(res.levels)
        for n in names:
            if lv[n] < 0:
                problems.append('%s: negative %s' % (where, lv))
            inside = sum(h.get(n, 0) for h in held)
            if lv[n] > supply[n] - inside:
                problems.append('%s: level %s > supply %s - held %s' % (where, lv, supply, held))

    async def user(uid):
        for _ in range(rng.randint(1, 3)):
            d = rng.choice(times)
            if d:
                await (time + d)
            amounts = {n: rng.randint(0, supply[n]) for n in names if rng.random() < .8}
            claim = rng.random() < .3
            ctx = res.claim(**amounts) if claim else res.borrow(**amounts)
            if claim:
                avail = all(getattr(res.levels, n) >= v for n, v in amounts.items())
            try:
                async with ctx as share:
                    if claim and not avail:
                        problems.append('claim entered although unavailable')
                    held.append(amounts)
                    try:
                        check('entered %s' % uid)
                        if rng.random() < .4 and amounts:
                            sub = {n: rng.randint(0, v) for n, v in amounts.items()}
                            async with share.borrow(**sub):
                                await (time + rng.choice(times))
                        d = rng.choice(times)
                        if d:
                            await (time + d)
                        elif rng.random() < .5:
                            await instant
                        check('leaving %s' % uid)
                    finally:
                        held.remove(amounts)
            except ResourcesUnavailable:
                if avail:
                    problems.append('claim refused although available')

    async def main():
        flags = []
        async with Scope() as scope:
            tasks = []

            async def wrapped(uid, flag):
                if flag is None:
                    await user(uid)
                else:
                    async with until(flag):
                        await user(uid)
            for u in range(rng.randint(1, 5)):
                flag = Flag() if rng.random() < .4 else None
                if flag:
                    flags.append(flag)
                tasks.append(scope.do(wrapped(u, flag), volatile=rng.random() < .3))

            async def killer():
                for _ in range(rng.randint(0, 4)):
                    d = rng.choice(times)
                    if d:
                        await (time + d)
                    else:
                        await instant
                    what = rng.random()
                    if what < .6:
                        rng.choice(tasks).cancel()
                    elif flags:
                        await rng.choice(flags).set()
                    check('killer')
            scope.do(killer())
            scope.do(killer())
            await (time + rng.choice([1, 2, 3, 5, 8]))
        for _ in range(5):
            await instant
        await (time + 1)
        if dict(res.levels) != supply:
            problems.append('quiescence: %s != %s' % (dict(res.levels), supply))

    try:
        run(main())
    except BaseException as err:
        return 'run failed: %r' % (err,)
    return problems[:3] or None


if __name__ == '__main__':
    lo, hi = int(sys.argv[1]), int(sys.argv[2])
    bad = 0
    for seed in range(lo, hi):
        res = one(seed)
        if res:
            bad += 1
            print(seed, res)
            if bad > 8:
                break
    print('done', bad)
