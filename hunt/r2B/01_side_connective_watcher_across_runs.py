# SIDE FINDING - not a violation of C04/C05 as literally stated (for those two
# properties nothing new was found); it surfaced while checking how an `until`
# block can end, and it makes a later run crash.
#
# Area: until(<connective>) / sequences of several runs (same family as the fixed
#   "time condition objects reused across runs").
# What happens: `until(a & b)` (also `until(a | b)`, and nested connectives such as
#   `await (a & (b | c))`) spawns an internal watcher activity
#   (Connective.__watch_children__, condition.py) that stays subscribed to the
#   child conditions until the connective holds.  It is NOT stopped when the
#   until-block is left, nor when the run ends.  If the Flags live longer than one
#   run (module level / reused model objects), setting such a Flag in a LATER run
#   resumes the stale watcher of the earlier run inside the new loop; its
#   subscriptions captured the old loop object, so it dies with
#   "AssertionError: Break points cannot be passed to other coroutines",
#   which aborts the new run (an internal activity's exception leaves usim.run).
# Expected: run 2 runs to its end (prints "run 2: end at 2"); a condition left over
#   from a finished run must not act in a later one.
# Observed: run 2 raises AssertionError at time 1, when `a` is set.
# Under `python -O` the assertion is stripped and the stale watcher silently keeps
#   acting in the new loop instead.
# Confidence that this is a genuine defect: medium.  Nothing in the docs forbids
#   keeping Flags across runs; the analogous problem for `time >= x` objects was
#   treated as a defect and fixed (b8b158d).  It needs no misuse, only
#   until(connective) + a Flag that outlives the run.
import sys; sys.path.insert(0, '/tmp/huntB')
import usim
assert usim.__file__.startswith('/tmp/huntB')
from usim import run, until, time, Flag

a, b = Flag(), Flag()          # model objects that outlive one run


async def sim1():
    async with until(a & b):   # never holds in this run; block is left normally at 10
        await (time + 10)
    print('run 1: until-block left at', time.now)


async def sim2():
    await (time + 1)
    await a.set()
    print('run 2: a set at', time.now)
    await (time + 1)
    print('run 2: end at', time.now)


run(sim1())
try:
    run(sim2())
    print('OK: run 2 completed')
except BaseException as err:
    print('DEFECT: run 2 raised %s: %s' % (type(err).__name__, err))
