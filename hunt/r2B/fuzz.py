"""Random scenario fuzzer for C04/C05 (exploration tool, not a finding)."""
import sys; sys.path.insert(0, '/tmp/huntB')
import random, itertools, traceback, signal, os
import usim
assert usim.__file__.startswith('/tmp/huntB')
from usim import Scope, until, time, Flag, Concurrent, TaskCancelled, TaskClosed, instant, run
from usim._core.loop import Interrupt

EXC = [KeyError, IndexError, ValueError, AssertionError, SystemExit, KeyboardInterrupt]


class World:
    def __init__(self, rng):
        self.rng = rng
        self.seq = itertools.count()
        self.events = []      # (seq, time, actor, what, extra)
        self.flags = [Flag() for _ in range(3)]
        self.ids = itertools.count()
        self.parent_scope = {}   # activity id -> scope id it is a child of
        self.scope_owner = {}    # scope id -> activity id owning
        self.volatile = {}
        self.cancelled = set()   # activity ids individually cancelled
        self.problems = []
        self.kind = {}
        self.all_tasks = []
        self.exited_sids = set()
        self.exited = set()
        self.all_scopes = []

    def log(self, actor, what, extra=None):
        self.events.append((next(self.seq), time.now, actor, what, extra))


def gen_actions(rng, depth, in_scope, n=None, is_body=False):
    acts = []
    for _ in range(n if n is not None else rng.randint(1, max(1, 5 - depth))):
        r = rng.random()
        if r < 0.30:
            acts.append(('sleep', rng.choice([0, 0, 0, 1, 1, 2] if __import__('os').environ.get('DENSE') else [0, 0, 1, 1, 2, 3])))
        elif r < 0.40:
            if is_body and rng.random() < 0.7:
                acts.append(('sleep', rng.choice([0, 1, 2])))
            else:
                acts.append(('raise', rng.choice(EXC[:4]) if rng.random() < 0.85 else rng.choice(EXC)))
        elif r < 0.55 and depth < 3:
            acts.append(('scope', gen_scope(rng, depth + 1)))
        elif r < 0.75 and in_scope and depth < 4:
            acts.append(('spawn', gen_actions(rng, depth + 1, True), rng.random() < 0.25,
                         rng.choice([None, None, None, 0, 1, 2])))
        elif r < 0.82 and in_scope:
            acts.append(('cancel', rng.randint(0, 5)))
        elif r < 0.88 and in_scope:
            acts.append(('await_task', rng.randint(0, 5)))
        elif r < 0.91:
            acts.append(('setflag', rng.randint(0, 2), rng.random() < 0.8))
        elif r < 0.93 and depth < 4:
            acts.append(('gspawn', gen_actions(rng, depth + 1, False), rng.random() < 0.25,
                         rng.choice([None, None, 0, 1]), rng.randint(0, 6)))
        elif r < 0.95:
            acts.append(('gcancel', rng.randint(0, 10)))
        elif r < 0.96:
            acts.append(('gawait', rng.randint(0, 10)))
        elif r < 0.97:
            acts.append(('gawait_scope', rng.randint(0, 6)))
        elif r < 0.985 and depth < 4:
            acts.append(('tryfin', gen_actions(rng, depth + 1, in_scope, n=2), rng.choice([None, None, KeyError, IndexError])))
        elif in_scope:
            acts.append(('await_scope',))
        else:
            acts.append(('sleep', 1))
    return acts


def gen_scope(rng, depth):
    kind = rng.choice(['scope', 'scope', 'scope', 'until_flag', 'until_delay', 'until_after',
                       'until_and', 'until_or', 'until_not', 'until_moment', 'until_done'])
    return {'kind': kind, 'arg': rng.choice([0, 1, 2, 3, 4, 6]), 'body': gen_actions(rng, depth, True, is_body=True)}


async def run_actions(w, me, acts, scope=None, tasks=None, sid=None):
    for act in acts:
        w.log(me, 'step', act[0])
        k = act[0]
        if k == 'sleep':
            if act[1] == 0:
                await instant
            else:
                await (time + act[1])
        elif k == 'raise':
            raise act[1]('%s@%s' % (me, time.now))
        elif k == 'scope':
            await run_scope(w, me, act[1])
        elif k == 'spawn':
            if scope is None:
                continue
            cid = next(w.ids)
            w.parent_scope[cid] = sid
            w.volatile[cid] = act[2]
            try:
                t = scope.do(child(w, cid, act[1], scope, tasks, sid), volatile=act[2], after=act[3])
            except usim._primitives.context.ScopeClosed:
                w.log(me, 'refused', cid)
                w.refused = getattr(w, 'refused', set()) | {cid}
                continue
            tasks.append((cid, t))
            w.all_tasks.append((cid, t))
        elif k == 'cancel':
            if tasks and act[1] < len(tasks):
                cid, t = tasks[act[1]]
                if cid != me:
                    w.cancelled.add(cid)
                    t.cancel()
        elif k == 'await_task':
            if tasks and act[1] < len(tasks):
                cid, t = tasks[act[1]]
                if cid != me:
                    await t
        elif k == 'setflag':
            await w.flags[act[1]].set(act[2])
        elif k == 'gspawn':
            if w.all_scopes:
                gsid, gscope, gtasks = w.all_scopes[act[4] % len(w.all_scopes)]
                cid = next(w.ids)
                w.parent_scope[cid] = gsid
                w.volatile[cid] = act[2]
                try:
                    t = gscope.do(child(w, cid, act[1], gscope, gtasks, gsid), volatile=act[2], after=act[3])
                except usim._primitives.context.ScopeClosed:
                    w.log(me, 'refused', cid)
                    w.refused = getattr(w, 'refused', set()) | {cid}
                    if ('exit', gsid) not in w.exited and ('closing', gsid) not in w.exited:
                        pass
                    continue
                if gsid in w.exited_sids:
                    w.problems.append('C04: spawn into ended scope %s accepted' % gsid)
                gtasks.append((cid, t))
                w.all_tasks.append((cid, t))
        elif k == 'gcancel':
            if w.all_tasks:
                cid, t = w.all_tasks[act[1] % len(w.all_tasks)]
                if cid != me:
                    w.cancelled.add(cid)
                    t.cancel()
        elif k == 'gawait':
            if w.all_tasks:
                cid, t = w.all_tasks[act[1] % len(w.all_tasks)]
                if cid != me and not is_ancestor(w, cid, me):
                    await t
        elif k == 'gawait_scope':
            if w.all_scopes:
                gsid, gscope, gtasks = w.all_scopes[act[1] % len(w.all_scopes)]
                if not owns_ancestor(w, gsid, me):
                    await gscope
        elif k == 'tryfin':
            try:
                await run_actions(w, me, act[1], scope, tasks, sid)
            finally:
                w.log(me, 'finally')
                if act[2] is not None:
                    raise act[2]('fin %s@%s' % (me, time.now))
        elif k == 'await_scope':
            if scope is not None and w.scope_owner.get(sid) != me:
                await scope


def is_ancestor(w, anc, me):
    # is activity `anc` an ancestor (owner chain) of activity `me`?
    cur = me
    while cur in w.parent_scope:
        owner = w.scope_owner[w.parent_scope[cur]]
        if owner == anc:
            return True
        cur = owner
    return False


def owns_ancestor(w, gsid, me):
    # would awaiting scope gsid from `me` deadlock (me is owner or gsid encloses... )
    owner = w.scope_owner[gsid]
    return owner == me or is_ancestor(w, me, owner) or False


async def child(w, cid, acts, scope, tasks, sid):
    w.log(cid, 'start')
    try:
        await run_actions(w, cid, acts, scope, tasks, sid)
    except BaseException as e:
        w.log(cid, 'exc', e)
        raise
    w.log(cid, 'complete')


async def run_scope(w, me, spec):
    sid = next(w.ids)
    w.scope_owner[sid] = me
    kind = spec['kind']
    w.kind[sid] = kind
    if kind == 'scope':
        cm = Scope()
    elif kind == 'until_flag':
        cm = until(w.flags[spec['arg'] % 3])
    elif kind == 'until_delay':
        cm = until(time + spec['arg'])
    elif kind == 'until_after':
        cm = until(time >= time.now + spec['arg'])
    elif kind == 'until_and':
        cm = until(w.flags[0] & w.flags[spec['arg'] % 2 + 1])
    elif kind == 'until_or':
        cm = until(w.flags[0] | (time >= time.now + spec['arg']))
    elif kind == 'until_not':
        cm = until(~w.flags[spec['arg'] % 3])
    elif kind == 'until_moment':
        cm = until(time == time.now + spec['arg'])
    elif kind == 'until_done':
        if w.all_tasks:
            cm = until(w.all_tasks[spec['arg'] % len(w.all_tasks)][1].done)
        else:
            cm = Scope()
            kind = w.kind[sid] = 'scope'
    tasks = []
    body_exc = None
    w.log(me, 'enter', sid)
    try:
        async with cm as scope:
            w.all_scopes.append((sid, scope, tasks))
            try:
                await run_actions(w, me, spec['body'], scope, tasks, sid)
            except BaseException as e:
                body_exc = e
                w.log(me, 'bodyexc', (sid, e))
                raise
            w.log(me, 'bodyend', sid)
    except BaseException as e:
        w.exited_sids.add(sid)
        w.log(me, 'exit', (sid, e, body_exc))
        post_exit(w, sid, cm, tasks)
        raise
    else:
        w.exited_sids.add(sid)
        w.log(me, 'exit', (sid, None, body_exc))
        post_exit(w, sid, cm, tasks)


def post_exit(w, sid, cm, tasks):
    for cid, t in tasks:
        if not t.done or not (t.status & usim.TaskState.FINISHED):
            w.problems.append('C04: scope %s left but task %s not done: %s' % (sid, cid, t.status))
    async def never():
        w.problems.append('C04: payload spawned into ended scope %s RAN' % sid)
    p = never()
    try:
        cm.do(p)
    except usim._primitives.context.ScopeClosed:
        import inspect
        if inspect.getcoroutinestate(p) != 'CORO_CLOSED':
            w.problems.append('C04: refused payload not closed')
    else:
        w.problems.append('C04: spawn into ended scope %s accepted' % sid)


async def root(w, spec):
    try:
        await run_scope(w, 'root', spec)
    except GeneratorExit:
        raise
    except BaseException as e:
        w.log('root', 'rootexc', e)
        if isinstance(e, Interrupt):
            w.problems.append('raw interrupt escaped to root: %r' % (e,))
    await (time + 50)
    w.log('root', 'finalcheck')


def check(w):
    P = w.problems
    ev = w.events
    # descendants
    children_of_scope = {}
    for cid, sid in w.parent_scope.items():
        children_of_scope.setdefault(sid, []).append(cid)
    scopes_of_owner = {}
    for sid, owner in w.scope_owner.items():
        scopes_of_owner.setdefault(owner, []).append(sid)

    def descendants(sid):
        out = set()
        for c in children_of_scope.get(sid, []):
            out.add(c)
            for s in scopes_of_owner.get(c, []):
                out |= descendants(s)
        return out
    refused = getattr(w, 'refused', set())
    for (seq, t, actor, what, extra) in ev:
        if what != 'exit':
            continue
        sid, exc, body_exc = extra
        desc = descendants(sid)
        late = [e for e in ev if e[0] > seq and e[2] in desc]
        if late:
            P.append('C04: scope %s exited at seq %s t=%s but descendants ran later: %r' % (sid, seq, t, late[:3]))
        direct = children_of_scope.get(sid, [])
        fails = [e for e in ev if e[2] in direct and e[3] == 'exc' and e[0] < seq
                 and not isinstance(e[4], (TaskCancelled, TaskClosed, GeneratorExit, Interrupt))]
        if exc is not None and exc is body_exc:
            pass
        elif isinstance(exc, (Interrupt, GeneratorExit)):
            pass  # foreign signal passing through
        elif isinstance(exc, Concurrent):
            got = list(exc.children)
            want = [e[4] for e in fails]
            if any(isinstance(x, (SystemExit, KeyboardInterrupt, AssertionError)) for x in want):
                P.append('C05: Concurrent although privileged child failure: %r' % (want,))
            if len(got) != len(want) or any(a is not b for a, b in zip(got, want)):
                P.append('C05: scope %s Concurrent children %r != failures %r' % (sid, got, want))
            if fails and fails[0][1] != t:
                P.append('C05: scope %s first failure at %s but exit at %s' % (sid, fails[0][1], t))
            if body_exc is not None and not isinstance(body_exc, Interrupt):
                P.append('C05: scope %s Concurrent but body raised %r' % (sid, body_exc))
        elif exc is None:
            if fails:
                P.append('C05: scope %s exited normally but children failed %r' % (sid, fails))
            if body_exc is not None and not isinstance(body_exc, Interrupt):
                P.append('C05: scope %s swallowed body exception %r' % (sid, body_exc))
            # I5: every non-volatile child completed unless cancelled
            if body_exc is None and w.kind[sid] == 'scope':
                for c in direct:
                    if w.volatile[c] or c in w.cancelled or c in refused:
                        continue
                    done = [e for e in ev if e[2] == c and e[3] in ('complete',)]
                    cexc = [e for e in ev if e[2] == c and e[3] == 'exc']
                    if not done and not (cexc and isinstance(cexc[-1][4], (TaskCancelled, TaskClosed))):
                        P.append('C04: scope %s exited normally but child %s not complete: %r' % (sid, c, cexc))
        else:
            if isinstance(exc, (SystemExit, KeyboardInterrupt, AssertionError)):
                pass
            elif exc is body_exc:
                pass
            else:
                P.append('C05: scope %s exit with %r which is neither body exc %r nor Concurrent' % (sid, exc, body_exc))
            if fails and fails[0][1] != t and not isinstance(exc, (Interrupt, GeneratorExit)):
                P.append('C05(time): scope %s first failure at %s but exit at %s with %r' % (sid, fails[0][1], t, exc))
    return P


def one(seed, verbose=False):
    rng = random.Random(seed)
    w = World(rng)
    spec = gen_scope(rng, 0)
    spec['body'] = gen_actions(rng, 0, True, n=rng.randint(3, 7), is_body=True)
    try:
        run(root(w, spec))
    except BaseException as e:
        if isinstance(e, (SystemExit, KeyboardInterrupt)) and False:
            pass
        w.problems.append('run raised %r' % (e,))
        if verbose:
            traceback.print_exc()
    check(w)
    import gc; gc.collect()
    if verbose:
        import pprint
        pprint.pprint(spec)
        for e in w.events:
            print(e)
    return w.problems


if __name__ == '__main__':
    if len(sys.argv) > 2 and sys.argv[1] == 'one':
        for p in one(int(sys.argv[2]), verbose=True):
            print('PROBLEM', p)
        sys.exit()
    lo, hi = int(sys.argv[1]), int(sys.argv[2])
    signal.alarm(600)
    bad = 0
    for seed in range(lo, hi):
        def handler(signum, frame):
            raise TimeoutError('hang seed %d' % seed)
        signal.signal(signal.SIGALRM, handler)
        signal.alarm(5)
        try:
            ps = one(seed)
        except TimeoutError as e:
            ps = [str(e)]
        signal.alarm(0)
        if ps:
            bad += 1
            print('seed', seed)
            for p in ps[:4]:
                print('   ', p[:300])
    print('done', bad, 'bad of', hi - lo)
