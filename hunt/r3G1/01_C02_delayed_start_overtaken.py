# Property : C02 (deterministic FIFO turn order), touching C01 (`scope.do(..., at=t / after=d)`)
# Sentence : "Activities that become runnable for the same time run in the order in which
#             they were made runnable."
# Scenario : within ONE turn an activity first asks for a child to start at date T
#            (`scope.do(child, after=1)` / `scope.do(child, at=T)`) or awaits a date via a
#            condition (`await (time >= T)` / `await (time == T)`), and only AFTERWARDS another
#            wait for the very same date T is issued with a plain delay (`await (time + 1)`).
# Expected : at T the one requested first runs first (that is what happens for an undelayed
#            `scope.do(child)` followed by `await instant`, see the control case below).
# Observed : the plain delay requested LATER is served FIRST.  The delayed child is not queued
#            for T by do(): do() only queues the task's runner for the current step, and the
#            runner queues its own wake-up for T when it gets its turn - i.e. after everything
#            the caller did in the remainder of its turn.  `time >= T` / `time == T` are served
#            by a helper (`After._async_trigger`) that is queued for T and re-queues the real
#            waiter at the END of time step T, so every direct delay for T overtakes it, too.
# Docs     : Scope.do: "after: delay after which to start the activity / at: point in time at
#            which to start the activity" - nothing about queueing behind later requests.
# Confidence: LOW-MEDIUM.  Fully deterministic (so "same program -> same trace" holds); it is the
#            FIFO sentence read from the caller's point of view that does not hold.  If "made
#            runnable" is read as "the moment the kernel queues the wake-up" this is by design.
import sys; sys.path.insert(0, '/tmp/huntG1')
import usim
from usim import run, time, Scope, instant
assert usim.__file__.startswith('/tmp/huntG1'), usim.__file__

order = []


async def child(name):
    order.append((name, time.now))


async def waiter(name, cond):
    await cond
    order.append((name, time.now))


async def delayed_start():
    async with Scope() as scope:
        scope.do(child('1st requested: do(after=1)'), after=1)
        scope.do(child('2nd requested: do(at=1)'), at=1)
        await (time + 1)
        order.append(('3rd requested: parent time+1', time.now))


async def control():
    async with Scope() as scope:
        scope.do(child('1st requested: do() now'))
        await instant
        order.append(('2nd requested: parent instant', time.now))


async def date_conditions():
    async with Scope() as scope:
        scope.do(waiter('1st requested: time >= 1', time >= 1))
        scope.do(waiter('2nd requested: time == 1', time == 1))
        scope.do(waiter('3rd requested: time + 1', time + 1))


for prog in (control, delayed_start, date_conditions):
    order.clear()
    run(prog())
    print(prog.__name__)
    for entry in order:
        print('   ', entry)
    names = [name for name, _ in order]
    print('    FIFO by request:', names == sorted(names))


# Same mechanism seen through `until`: the deadline is requested BEFORE the body's wait for the
# very same date, yet only the delay form of the deadline is served before the body's wait.
async def deadline(name, make):
    reached = False
    async with until(make()):
        await (time + 1)
        reached = True
        await instant
    print('    until(%s) entered first, body `await (time + 1)` second -> body wait completed: %s'
          % (name, reached))

from usim import until  # noqa: E402
print('deadline requested before an equal-date wait of the body')
for name, make in (('time + 1', lambda: time + 1), ('time >= 1', lambda: time >= 1),
                   ('time == 1', lambda: time == 1)):
    run(deadline(name, make))
