# Property C18 (SimPy layer), sentence violated:
#   "`interrupt(cause)` raises Interrupt(cause) in a live process at its current yield
#    within the same time step, one per yield in call order, and is ignored [only] for a
#    finished process."
#
# Scenario: a process is interrupted three times in one time step ('a', 'b', 'c') while
# it waits for a timeout.  It handles Interrupt('a') and then yields three more times.
#   variant E: the later yields are of an (already processed) Event
#   variant A: the later yields are of native activities that finish without suspending
#              (`async def quick(): return ...`) - "yielded native activities" are in the
#              range of the property.
#
# Expected (both variants): 'a', 'b', 'c' are raised at three consecutive yields at time 2.
# Observed: variant E does exactly that.  In variant A only 'a' is raised; the yields that
#   follow hand back the activities' values although interrupts are pending; the process
#   ends with 'b' and 'c' never delivered (if it went on to yield an Event later, they
#   would arrive late, possibly in a later time step and at another yield).
# Cause: AwaitableEvent.wait_interruptible uses `async with until(interrupted)`; an
#   until-scope whose notification is already set only interrupts at the next suspension,
#   and a body that finishes without suspending wins (`return True` is kept even though
#   the scope swallowed its own interrupt in __aexit__).
# Side remark: the activity is also *started* although an interrupt was already pending.
#
# Docs: Process.interrupt: "Interrupt the process by raising an Interrupt" - no exception
#   for processes that wait for activities.
# Confidence: medium-low (0.4): literal violation of "one per yield in call order" and
#   inconsistent with the Event case inside usim.py itself; SimPy has no yielded
#   activities to compare with.
import sys; sys.path.insert(0, '/tmp/huntF')
import usim
assert usim.__file__.startswith('/tmp/huntF')
from usim import time
from usim.py import Environment
from usim.py.exceptions import Interrupt


async def quick(name):
    return name


def scenario(variant):
    env = Environment()
    log = []
    done = env.event()
    done.succeed('D')

    def victim(env):
        for i in range(4):
            try:
                if i == 0:
                    v = yield env.timeout(5)
                elif variant == 'E':
                    v = yield done
                else:
                    v = yield quick('q%d' % i)
                log.append(('got %r' % v, env.now))
            except Interrupt as e:
                log.append(('Interrupt(%r)' % e.cause, env.now))

    def attacker(env, p):
        yield env.timeout(2)
        p.interrupt('a')
        p.interrupt('b')
        p.interrupt('c')

    p = env.process(victim(env))
    env.process(attacker(env, p))
    env.run()
    print('variant', variant, ':', log)


scenario('E')
scenario('A')
print("EXPECTED for both: [Interrupt('a')@2, Interrupt('b')@2, Interrupt('c')@2, got ...@2]")
