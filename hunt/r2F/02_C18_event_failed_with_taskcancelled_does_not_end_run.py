# Property C18 (SimPy layer), sentence violated:
#   "an unhandled failed event ends the run with that exception, and activities and
#    processes can wait for each other's events, notifications and coroutines with the
#    same results."
#
# Scenario (three parties: a native Task, a Process, the Environment): a Process yields
# a native usim Task that has been cancelled.  Waiting for a cancelled Task raises
# TaskCancelled in the waiter (documented usim behaviour) - it is thrown into the
# process generator.  The process does not handle it, so the Process event FAILS with
# TaskCancelled; nobody waits for the process, nobody defuses it: it is an unhandled
# failed event.
#
# Expected: the environment ends with that exception at time 1 (for any other exception
#           type, e.g. KeyError, this is what happens).
# Observed: nothing.  The run continues to the end (time 11) and ends normally;
#           p.ok is False, p.defused is False, p.value is the TaskCancelled.
# Cause: Event._invoke_callbacks re-raises the exception inside a Task of the
#        EnvironmentScope; usim/_primitives/task.py treats (TaskCancelled, TaskClosed)
#        escaping a payload as "sharing the fate - not a failure" and Scope suppresses it.
# The same holds for ANY event: `event.fail(exc)` with exc a TaskCancelled/TaskClosed
# (e.g. one caught from `await task`) never ends the run (part 2).
#
# Docs: usim.py docs say nothing about exempt exception types; simpy semantics: "If a
# failed event is not handled the environment crashes".
# Confidence: medium (0.5) - silently swallowing the death of a process is a genuine
# loss of an error, but one may argue TaskCancelled is meant to be quiet in usim.
import sys; sys.path.insert(0, '/tmp/huntF')
import usim
assert usim.__file__.startswith('/tmp/huntF')
from usim import Scope, time, run, TaskCancelled, eternity
from usim.py import Environment

log = []


def proc(env, task):
    log.append(('process waits for the task', env.now))
    yield task       # raises TaskCancelled here; not handled -> the process fails
    log.append(('process resumed', env.now))


def other(env):
    yield env.timeout(10)
    log.append(('other process finished', env.now))


async def sleeper():
    await eternity


async def main():
    async with Scope() as scope:
        task = scope.do(sleeper())
        await (time + 1)
        task.cancel()
        async with Environment() as env:
            p = env.process(proc(env, task))
            env.process(other(env))
        print('part 1: environment ended NORMALLY at', time.now)
        print('        p.ok=%s p.defused=%s p.value=%r' % (p.ok, p.defused, p.value))


try:
    run(main())
except BaseException as e:
    print('part 1: run raised %r  (this is what the property demands)' % e)
print('        log:', log)

# part 2: plain event failed with such an exception, pure usim.py
log.clear()
env = Environment()
ev = env.event()


def failer(env, ev):
    yield env.timeout(1)
    ev.fail(TaskCancelled(None))


env.process(failer(env, ev))
env.process(other(env))
try:
    env.run()
    print('part 2: env.run() ended NORMALLY at %s, ev.ok=%s ev.defused=%s' % (env.now, ev.ok, ev.defused))
except BaseException as e:
    print('part 2: env.run() raised %r at %s (demanded)' % (e, env.now))
print('EXPECTED: both parts end with TaskCancelled at time 1')
