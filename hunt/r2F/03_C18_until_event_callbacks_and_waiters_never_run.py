# Property C18 (SimPy layer), sentences violated:
#   "every process or activity waiting for it resumes at the virtual time of the trigger
#    with its value ... and its callbacks run exactly once"
#   together with "`env.run(until=...)` stops exactly at the given time or event and
#    returns its value".
#
# Scenario: `env.run(until=event)` - for a plain Event, a Process and a Timeout used as
# the `until` event.  The event has a user callback (registered before the run) and, in
# the first case, a process waiting for it (started before the run).
#
# Expected (and SimPy's behaviour: run() appends its stop-callback AFTER the already
#   registered callbacks): when the until-event fires, its callbacks run exactly once,
#   `event.processed` is True, the process that was waiting for it is resumed with the
#   value 42 at time 1, then run() returns the value.
# Observed: run() returns the value, but the callbacks run ZERO times, `processed` stays
#   False for ever, and the waiting process is never resumed.
# Cause: Environment.until() waits on the event's flag and is the first subscriber (it
#   subscribes at start-up, before any process starts); it raises StopSimulation at once,
#   which closes the not-yet-started `_invoke_callbacks` task and all processes.
#
# Docs: Environment.run: "an Event: The sub-simulation lasts until the event is
#   triggered." - nothing says the event's own callbacks/waiters are dropped.
# Confidence: medium-high (0.6) for the callbacks ("exactly once" vs. never; a typical
#   use is `env.run(until=proc)` with a monitoring callback on proc), medium for the
#   waiting process (order among same-time resumptions is debatable).
import sys; sys.path.insert(0, '/tmp/huntF')
import usim
assert usim.__file__.startswith('/tmp/huntF')
from usim.py import Environment

# 1. plain event
env = Environment()
ev = env.event()
calls = []
ev.callbacks.append(lambda e: calls.append(('callback', e.value, env.now)))


def trigger(env):
    yield env.timeout(1)
    ev.succeed(42)


def waiter(env):
    v = yield ev
    calls.append(('waiter resumed', v, env.now))


env.process(waiter(env))
env.process(trigger(env))
print('Event   : run ->', env.run(until=ev), ' now =', env.now)
print('          calls =', calls, ' processed =', ev.processed)
print('          EXPECTED calls = [(waiter resumed, 42, 1), (callback, 42, 1)], processed = True')

# 2. a Process as until
env = Environment()
calls = []


def job(env):
    yield env.timeout(3)
    return 'job result'


p = env.process(job(env))
p.callbacks.append(lambda e: calls.append(('callback', e.value, env.now)))
print('Process : run ->', env.run(until=p), ' now =', env.now)
print('          calls =', calls, ' processed =', p.processed)

# 3. a Timeout as until
env = Environment()
calls = []
t = env.timeout(3, 'T')
t.callbacks.append(lambda e: calls.append(('callback', e.value, env.now)))
print('Timeout : run ->', env.run(until=t), ' now =', env.now)
print('          calls =', calls, ' processed =', t.processed)
