# Property C18 (SimPy layer), sentence violated:
#   "... every process or activity waiting for it resumes at the virtual time of the
#    trigger with its value - or has its exception raised - ... and activities and
#    processes can wait for each other's events, notifications and coroutines with the
#    same results."
#
# Scenario: a Process yields a native activity (coroutine) that opens a usim.Scope whose
# child fails.  The failure of such an activity is reported by usim as `Concurrent[...]`
# (the library's standard exception for failed children).  A native activity that
# awaits the very same coroutine gets the Concurrent raised at its `await` and can handle
# it.  The Process does NOT get it raised at its `yield`: Concurrent derives from
# BaseException, but `usim/py/_awaitable.py:AwaitableEvent.wait_interruptible` only
# catches `Exception`.  The Concurrent therefore tears through Process._run_payload, the
# process is neither resumed nor failed (its event never triggers, is_alive stays True),
# and the whole environment dies with the Concurrent - the process' try/except around the
# yield is never consulted.
#
# Expected: the process' `except Concurrent` handler runs at time 1, the process goes on
#           and the run ends normally at time 2 (same result as for the native consumer).
# Observed: env.run() raises Concurrent[KeyError]; the process log stays empty, the
#           process event never fires.
#
# Docs (docs/source/topics/simpy.rst): "a uSim activity can be `yield`ed by a SimPy
# Process. Both approaches *return* the value or *raise* any errors of their activity or
# event."  Nothing exempts Concurrent.
# Confidence: fairly high (0.7).  (KNOWN lists "child raising a BaseException subclass" as
# not-a-defect, but that is about user-made BaseExceptions inside a Scope; here the
# BaseException is usim's own regular failure report which natives are told to catch.)
import sys; sys.path.insert(0, '/tmp/huntF')
import usim
assert usim.__file__.startswith('/tmp/huntF')
from usim import Scope, time, Concurrent, run
from usim.py import Environment


async def failing_child():
    await (time + 1)
    raise KeyError('child')


async def native_activity():
    async with Scope() as scope:
        scope.do(failing_child())
    return 'fine'


async def native_consumer():
    try:
        await native_activity()
    except Concurrent as e:
        print('native consumer : caught %r at %s' % (e, time.now))


run(native_consumer())

log = []


def proc(env):
    try:
        value = yield native_activity()
        log.append(('value', value))
    except Concurrent as e:
        log.append(('process caught', repr(e), env.now))
    yield env.timeout(1)
    log.append(('process done', env.now))


env = Environment()
p = env.process(proc(env))
try:
    env.run()
    print('env.run()       : ended normally at', env.now)
except BaseException as e:
    print('env.run()       : RAISED %r' % e)
print('process log     :', log)
print('process event   : triggered=%s is_alive=%s' % (p.triggered, p.is_alive))
print('EXPECTED: process log == [(process caught ..., 1), (process done, 2)], run ends normally')
