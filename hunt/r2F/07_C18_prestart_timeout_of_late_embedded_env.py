# Property C18 (SimPy layer), sentence violated (literal reading):
#   "a Timeout fires exactly delay later"   Range: "... standalone or embedded in a
#   native simulation", "events that fired/created before they are waited for".
#
# Scenario: an Environment (initial_time=0) is prepared before it is entered - a
# Timeout(5) is created while `env.now == 0` - and is then embedded into a native
# simulation whose clock already shows 100 (`await env.until()` at time 100).
#
# Expected: the timeout fires when env.now == 5 - i.e. `fired - created == delay` on the
#   environment's own clock (Environment.__aenter__ does align the clocks when the
#   native clock is BEHIND initial_time, by waiting for `time == initial_time`).
# Observed: env.now jumps from 0 to 100 on entering; the timeout created at env.now == 0
#   fires at env.now == 105: 105 later by the only clock the SimPy code can see.
#
# Docs: Environment.__init__(initial_time=0); nothing says the environment's clock is
#   discarded when the host simulation is ahead of it.
# Confidence: low (0.25) - arguably "env.now before start is only a placeholder".
import sys; sys.path.insert(0, '/tmp/huntF')
import usim
assert usim.__file__.startswith('/tmp/huntF')
from usim import run, time
from usim.py import Environment


async def main():
    env = Environment()          # initial_time=0
    log = []
    created = env.now
    t = env.timeout(5, 'early')
    t.callbacks.append(lambda ev: log.append(
        'timeout(5) created at env.now=%s fired at env.now=%s' % (created, env.now)))
    await (time + 100)
    await env.until()
    print('\n'.join(log))
    print('EXPECTED: fired - created == 5')


run(main())
