# Property C15, sentences violated:
#   "`run()` ... re-raises the first exception escaping a ROOT activity unchanged ...
#    afterwards - however it ended - that thread sees no simulation again ... and
#    simulations running concurrently in different threads never influence each other's
#    clock or events."   Range: "for every sequence of runs (successful, failing, nested)
#    on a thread and every real thread interleaving".
#
# Scenario 1 (sequence failing run -> successful run, one thread): model code uses a
#   module level time condition `DEADLINE = (time >= 10)` (re-use of time condition
#   objects across runs is supported - see the `_ensure_trigger` comment in
#   usim/_primitives/timing.py).  Run 1 fails at time 5 while one of its activities
#   waits for DEADLINE.  run() re-raises, but does not dispose of the suspended
#   activities: the waiter stays subscribed in DEADLINE._waiting.  Run 2 (all new
#   activities) awaits DEADLINE as well; when its clock reaches 10, the trigger wakes ALL
#   subscribers - including the activity of the dead run 1, which now executes inside
#   run 2, reads run 2's clock, and its exception makes run 2 fail.
#   Expected: after run 1 ended nothing of it ever executes again; run 2 ends normally.
#   Observed: 'run1-worker' continues at time 10/11 of run 2; run 2 raises
#             RuntimeError('failure of run1-worker') - an exception that escaped none of
#             run 2's root activities.
#   (With a Flag instead of a time condition the same happens after a *successful*
#    run 1 that ended at quiescence with an activity still waiting for the flag.)
#
# Scenario 2 (two threads): the same module level DEADLINE, two simulations in two
#   threads (clocks start at 0 and -100).  When simulation A reaches 10 its trigger wakes
#   B's worker as well: B's activity is executed by thread A inside simulation A and
#   sees time.now == 10 of A.
#   Expected: worker-B passes the deadline in thread B at B's time 10.
#   Observed: "worker-B ... passed the deadline in thread A, time.now = 10".
#
# Root cause: Notification._waiting is per object, not per simulation, and run() leaves
#   suspended activities subscribed when it ends.
# Docs: nothing forbids module level `time >= x` objects; KNOWN only exempts a condition
#   shared between an ENCLOSING and a NESTED simulation, and lists re-use of time
#   condition objects across runs as a fixed defect (i.e. as legal use).
# Confidence: scenario 1 medium (0.5); scenario 2 medium-low (0.35, sharing an object
#   between threads may be judged the user's fault).
import sys; sys.path.insert(0, '/tmp/huntF')
import usim, threading
assert usim.__file__.startswith('/tmp/huntF')
from usim import run, time

DEADLINE = time >= 10


async def worker(name):
    await DEADLINE
    print('   %s passed the deadline, time.now = %s' % (name, time.now))
    await (time + 1)
    print('   %s still running at %s' % (name, time.now))
    raise RuntimeError('failure of %s' % name)


async def bomb():
    await (time + 5)
    raise KeyError('run 1 fails at 5')


async def good(name):
    await DEADLINE
    print('   %s passed the deadline, time.now = %s' % (name, time.now))
    await (time + 5)


print('scenario 1, run 1')
try:
    run(worker('run1-worker'), bomb())
except KeyError as e:
    print('   run 1 raised %r' % e)
try:
    time.now
except RuntimeError:
    print('   no simulation visible after run 1')
print('scenario 1, run 2 (root activities: only run2-activity)')
try:
    run(good('run2-activity'))
    print('   run 2 ended normally   <- demanded')
except BaseException as e:
    print('   run 2 RAISED %r' % e)

print('scenario 2, threads')
DEADLINE = time >= 10
both_waiting = threading.Barrier(2)
out = []


async def tworker(name):
    me = threading.current_thread().name
    await DEADLINE
    out.append('   %s (simulation of thread %s) passed the deadline in thread %s, time.now = %s'
               % (name, me, threading.current_thread().name, time.now))


async def sync():
    await (time + 1)
    both_waiting.wait()         # both simulations have their worker waiting now
    if threading.current_thread().name == 'B':
        import time as rt
        rt.sleep(0.3)           # B happens to be slower in real time


def simulate(name, start):
    try:
        run(tworker('worker-' + name), sync(), start=start)
    except BaseException as e:
        out.append('   simulation %s raised %r' % (name, e))


ta = threading.Thread(target=simulate, args=('A', 0), name='A')
tb = threading.Thread(target=simulate, args=('B', -100), name='B')
ta.start(); tb.start(); ta.join(); tb.join()
print('\n'.join(out))
print('   EXPECTED: worker-B passes the deadline in thread B')
