# Property C15, sentences violated:
#   "`run()` returns only when no activity can make progress any more (or `till` is
#    reached) ... re-raises the first exception escaping a root activity unchanged"
#
# Scenario: a root activity with an asynchronous clean-up (`finally: await queue.put()`),
# which is fine everywhere else in usim (a CancelTask, an `until` interrupt or a scope
# cancellation all allow awaiting during clean-up), is run with `till`.
#
# Expected: when `till` is reached run() RETURNS (the property's "or till is reached");
#           no root activity raised anything.  The very same model in the equivalent
#           spelling `async with until(time >= 10): await worker(q)` ends quietly.
# Observed: run(root(), till=10) raises RuntimeError('coroutine ignored GeneratorExit'),
#           an exception that did not escape any root activity of the user.
# Cause: same root as the known F13/F29/F30 family (run(till) wraps the roots as child
#   tasks of an until-scope): at `till` the children are not interrupted but `.close()`d
#   (GeneratorExit), and a coroutine that awaits while being closed makes Python raise
#   RuntimeError out of Task.__close__ -> Scope.__aexit__ -> run().  This *symptom* is
#   not in the known list.
# Docs: Scope.do documents "must exit without awaiting" for VOLATILE tasks only; run()'s
#   docstring: "till: time at which to terminate the simulation" - no restriction on
#   what root activities may do in their clean-up.
# Confidence: low-medium (0.35) - new symptom of a known design weakness; may be judged
#   "forceful close, documented for scopes".
import sys; sys.path.insert(0, '/tmp/huntF')
import usim
assert usim.__file__.startswith('/tmp/huntF')
from usim import run, time, until, Queue

seen = []


async def worker(q):
    try:
        await (time + 100)
    finally:
        await q.put('bye')            # asynchronous clean-up
        seen.append(('clean-up done at', time.now))


async def root():
    await worker(Queue())


async def inline():
    async with until(time >= 10):
        await worker(Queue())


for label, call in (('until(time >= 10) inside the root', lambda: run(inline())),
                    ('run(root(), till=10)             ', lambda: run(root(), till=10))):
    seen.clear()
    try:
        call()
        print(label, ': returned,', seen)
    except BaseException as e:
        print(label, ': RAISED %r,' % e, seen)
print('EXPECTED: both return')
