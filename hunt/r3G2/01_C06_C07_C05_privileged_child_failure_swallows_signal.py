"""
Properties: C06 (precise cancellation), C07 (until ends the block when the notification
fires), C05 (first failure aborts the body in the same time step).

Violated sentences
  C06: "cancelling a suspended task raises the cancellation inside it at its current
        suspension point in the same time step and awaiters get TaskCancelled carrying
        the task and the token"
  C07: "If the notification of `async with until(n)` fires ... while the block is still
        active, the body is abandoned at its next suspension point within that same time
        step ... Hence the block ends at the earlier of the trigger time and its own
        completion time"
  C05: "The first failure aborts the body and all remaining children within the same
        time step, so the block ends at the virtual time of that failure."

Scenario (found by the randomised fuzzer fz1.py, seeds 79079 / 1083727 / 1177285,
minimised by hand).  An activity runs an INNER `Scope` and handles an AssertionError
coming out of it (`except AssertionError`, `pytest.raises(AssertionError)` ... - this is
what PROMOTE_CONCURRENT exists for: "Only the fatal exception types SystemExit,
KeyboardInterrupt, and AssertionError are not collapsed, but propagated directly").
If a signal for something ENCLOSING the inner scope (Task.cancel() of the activity, the
notification of an enclosing until(), the child-failure abort of an enclosing Scope) is
delivered in the very time step in which a child of the inner scope fails with the
privileged exception, `Scope._propagate_exceptions` (context.py, third branch: "we already
have an exception to propagate, take only important ones") REPLACES the signal by the
child's AssertionError.  The signal only survives as `__context__`.  Once the activity
handles the AssertionError - which is about the inner scope only - the cancellation /
until-trigger / outer abort is gone for good:

  A. the cancelled task keeps running and ends with SUCCESS, awaiters get a normal result
  B. the body of `until(time >= now + 1)` runs on for 5 more time units
  C. the outer Scope whose child failed at t=1 keeps running its body until t=6 and only
     then raises Concurrent (block ends at 6, failure was at 1)

Expected: A: awaiter gets TaskCancelled(task, 'stop') at t=1, worker prints nothing after
t=1;  B: block ends at t=1;  C: block ends at t=1 with Concurrent[KeyError].
Observed: see output ("STILL running" lines at t=6).

Not documented anywhere; the docs only say privileged exceptions are propagated unwrapped,
not that they may swallow a pending cancellation.  This differs from the known F25 (a
SECOND signal arriving during the clean-up of a first one): here there is only one signal
and no user clean-up code; the inner scope's own __aexit__ drops it.

Confidence: medium-high that this is a genuine defect (cancellation silently lost,
awaiters of the task hang / get a result).  It needs a privileged exception type and a
handler for it, which is the documented use of these types.
"""
import sys; sys.path.insert(0, '/tmp/huntG2')
import usim
from usim import Scope, time, until, TaskCancelled, Concurrent, eternity

assert usim.__file__.startswith('/tmp/huntG2')


async def checker(delay):
    await (time + delay)
    assert False, "inner invariant broken"


async def guarded_inner_scope():
    """an inner scope whose assertion failures are handled locally"""
    try:
        async with Scope() as scope:
            scope.do(checker(1))
            await eternity
    except AssertionError as err:
        print('  %s handled %r (its __context__ is %r)' % (time.now, err, err.__context__))


# ---------------------------------------------------------------- A: Task.cancel lost
async def worker():
    await guarded_inner_scope()
    await (time + 5)
    print('  %s worker: STILL running, 5 after its cancellation' % time.now)
    return 'a normal result'


async def case_a():
    print('A: task.cancel() at t=1')
    async with Scope() as scope:
        task = scope.do(worker())
        await (time + 1)
        task.cancel('stop')
        try:
            result = await task
        except TaskCancelled as err:
            print('  %s awaiter: TaskCancelled %r  [expected]' % (time.now, err.args))
        else:
            print('  %s awaiter: got %r, status %s  [VIOLATION C06]' % (
                time.now, result, task.status))


# ---------------------------------------------------------------- B: until lost
async def case_b():
    print('B: until(time >= now + 1)')
    start = time.now
    async with until(time >= start + 1):
        await guarded_inner_scope()
        await (time + 5)
        print('  %s until body: STILL running, trigger was at %s  [VIOLATION C07]' % (
            time.now, start + 1))
    print('  %s until block ended (expected %s)' % (time.now, start + 1))


# ---------------------------------------------------------------- C: outer abort lost
async def failing(delay):
    await (time + delay)
    raise KeyError('outer child')


async def case_c():
    print('C: child of the OUTER scope fails at +1')
    start = time.now
    try:
        async with Scope() as outer:
            outer.do(failing(1))
            await guarded_inner_scope()
            await (time + 5)
            print('  %s outer body: STILL running, its child failed at %s  [VIOLATION C05]'
                  % (time.now, start + 1))
    except Concurrent as err:
        print('  %s outer block ended with %r (expected at %s)' % (time.now, err, start + 1))


async def main():
    await case_a()
    await case_b()
    await case_c()


usim.run(main())
