"""
Properties: C16 (first() aborts the rest), C04 (no task outlives its scope).

Violated sentences
  C16: "`first(..., count=k)` ... aborts the activities still running at that moment so
        that none of their code runs afterwards."  Range: "every consumer behaviour (slow
        consumer, early break, cancellation of the caller)"
  C04: "When control leaves an `async with Scope()` / `until(...)` block - ... by a child
        failure, by the notification, or because the owning activity is cancelled ... -
        every task started in it is done, and no code of those tasks or their descendants
        runs afterwards."

Scenario: the consumer binds the iterator to a name - `results = first(a, b, c, count=2)`
followed by `async for winner in results:` - instead of writing the call inline in the
`async for`.  While the consumer is suspended in its loop body (it handles the first
result), it is
   1. cancelled with Task.cancel(), or
   2. fails with an exception of its own, or
   3. abandoned because an enclosing `until(...)` fires.
In all three cases the consumer is gone, but the remaining contestants b and c are NOT
aborted: the half-consumed async generator `first()` (which holds the Scope owning the
contestants, cf. F11) is still referenced from the frame of the dead consumer, and that
frame is kept alive by the traceback of the CancelTask / exception / CancelScope that
killed it (stored in Task._result, in the Concurrent, or in a reference cycle).  The
contestants run on - beyond the end of the enclosing Scope / until block, i.e. as
descendants of a task that is long done - until the traceback happens to be dropped.  In
case 3 that is whenever the cyclic garbage collector happens to run, so the simulation
result depends on GC timing (a `gc.collect()` at t=9.5 ends them at t=9.5).

With the call written inline (`async for w in first(...)`) the iterator only lives on the
value stack, is released while the frame unwinds and everything is fine - that is why the
randomised fuzzer fz2.py (which used the inline form) did not see it.

Expected: contestants b and c are aborted at t=8 (cancel / until) resp. t=7 (failure); in
any case no "racer ... step" line after the "block ended" line.
Observed: b and c run to completion (t=12, t=18), after the consumer task is CANCELLED /
FAILED and after the enclosing block has ended.

Relation to known F11: same root cause (first() keeps a Scope open across `yield`), but
F11 as listed covers a contestant failing during the loop body and losers running during
the k-th body; here the caller's cancellation / failure / until-abort does not reach the
contestants at all and they outlive the enclosing scope.
Confidence: medium-high (binding an iterator to a name is ordinary Python; behaviour is
silent and GC dependent).  CPython 3.12.
"""
import sys; sys.path.insert(0, '/tmp/huntG2')
import gc
import usim
from usim import Scope, time, until, first, Concurrent

assert usim.__file__.startswith('/tmp/huntG2')
gc.disable()   # make the demonstration deterministic; see case 3 for the GC dependence

marks = []


async def racer(name, step):
    for i in range(6):
        await (time + step)
        marks.append((time.now, name))
    return name


async def consumer(fail=False):
    results = first(racer('a', 1), racer('b', 2), racer('c', 3), count=2)
    async for winner in results:
        print('  %s consumer got %r' % (time.now, winner))   # 'a' at t=6
        if fail:
            await (time + 1)
            raise KeyError('consumer failed')
        await (time + 100)        # slow handling of the first result


def report(ended):
    late = sorted(m for m in marks if m[0] > ended)
    print('  contestant code after the block ended at %s: %s' % (
        ended, late or 'none  [expected]'))
    if late:
        print('  -> VIOLATION: contestants b, c were never aborted')
    del marks[:]


async def case1():
    print('1. caller cancelled at t=8 while handling the first result')
    async with Scope() as scope:
        task = scope.do(consumer())
        await (time + 8)
        task.cancel()
    ended = time.now
    print('  %s enclosing scope ended, consumer is %s' % (ended, task.status))
    await (time + 20)
    report(ended)


async def case2():
    print('2. caller fails at t=7 while handling the first result')
    try:
        async with Scope() as scope:
            scope.do(consumer(fail=True))
    except Concurrent as err:
        print('  %s enclosing scope ended with %r' % (time.now, err))
    ended = time.now
    await (time + 20)
    report(ended)


async def case3():
    print('3. enclosing until(time + 8) fires while handling the first result')
    async with until(time + 8):
        await consumer()
    ended = time.now
    print('  %s until block ended' % ended)
    await (time + 1.5)
    print('  %s gc.collect() frees %d objects' % (time.now, gc.collect()))
    await (time + 20)
    report(ended)   # only steps up to the moment of the gc.collect() - GC dependent


for case in (case1, case2, case3):
    usim.run(case())
