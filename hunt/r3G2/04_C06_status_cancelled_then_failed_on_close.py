"""
Property: C06 (task lifecycle: forward-only status, stable result).

Violated sentence: "A task's status only moves forward (created, running, then exactly one
of success / failed / cancelled), its outcome never changes once it is done"

Scenario: a task is closed forcefully at the end of its scope (a volatile child here; the
same for non-volatile children of an aborted scope or the roots of `run(till=)`).
Task.__close__ stores the final outcome `(None, TaskClosed)` BEFORE it closes the
coroutine, so `task.status` already reports CANCELLED while the task's own code (its
`finally:` / `except GeneratorExit:` clean-up) is still running.  If that clean-up raises
(e.g. releasing something fails) the wrapper overwrites the stored outcome and the status
flips CANCELLED -> FAILED.  (A clean-up that swallows the GeneratorExit and returns stays
CANCELLED - task C below - because Python discards that return value.)
The transition is visible through the public API to code that runs in between - the
clean-up code of the task itself and of the siblings that are closed before / after it.

Expected: RUNNING until the clean-up has ended, then exactly one final state.
Observed: A: RUNNING -> CANCELLED -> FAILED.

The docs only demand that a closed activity "must exit without `await`ing or `yield`ing
anything" - raising or returning is not forbidden.  (Found by the fuzzer's status poll:
fz1.py seeds 63721, 81969 with a privileged exception replacing the GeneratorExit.)
Confidence: medium that it is a defect, low severity (transient, no awaiter can see two
different outcomes because no awaiter can run in between).
"""
import sys; sys.path.insert(0, '/tmp/huntG2')
import usim
from usim import Scope, time, Concurrent

assert usim.__file__.startswith('/tmp/huntG2')

tasks = {}
history = {'A': [], 'B': [], 'C': []}


def observe(where):
    for name, task in tasks.items():
        state = str(task.status).split('.')[-1]
        if not history[name] or history[name][-1] != state:
            history[name].append(state)


async def service(name, how):
    try:
        observe('start of ' + name)
        await (time + 100)
    except GeneratorExit:
        observe('clean-up of ' + name)
        if how == 'return':
            return 'fine'
        raise
    finally:
        observe('clean-up of ' + name)
        if how == 'raise':
            raise ValueError('release failed in ' + name)


async def main():
    try:
        async with Scope() as scope:
            tasks['A'] = scope.do(service('A', 'raise'), volatile=True)
            tasks['B'] = scope.do(service('B', 'plain'), volatile=True)
            tasks['C'] = scope.do(service('C', 'return'), volatile=True)
            await (time + 1)
    except Concurrent as err:
        print('scope ended with', repr(err))
    observe('after the scope')
    for name in tasks:
        finals = [s for s in history[name] if s not in ('CREATED', 'RUNNING')]
        flag = '' if len(finals) <= 1 else '   <-- VIOLATION: two different final states'
        print(name, ' -> '.join(history[name]), flag)


usim.run(main())
