"""
Property: C04 (no task outlives its scope).

Violated sentence: "When control leaves an `async with Scope()` / `until(...)` block -
... by the notification, or because the owning activity is cancelled or closed - every task
started in it is done, and no code of those tasks or their descendants runs afterwards."
Range: "for every tree of nested scopes and child tasks".

Scenario: a chain of nested activities, each of which opens a Scope and runs the next
level as its only child (recursive divide-and-conquer style), ~250 or more levels deep.
The outermost block is an `until(time + 5)`.  Forcefully ending a scope closes its
children synchronously and recursively (Scope._close_children -> Task.__close__ ->
coroutine.close() -> GeneratorExit -> inner Scope.__aexit__ -> _close_children -> ...),
about 4 Python frames per level.  Somewhere down the chain the interpreter's recursion
limit (default 1000) is hit; the RecursionError is raised INSIDE the payload of that level,
replaces the GeneratorExit, is recorded as an ordinary failure of that task, and is then
dropped by the parent's `_propagate_exceptions` (third branch: the GeneratorExit is kept,
only privileged child failures are looked at).  `_close_children` of that level was aborted
half way, so all levels below are never closed.

Expected: at t=5 the until block ends, all levels are done, nothing runs afterwards.
Observed: the until block ends silently at t=5 (no exception whatsoever), ~150 of the 400
levels are still alive, and the deepest one goes on printing at t=6, 7, 8...; the tasks
report status RUNNING and `done` False after their (grand-)parent scope is long gone.
The same happens when the owner is cancelled with Task.cancel() instead of until().
Normal (graceful) completion of the same tree is fine - only the forceful close recurses.

Confidence: medium.  The trigger is an interpreter limit, not a logic error, and 250 nested
scopes are unusual - but nothing in the docs limits the nesting depth, the failure is
completely silent (the RecursionError is swallowed, no warning), and the orphaned tasks keep
mutating simulation state.  Reported because the property explicitly ranges over every
tree of nested scopes.
"""
import sys; sys.path.insert(0, '/tmp/huntG2')
import usim
from usim import Scope, time, until, TaskState

assert usim.__file__.startswith('/tmp/huntG2')

N = int(sys.argv[1]) if len(sys.argv) > 1 else 400
alive = set()
tasks = {}


async def level(i):
    alive.add(i)
    try:
        if i == N:
            while True:
                await (time + 1)
                if time.now > 5:
                    print(time.now, 'deepest level (%d) is still running' % N)
                    if time.now >= 8:
                        return
        else:
            async with Scope() as scope:
                tasks[i + 1] = scope.do(level(i + 1))
    finally:
        alive.discard(i)


async def main():
    try:
        async with until(time + 5) as scope:
            tasks[1] = scope.do(level(1))
    except BaseException as err:
        print(time.now, 'until block raised', type(err).__name__)
    else:
        print(time.now, 'until block ended without exception')
    print(time.now, 'levels still alive after the block (expected 0):', len(alive))
    undone = [i for i, t in tasks.items() if not t.done]
    print(time.now, 'tasks not done (expected none): %d, e.g. level %s status %s' % (
        len(undone), undone[:1], tasks[undone[0]].status if undone else None))
    failed = [(i, t) for i, t in tasks.items() if t.status is TaskState.FAILED]
    for i, t in failed[:1]:
        try:
            await t
        except BaseException as err:
            print(time.now, 'level %d silently failed with %s' % (i, type(err).__name__))
    await (time + 10)


usim.run(main())
