# Property: C18
#
# Violated sentence:
#   "an unhandled failed event ends the run with that exception"
#   (and "activities and processes can wait for each other's events, notifications and
#    coroutines with the same results";  Range: "yielded native activities/notifications,
#    standalone or embedded in a native simulation")
#
# Scenario: a Process yields a native usim activity / Task whose outcome is usim's public
# `TaskCancelled` exception (a normal `Exception` that `await task` raises for a cancelled
# task).  The exception is correctly thrown into the generator; the generator does not handle
# it, so the Process fails with TaskCancelled (process.ok is False, process.value is the
# TaskCancelled).  Nobody waits for the process -> this is an unhandled failed event.
#
# Expected: env.run() / the embedding `async with env` ends with that exception (as it does
# for e.g. a KeyError - see control).
# Observed: the run is ABORTED at that moment (all other processes are killed, env.now stops)
# but NO exception is raised: run() returns normally as if the simulation had finished.
# Cause: the failure is re-raised by Event._invoke_callbacks inside a child task of the
# Environment's Scope; Scope.SUPPRESS_CONCURRENT = (TaskCancelled, TaskClosed, GeneratorExit)
# cancels the scope for the failed child and then drops the exception.
#
# Confidence: medium. Exotic, but silent truncation of a simulation is about the worst
# failure mode; nothing in the docs says exceptions of that type are exempt in usim.py.
import sys; sys.path.insert(0, '/tmp/hunt5')
import faulthandler; faulthandler.dump_traceback_later(25, exit=True)
import usim
assert usim.__file__.startswith('/tmp/hunt5')
from usim.py import Environment
from usim import run as usim_run, time, Scope, TaskCancelled


async def cancelled_job():
    """A native activity that ends with TaskCancelled (helper task got cancelled)"""
    async with Scope() as scope:
        helper = scope.do(time + 100)
        await (time + 1)
        helper.cancel()
        await helper            # raises TaskCancelled


async def keyerror_job():
    await (time + 1)
    raise KeyError('job failed')


def standalone(job, label):
    env = Environment()
    ticks = []

    def proc():
        yield job()             # exception of the job is thrown in here, not handled

    def bystander():
        for _ in range(5):
            yield env.timeout(1)
            ticks.append(env.now)

    p = env.process(proc())
    env.process(bystander())
    try:
        env.run()
        verdict = 'ok' if p.ok else 'VIOLATION'
        print('%s: %s run() returned normally at now=%s; process.ok=%s value=%r; '
              'bystander ticks=%s (5 expected if the run really completed)'
              % (label, verdict, env.now, p.ok, p.value, ticks))
    except BaseException as err:
        print('%s: run() raised %r at now=%s' % (label, err, env.now))


def embedded():
    log = []

    async def main():
        async with Scope() as scope:
            task = scope.do(time + 100)
            async with Environment() as env:
                def proc():
                    yield task          # native Task, cancelled at t=1

                def canceller():
                    yield env.timeout(1)
                    task.cancel()

                def bystander():
                    for _ in range(5):
                        yield env.timeout(1)
                        log.append(env.now)

                p = env.process(proc())
                env.process(canceller())
                env.process(bystander())
            print('embedded: VIOLATION `async with env` exited normally at %s; process.ok=%s '
                  'value=%r; bystander ticks=%s' % (time.now, p.ok, p.value, log))
    try:
        usim_run(main())
    except BaseException as err:
        print('embedded: raised', repr(err))


standalone(keyerror_job, 'control KeyError   ')
standalone(cancelled_job, 'TaskCancelled      ')
embedded()
