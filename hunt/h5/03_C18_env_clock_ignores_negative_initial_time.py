# Property: C18
#
# Violated sentences:
#   "a Timeout fires exactly delay later"
#   "`env.run(until=...)` stops exactly at the given time or event"
#   Range: "standalone or embedded in a native simulation"
#
# Scenario 1 (standalone): Environment(initial_time=-5) - a legal SimPy argument (the API table
# in docs/source/api/usim.py.rst lists `Environment(initial_time=0)` without restriction; the
# existing test only covers initial_time=25).  env.now reports -5 before the run, but the run
# happens on a usim loop that starts at 0 and Environment.__aenter__ only waits FORWARD
# (`if loop.time < initial_time`).  So the clock jumps from -5 to 0 when the run starts:
#   - a Timeout(3) created at env.now == -5 fires at env.now == 3 (8 later, expected -2),
#   - the first process step sees env.now == 0 (expected -5),
#   - env.run(until=-2) raises ValueError('until must be in the future') although now is -5,
#   - env.run(until=7) ends at 7 having simulated only 7 instead of 12 time units.
#
# Scenario 2 (embedded): an Environment() created at usim time 0, given a Timeout(3), and
# entered (`async with env`) at usim time 7: env.now reads 0 when the timeout is created and
# the timeout fires at env.now == 10.
#
# Expected: the timeout fires at creation-time env.now + delay; until is compared against
# env.now.   Observed: see above.
#
# Confidence: medium-high for scenario 1 (a negative start time silently yields a wrong clock;
# nothing in the docs forbids it). Scenario 2 is lower (env.now before entering is arguably
# undefined), listed because it has the same cause: env.now is the raw loop time and
# initial_time is only honoured when it lies ahead of the loop time.
import sys; sys.path.insert(0, '/tmp/hunt5')
import faulthandler; faulthandler.dump_traceback_later(25, exit=True)
import usim
assert usim.__file__.startswith('/tmp/hunt5')
from usim.py import Environment
from usim import run as usim_run, time


def standalone():
    env = Environment(initial_time=-5)
    log = [('before run, now', env.now)]
    timeout = env.timeout(3, 'v')      # created at env.now == -5 -> must fire at -2

    def proc():
        log.append(('first step, now', env.now))
        yield timeout
        log.append(('timeout(3) fired, now', env.now))

    env.process(proc())
    env.run()
    print('standalone:', log)
    print('   expected: first step at -5, timeout fired at -2')

    env = Environment(initial_time=-5)
    try:
        env.run(until=-2)
        print('run(until=-2) from now=-5: stopped at', env.now)
    except ValueError as err:
        print('run(until=-2) from now=-5: VIOLATION raised', repr(err))

    env = Environment(initial_time=-5)
    ticks = []

    def clock():
        while True:
            yield env.timeout(1)
            ticks.append(env.now)

    env.process(clock())
    env.run(until=7)
    print('run(until=7) from now=-5: %d ticks of 1 simulated (expected 11), first tick at %s'
          % (len(ticks), ticks[0]))


def embedded():
    log = []

    async def main():
        env = Environment()
        timeout = env.timeout(3)
        log.append(('created timeout(3) at env.now', env.now))

        def proc():
            yield timeout
            log.append(('timeout fired at env.now', env.now))

        env.process(proc())
        await (time + 7)
        async with env:
            pass
    usim_run(main())
    print('embedded:', log, '(expected to fire 3 after creation)')


standalone()
embedded()
